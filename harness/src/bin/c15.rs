//! C15 correspondence: connection lifecycle hooks of the WebSocket server.
//! For every exit cause x connection phase x serving path x 1..N concurrent
//! connections, a real server runs with counting connect / disconnect hooks, an
//! optional `PeerRegistry` (sampled from inside the hooks and afterwards), a raw
//! tungstenite peer recording the frame order, and a parked off-reader handler
//! polling `ctx.is_cancelled()`.  One observation per connection:
//!   trace  = the hook invocations ordered by one global sequence counter
//!            (C<i>:<present>  K  D<j>:<present>:<resolving aliases>)
//!   after  = registry.get / get_by after the connection ended
//!   wire   = the frames the raw peer saw up to and including the first response
//!   seen   = did the parked handler observe cancellation (0|1|na)
use futures_util::{SinkExt, StreamExt};
use repe::tokio_tungstenite as tt;
use repe::{
    BodyFormat, CallContext, ErrorCode, HandshakeContext, NotifyBody, PeerHandle, PeerId, PeerRegistry, Router,
    SharedWebSocketServer, ShutdownToken, WebSocketLimits, WebSocketServer, derive_accept_key,
};
use repe_verif_harness::*;
use serde_json::{Value, json};
use std::collections::HashMap;
use std::sync::atomic::{AtomicBool, AtomicU64, AtomicUsize, Ordering::SeqCst};
use std::sync::{Arc, Mutex, OnceLock};
use std::time::{Duration, Instant};
use tokio::io::{AsyncBufReadExt, AsyncReadExt, AsyncWriteExt, BufReader};
use tokio::net::{TcpListener, TcpStream};
use tt::tungstenite::Message as WsMsg;
use tt::tungstenite::http;

type Ws = tt::WebSocketStream<TcpStream>;

const T_CONN: Duration = Duration::from_secs(8);
const T_PHASE: Duration = Duration::from_secs(6);
const T_DISC: Duration = Duration::from_secs(3);
const T_SEEN: Duration = Duration::from_secs(2);
const T_CASE: Duration = Duration::from_secs(40);
const FLOOD_BODY: usize = 32 * 1024;
const INBOUND_LIMIT: usize = 64 * 1024;

/// enough workers that 32 connections blocked inside synchronous hooks / inline
/// handlers leave the runtime responsive
fn rt() -> &'static tokio::runtime::Runtime {
    static RT: OnceLock<tokio::runtime::Runtime> = OnceLock::new();
    RT.get_or_init(|| tokio::runtime::Builder::new_multi_thread().worker_threads(48).max_blocking_threads(128).enable_all().build().unwrap())
}

fn hx(v: u64) -> String { format!("{v:x}") }
fn ph(s: &str) -> Option<u64> { u64::from_str_radix(s, 16).ok() }
fn clean(s: impl AsRef<str>) -> String { s.as_ref().chars().map(|c| if c.is_whitespace() { '_' } else { c }).collect() }
fn le64(b: &[u8]) -> u64 { let mut x = [0u8; 8]; x.copy_from_slice(&b[..8]); u64::from_le_bytes(x) }

fn frame(notify: u8, id: u64, q: &[u8], b: &[u8]) -> Vec<u8> {
    let mut f = Vec::with_capacity(48 + q.len() + b.len());
    f.extend_from_slice(&((48 + q.len() + b.len()) as u64).to_le_bytes());
    f.extend_from_slice(&0x1507u16.to_le_bytes());
    f.push(1);
    f.push(notify);
    f.extend_from_slice(&0u32.to_le_bytes());
    f.extend_from_slice(&id.to_le_bytes());
    f.extend_from_slice(&(q.len() as u64).to_le_bytes());
    f.extend_from_slice(&(b.len() as u64).to_le_bytes());
    f.extend_from_slice(&1u16.to_le_bytes()); // JSON pointer
    f.extend_from_slice(&2u16.to_le_bytes()); // JSON
    f.extend_from_slice(&0u32.to_le_bytes());
    f.extend_from_slice(q);
    f.extend_from_slice(b);
    f
}

// ------------------------------------------------------------------ the case

#[derive(Clone, Debug, PartialEq)]
enum Hact { Count, Notify(u64), Sleep, Panic, Alias(u64) }

fn parse_hooks(s: &str) -> Option<Vec<Hact>> {
    if s == "-" { return Some(vec![]); }
    s.split('.').map(|t| match t.as_bytes().first()? {
        b'c' if t.len() == 1 => Some(Hact::Count),
        b's' if t.len() == 1 => Some(Hact::Sleep),
        b'p' if t.len() == 1 => Some(Hact::Panic),
        b'n' => Some(Hact::Notify(ph(&t[1..])?)),
        b'a' => Some(Hact::Alias(ph(&t[1..])?)),
        _ => None,
    }).collect()
}

#[derive(Clone, Copy, Debug, PartialEq)]
enum Mode { Listener, Drain, ServeConn, Adopt }
#[derive(Clone, Copy, Debug, PartialEq)]
enum Cause { Close, Loss, Text, Big, Malformed, HPanic, Cancel, Abort }
#[derive(Clone, Copy, Debug, PartialEq)]
enum Phase { Idle, Inline, OffR, Queue, Hooks }
#[derive(Clone, Copy, Debug, PartialEq)]
enum Hs { Ok, Garbage, WrongPath, NoUpgrade }

#[derive(Clone, Debug)]
struct Case {
    mode: Mode, hs: Hs, ctx: bool, pre: Vec<Hact>, reg: bool, post: Vec<Hact>, xh: Vec<Hact>,
    dpre: usize, dpost: usize, cause: Cause, phase: Phase, reqs: u64, flood: u64, conns: usize,
    /// staggered: connection 0 ends by `cause` (while idle) and the others survive in `phase` until `cause2`
    stag: bool, cause2: Cause,
    /// two servers built the same way share the one peer registry; odd-numbered connections go to the second
    two: bool,
    /// the shared token is cancelled before the first connection is accepted (phase hooks, cause cancel)
    early: bool,
    /// every alias action also (re-)points a key shared by all connections at this peer
    shk: bool,
    /// the server's outbound queue holds this many messages (queue phase: the reader ends up parked handing over a response)
    oq: Option<usize>,
    /// the peer keeps not reading for 4 s (longer than T_DISC) after a token cause was raised: the connection must end regardless
    stall: bool,
    /// modes s / a: every connection is accepted and upgraded first, then all are served at the same instant
    burst: bool,
}
impl Case {
    /// the cause that ends the connections that end together (all of them, or the survivors)
    fn last_cause(&self) -> Cause { if self.stag { self.cause2 } else { self.cause } }
    fn token_cause(&self) -> bool { matches!(self.last_cause(), Cause::Cancel | Cause::Abort) }
    /// the hooks that can run, in execution order
    fn effective(&self) -> Vec<Hact> {
        let mut v = self.pre.clone();
        v.extend(self.post.iter().cloned());
        if self.ctx { v.extend(self.xh.iter().cloned()); }
        v
    }
    fn panic_reached(&self) -> bool { self.effective().contains(&Hact::Panic) }
    fn sleep_reached(&self) -> bool {
        for h in self.effective() { if h == Hact::Panic { return false; } if h == Hact::Sleep { return true; } }
        false
    }
}

fn parse_cause(s: &str) -> Option<Cause> {
    Some(match s { "close" => Cause::Close, "loss" => Cause::Loss, "text" => Cause::Text, "big" => Cause::Big, "malformed" => Cause::Malformed, "hpanic" => Cause::HPanic, "cancel" => Cause::Cancel, "abort" => Cause::Abort, _ => return None })
}

fn parse_case(line: &str) -> Option<Case> {
    let f = fields(line);
    Some(Case {
        mode: match f.get("mode")?.as_str() { "l" => Mode::Listener, "d" => Mode::Drain, "s" => Mode::ServeConn, "a" => Mode::Adopt, _ => return None },
        hs: match f.get("hs")?.as_str() { "ok" => Hs::Ok, "garbage" => Hs::Garbage, "wrongpath" => Hs::WrongPath, "noupgrade" => Hs::NoUpgrade, _ => return None },
        ctx: f.get("ctx")? == "1",
        pre: parse_hooks(f.get("pre")?)?, reg: f.get("reg")? == "1", post: parse_hooks(f.get("post")?)?, xh: parse_hooks(f.get("xh")?)?,
        dpre: ph(f.get("dpre")?)? as usize, dpost: ph(f.get("dpost")?)? as usize,
        cause: parse_cause(f.get("cause")?)?,
        phase: match f.get("phase")?.as_str() { "idle" => Phase::Idle, "inline" => Phase::Inline, "offr" => Phase::OffR, "queue" => Phase::Queue, "hooks" => Phase::Hooks, _ => return None },
        reqs: ph(f.get("reqs")?)?, flood: ph(f.get("flood")?)?, conns: ph(f.get("conns")?)? as usize,
        stag: f.get("stag").map(|s| s == "1").unwrap_or(false),
        cause2: match f.get("cause2").map(|s| s.as_str()) { None | Some("-") => Cause::Close, Some(s) => parse_cause(s)? },
        two: f.get("two").map(|s| s == "1").unwrap_or(false),
        early: f.get("early").map(|s| s == "1").unwrap_or(false),
        shk: f.get("shk").map(|s| s == "1").unwrap_or(false),
        oq: f.get("oq").and_then(|s| ph(s)).map(|q| q as usize),
        stall: f.get("stall").map(|s| s == "1").unwrap_or(false),
        burst: f.get("burst").map(|s| s == "1").unwrap_or(false),
    })
}

// ------------------------------------------------------------ server-side world

#[derive(Clone, Debug)]
enum Hev { C(usize, bool), K, D(usize, bool, usize) }

struct Rec { evs: Mutex<Vec<(u64, Hev)>>, keys: Mutex<Vec<String>>, parked: AtomicBool, seen: AtomicBool, client: AtomicUsize }
impl Rec {
    fn ndisc(&self) -> usize { self.evs.lock().unwrap().iter().filter(|(_, h)| matches!(h, Hev::D(..))).count() }
    fn nconn(&self) -> usize { self.evs.lock().unwrap().iter().filter(|(_, h)| matches!(h, Hev::C(..))).count() }
}

struct World {
    seq: AtomicU64,
    recs: Mutex<HashMap<u64, Arc<Rec>>>,
    registry: PeerRegistry,
    phase_hooks: bool,
    shk: bool,
    tiny_queue: bool,
    flood: u64,
    trigger: AtomicBool,
    release: AtomicBool,
    stop: AtomicBool,
    /// peer ids of the connections between their first connect hook and their first disconnect hook
    live: Mutex<std::collections::HashSet<u64>>,
    /// connections whose peer id was at that moment the id of another live connection
    dups: AtomicUsize,
    sleepers: AtomicUsize,
    inline_in: AtomicUsize,
    parked: AtomicUsize,
    flooded: AtomicUsize,
}
impl World {
    fn rec(&self, id: u64) -> Arc<Rec> {
        self.recs.lock().unwrap().entry(id).or_insert_with(|| Arc::new(Rec { evs: Mutex::new(vec![]), keys: Mutex::new(vec![]), parked: AtomicBool::new(false), seen: AtomicBool::new(false), client: AtomicUsize::new(usize::MAX) })).clone()
    }
    fn push(&self, r: &Rec, h: Hev) {
        let mut g = r.evs.lock().unwrap();
        let s = self.seq.fetch_add(1, SeqCst);
        g.push((s, h));
    }
    /// the peer's own keys that are attached to it in both views (lookup by key, alias list of the peer)
    fn resolving(&self, id: u64, r: &Rec) -> usize {
        let listed = self.registry.aliases_for(PeerId(id));
        r.keys.lock().unwrap().iter().filter(|k| self.registry.get_by(k.as_str()).is_some_and(|p| p.peer_id() == PeerId(id)) && listed.contains(k)).count()
    }
    /// the peer's own keys that are still attached to it in either view
    fn lingering(&self, id: u64, r: &Rec) -> usize {
        let listed = self.registry.aliases_for(PeerId(id));
        r.keys.lock().unwrap().iter().filter(|k| self.registry.get_by(k.as_str()).is_some_and(|p| p.peer_id() == PeerId(id)) || listed.contains(k)).count()
    }
}

fn connect_hook(w: &World, i: usize, h: &Hact, peer: &PeerHandle, hs: Option<&HandshakeContext>) {
    let id = peer.peer_id().0;
    let rec = w.rec(id);
    if i == 0 && !w.live.lock().unwrap().insert(id) { w.dups.fetch_add(1, SeqCst); }
    let present = w.registry.get(PeerId(id)).is_some();
    w.push(&rec, Hev::C(i, present));
    match h {
        Hact::Count => {}
        Hact::Notify(k) => for q in 0..*k { let _ = peer.send_notify(&format!("/h{i}"), NotifyBody::Json(q.to_string().into_bytes())); },
        Hact::Sleep => {
            if w.phase_hooks {
                w.sleepers.fetch_add(1, SeqCst);
                let t0 = Instant::now();
                while !w.trigger.load(SeqCst) && !w.stop.load(SeqCst) && t0.elapsed() < Duration::from_secs(4) { std::thread::sleep(Duration::from_millis(1)); }
                std::thread::sleep(Duration::from_millis(15));
            } else {
                std::thread::sleep(Duration::from_millis(4));
            }
        }
        Hact::Panic => panic!("c15 connect hook panic"),
        Hact::Alias(key) => {
            let ks = match hs.and_then(|h| h.query()) { Some(q) => format!("{q}-p{id}-k{key}"), None => format!("p{id}-k{key}") };
            if w.registry.alias(PeerId(id), ks.clone()) { rec.keys.lock().unwrap().push(ks); }
            // a key that moves from connection to connection (never counted among this peer's own)
            if w.shk { let _ = w.registry.alias(PeerId(id), format!("shared-k{key}")); }
        }
    }
}

fn disconnect_hook(w: &World, j: usize, id: PeerId) {
    if j == 0 { w.live.lock().unwrap().remove(&id.0); }
    let rec = w.rec(id.0);
    // A parked handler polls the token every millisecond: when the token was
    // cancelled BEFORE the hooks started it is seen well within this window;
    // were it cancelled after them, the window elapses and K sorts after D.
    if rec.parked.load(SeqCst) {
        let t0 = Instant::now();
        while !rec.seen.load(SeqCst) && t0.elapsed() < Duration::from_millis(1500) { std::thread::sleep(Duration::from_millis(1)); }
    }
    let present = w.registry.get(id).is_some();
    let al = if present { w.resolving(id.0, &rec) } else { w.lingering(id.0, &rec) };
    w.push(&rec, Hev::D(j, present, al));
}

type HErr = (ErrorCode, String);

fn router(w: &Arc<World>) -> Router {
    let (w1, w2, w3, w4) = (w.clone(), w.clone(), w.clone(), w.clone());
    Router::new()
        .with_json("/k", |_| Ok(json!(1)))
        // the first request of a raw peer tells the server which peer it is
        .with_json_ctx("/who", move |ctx: &CallContext, v: Value| -> Result<Value, HErr> {
            if let (Some(p), Some(i)) = (ctx.peer(), v.as_u64()) { w4.rec(p.peer_id().0).client.store(i as usize, SeqCst); }
            Ok(json!(1))
        })
        .with_json("/panic", |_| -> Result<Value, HErr> { panic!("c15 inline handler panic") })
        .with_json_ctx("/hold", move |ctx: &CallContext, v: Value| -> Result<Value, HErr> {
            w1.inline_in.fetch_add(1, SeqCst);
            let t0 = Instant::now();
            while !w1.release.load(SeqCst) && !w1.stop.load(SeqCst) && !ctx.is_cancelled() && t0.elapsed() < Duration::from_secs(5) { std::thread::sleep(Duration::from_millis(1)); }
            if v == json!("p") { panic!("c15 held inline handler panic"); }
            Ok(json!(1))
        })
        .with_json_ctx_blocking("/park", move |ctx: &CallContext, _v: Value| -> Result<Value, HErr> {
            let Some(id) = ctx.peer().map(|p| p.peer_id().0) else { return Ok(json!(0)) };
            let rec = w2.rec(id);
            rec.parked.store(true, SeqCst);
            w2.parked.fetch_add(1, SeqCst);
            let t0 = Instant::now();
            loop {
                if ctx.is_cancelled() { w2.push(&rec, Hev::K); rec.seen.store(true, SeqCst); break; }
                if w2.stop.load(SeqCst) || t0.elapsed() > Duration::from_secs(12) { break; }
                std::thread::sleep(Duration::from_millis(1));
            }
            Ok(json!(1))
        })
        .with_json_ctx("/flood", move |ctx: &CallContext, _v: Value| -> Result<Value, HErr> {
            if let Some(p) = ctx.peer() {
                // with a tiny queue (`oq`): keep topping it up until it stays full for 120 ms, i.e. the writer
                // is stuck in the transport with one message in hand and the queue behind it is full
                let mut refused = 0;
                let mut sent = 0;
                while sent < w3.flood {
                    if p.send_notify("/f", NotifyBody::Raw(vec![0x55; FLOOD_BODY], BodyFormat::RawBinary)).is_ok() { sent += 1; refused = 0; continue; }
                    refused += 1;
                    if !w3.tiny_queue || refused > 60 { break; }
                    std::thread::sleep(Duration::from_millis(2));
                }
            }
            w3.flooded.fetch_add(1, SeqCst);
            Ok(json!(1))
        })
}

fn build_server(c: &Case, w: &Arc<World>) -> WebSocketServer {
    let limits = WebSocketLimits::default().with_max_incoming_frame_size(Some(INBOUND_LIMIT)).with_max_incoming_message_size(Some(INBOUND_LIMIT));
    let mut srv = WebSocketServer::new(router(w)).with_limits(limits).on_error(|_| {});
    if let Some(q) = c.oq { srv = srv.with_outbound_capacity(q); }
    let mut idx = 0usize;
    let plain = |srv: WebSocketServer, i: usize, h: &Hact| { let (w, h) = (w.clone(), h.clone()); srv.on_peer_connect(move |peer| connect_hook(&w, i, &h, &peer, None)) };
    let disc = |srv: WebSocketServer, j: usize| { let w = w.clone(); srv.on_peer_disconnect(move |id| disconnect_hook(&w, j, id)) };
    for h in &c.pre { srv = plain(srv, idx, h); idx += 1; }
    for j in 0..c.dpre { srv = disc(srv, j); }
    if c.reg { srv = srv.with_peer_registry(w.registry.clone()); }
    for h in &c.post { srv = plain(srv, idx, h); idx += 1; }
    for j in c.dpre..c.dpre + c.dpost { srv = disc(srv, j); }
    for h in &c.xh {
        let (w, h, i) = (w.clone(), h.clone(), idx);
        srv = srv.on_peer_connect_with_handshake(move |peer, hs| connect_hook(&w, i, &h, peer, Some(hs)));
        idx += 1;
    }
    srv
}

/// what an HTTP framework's WebSocket route does: read the upgrade request, answer 101
async fn hand_rolled_upgrade(stream: TcpStream) -> std::io::Result<(TcpStream, http::Request<()>)> {
    let mut reader = BufReader::new(stream);
    let mut request_line = String::new();
    if reader.read_line(&mut request_line).await? == 0 { return Err(std::io::Error::other("closed")); }
    let target = request_line.split_whitespace().nth(1).ok_or_else(|| std::io::Error::other("request line"))?.to_owned();
    let mut builder = http::Request::builder().method("GET").uri(&target);
    let mut key = String::new();
    loop {
        let mut line = String::new();
        if reader.read_line(&mut line).await? == 0 { return Err(std::io::Error::other("closed mid-handshake")); }
        let line = line.trim_end();
        if line.is_empty() { break; }
        let Some((name, value)) = line.split_once(':') else { continue };
        let value = value.trim();
        if name.eq_ignore_ascii_case("sec-websocket-key") { key = value.to_owned(); }
        builder = builder.header(name, value);
    }
    let request = builder.body(()).map_err(|e| std::io::Error::other(e.to_string()))?;
    if !reader.buffer().is_empty() { return Err(std::io::Error::other("pipelined")); }
    let mut stream = reader.into_inner();
    let accept = derive_accept_key(key.as_bytes());
    stream.write_all(format!("HTTP/1.1 101 Switching Protocols\r\nUpgrade: websocket\r\nConnection: Upgrade\r\nSec-WebSocket-Accept: {accept}\r\n\r\n").as_bytes()).await?;
    Ok((stream, request))
}

struct ServerCtl {
    addr: std::net::SocketAddr,
    addr2: Option<std::net::SocketAddr>,
    mode: Mode,
    tasks: Vec<tokio::task::JoinHandle<()>>,
    conn_aborts: Arc<Mutex<Vec<tokio::task::AbortHandle>>>,
    token: ShutdownToken,
    drain_tx: Option<tokio::sync::oneshot::Sender<()>>,
}
impl ServerCtl {
    fn fire(&mut self, cause: Cause) {
        match self.mode {
            Mode::Listener => {}
            Mode::Drain => { if let Some(tx) = self.drain_tx.take() { let _ = tx.send(()); } }
            Mode::ServeConn | Mode::Adopt => match cause {
                Cause::Cancel => self.token.cancel(),
                Cause::Abort => for h in self.conn_aborts.lock().unwrap().iter() { h.abort(); },
                _ => {}
            },
        }
    }
    fn teardown(&mut self) {
        for t in &self.tasks { t.abort(); }
        for h in self.conn_aborts.lock().unwrap().iter() { h.abort(); }
    }
}

fn bind_listener(small: bool) -> Result<TcpListener, String> {
    use socket2::{Domain, Socket, Type};
    let s = Socket::new(Domain::IPV4, Type::STREAM, None).map_err(|e| format!("socket:{e}"))?;
    let _ = s.set_reuse_address(true);
    if small { s.set_send_buffer_size(4096).map_err(|e| format!("sndbuf:{e}"))?; }
    let a: std::net::SocketAddr = "127.0.0.1:0".parse().unwrap();
    s.bind(&a.into()).map_err(|e| format!("bind:{e}"))?;
    s.listen(256).map_err(|e| format!("listen:{e}"))?;
    s.set_nonblocking(true).map_err(|e| format!("nonblocking:{e}"))?;
    TcpListener::from_std(s.into()).map_err(|e| format!("from_std:{e}"))
}

/// `gate` = (connections ready to be served, how many to wait for): serving starts for all of them together
async fn burst_gate(gate: &Option<Arc<(AtomicUsize, usize)>>) {
    if let Some(g) = gate {
        // the k-th wave of g.1 connections is released when all of its members have arrived
        let v = g.0.fetch_add(1, SeqCst);
        let target = (v / g.1 + 1) * g.1;
        let t0 = Instant::now();
        while g.0.load(SeqCst) < target && t0.elapsed() < Duration::from_secs(3) { std::hint::spin_loop(); if t0.elapsed() > Duration::from_millis(2) { tokio::task::yield_now().await; } }
    }
}

async fn serve_one(shared: SharedWebSocketServer, stream: TcpStream, adopt: bool, ctx: bool, with_cancel: bool, token: ShutdownToken, gate: Option<Arc<(AtomicUsize, usize)>>) {
    let _ = stream.set_nodelay(true);
    if adopt {
        let Ok((stream, request)) = hand_rolled_upgrade(stream).await else { return };
        let ws = shared.adopt_upgraded(stream).await;
        burst_gate(&gate).await;
        let _ = match (ctx, with_cancel) {
            (false, false) => shared.serve_connection(ws).await,
            (false, true) => shared.serve_connection_with_cancel(ws, &token).await,
            (true, false) => shared.serve_connection_with_handshake(ws, HandshakeContext::from_http_request(&request)).await,
            (true, true) => shared.serve_connection_with_cancel_and_handshake(ws, HandshakeContext::from_http_request(&request), &token).await,
        };
    } else if ctx {
        let Ok((ws, hs)) = shared.accept_with_handshake(stream, "/repe").await else { return };
        burst_gate(&gate).await;
        let _ = if with_cancel { shared.serve_connection_with_cancel_and_handshake(ws, hs, &token).await } else { shared.serve_connection_with_handshake(ws, hs).await };
    } else {
        let Ok(ws) = shared.accept(stream, "/repe").await else { return };
        burst_gate(&gate).await;
        let _ = if with_cancel { shared.serve_connection_with_cancel(ws, &token).await } else { shared.serve_connection(ws).await };
    }
}

fn start_server(c: &Case, w: &Arc<World>) -> Result<ServerCtl, String> {
    let listener = bind_listener(c.phase == Phase::Queue)?;
    let addr = listener.local_addr().map_err(|e| format!("addr:{e}"))?;
    let srv = build_server(c, w);
    let conn_aborts = Arc::new(Mutex::new(vec![]));
    let token = ShutdownToken::new();
    let mut tasks = vec![];
    let mut drain_tx = None;
    let mut addr2 = None;
    if c.two {
        if c.mode != Mode::Listener || !c.reg { return Err("badcase:two".into()); }
        let l2 = bind_listener(false)?;
        addr2 = Some(l2.local_addr().map_err(|e| format!("addr:{e}"))?);
        let srv2 = build_server(c, w);
        tasks.push(tokio::spawn(async move { let _ = srv2.serve_listener(l2, "/repe").await; }));
    }
    match c.mode {
        Mode::Listener => tasks.push(tokio::spawn(async move { let _ = srv.serve_listener(listener, "/repe").await; })),
        Mode::Drain => {
            let (tx, rx) = tokio::sync::oneshot::channel::<()>();
            drain_tx = Some(tx);
            let dt = if c.last_cause() == Cause::Abort { Duration::from_millis(60) } else { Duration::from_secs(5) };
            tasks.push(tokio::spawn(async move { let _ = srv.serve_listener_with_graceful_drain(listener, "/repe", async move { let _ = rx.await; }, dt).await; }));
        }
        Mode::ServeConn | Mode::Adopt => {
            let shared = srv.into_shared();
            let (adopt, ctx) = (c.mode == Mode::Adopt, c.ctx);
            // the plain entry points when the token is never used, so both families are exercised
            let with_cancel = c.stag || c.cause == Cause::Cancel || (c.cause != Cause::Abort && c.conns % 2 == 0);
            let (aborts, token) = (conn_aborts.clone(), token.clone());
            let gate = if c.burst { Some(Arc::new((AtomicUsize::new(0), c.conns as usize))) } else { None };
            tasks.push(tokio::spawn(async move {
                loop {
                    let Ok((stream, _)) = listener.accept().await else { break };
                    let h = tokio::spawn(serve_one(shared.clone(), stream, adopt, ctx, with_cancel, token.clone(), gate.clone()));
                    aborts.lock().unwrap().push(h.abort_handle());
                }
            }));
        }
    }
    Ok(ServerCtl { addr, addr2, mode: c.mode, tasks, conn_aborts, token, drain_tx })
}

// ---------------------------------------------------------------- the raw peer

#[derive(Clone, Debug, PartialEq)]
enum Wf { N(u64, u64), R, O }

fn classify(b: &[u8]) -> Wf {
    if b.len() < 48 { return Wf::O; }
    let ql = le64(&b[24..32]) as usize;
    let bl = le64(&b[32..40]) as usize;
    if 48 + ql + bl != b.len() { return Wf::O; }
    if b[11] == 0 { return Wf::R; }
    let q = &b[48..48 + ql];
    let body = &b[48 + ql..];
    if q.len() > 2 && &q[..2] == b"/h" {
        let i = std::str::from_utf8(&q[2..]).ok().and_then(|s| s.parse::<u64>().ok());
        let v = std::str::from_utf8(body).ok().and_then(|s| s.parse::<u64>().ok());
        if let (Some(i), Some(v)) = (i, v) { return Wf::N(i, v); }
    }
    Wf::O
}

struct Peer { ws: Option<Ws>, wire: Vec<Wf>, got_resp: bool, err: Option<String> }
impl Peer {
    fn record(&mut self, b: &[u8]) -> Wf {
        let f = classify(b);
        if !self.got_resp { self.wire.push(f.clone()); if f == Wf::R { self.got_resp = true; } }
        f
    }
    async fn send(&mut self, m: WsMsg) {
        if let Some(ws) = self.ws.as_mut() {
            match tokio::time::timeout(T_CONN, ws.send(m)).await { Ok(Ok(())) => {} Ok(Err(_)) | Err(_) => {} }
        }
    }
    /// read until a response frame arrives; false when the connection ended or timed out first
    async fn until_response(&mut self, d: Duration) -> bool {
        let until = tokio::time::Instant::now() + d;
        loop {
            let Some(ws) = self.ws.as_mut() else { return false };
            match tokio::time::timeout_at(until, ws.next()).await {
                Err(_) => return false,
                Ok(None) | Ok(Some(Err(_))) | Ok(Some(Ok(WsMsg::Close(_)))) => { self.ws = None; return false; }
                Ok(Some(Ok(WsMsg::Binary(b)))) => { let b: Vec<u8> = b.into(); if self.record(&b) == Wf::R { return true; } }
                Ok(Some(Ok(_))) => {}
            }
        }
    }
    /// read and record until the connection ends or `d` elapses
    async fn drain(&mut self, d: Duration) {
        let until = tokio::time::Instant::now() + d;
        loop {
            let Some(ws) = self.ws.as_mut() else { return };
            match tokio::time::timeout_at(until, ws.next()).await {
                Err(_) => return,
                Ok(None) | Ok(Some(Err(_))) | Ok(Some(Ok(WsMsg::Close(_)))) => { self.ws = None; return; }
                Ok(Some(Ok(WsMsg::Binary(b)))) => { let b: Vec<u8> = b.into(); self.record(&b); }
                Ok(Some(Ok(_))) => {}
            }
        }
    }
}

async fn tcp_connect(addr: std::net::SocketAddr, small: bool) -> Result<TcpStream, String> {
    if !small {
        let s = tokio::time::timeout(T_CONN, TcpStream::connect(addr)).await.map_err(|_| "timeout:tcp-connect".to_string())?.map_err(|e| format!("tcp-connect:{e}"))?;
        let _ = s.set_nodelay(true);
        return Ok(s);
    }
    use socket2::{Domain, Socket, Type};
    let s = Socket::new(Domain::IPV4, Type::STREAM, None).map_err(|e| format!("socket:{e}"))?;
    s.set_recv_buffer_size(4096).map_err(|e| format!("rcvbuf:{e}"))?;
    s.connect(&addr.into()).map_err(|e| format!("tcp-connect:{e}"))?;
    s.set_nonblocking(true).map_err(|e| format!("nonblocking:{e}"))?;
    let s = TcpStream::from_std(s.into()).map_err(|e| format!("from_std:{e}"))?;
    let _ = s.set_nodelay(true);
    Ok(s)
}

async fn do_cause(p: &mut Peer, cause: Cause, inline_phase: bool, stall: bool) {
    match cause {
        Cause::Close => p.send(WsMsg::Close(None)).await,
        Cause::Loss => p.ws = None,
        Cause::Text => p.send(WsMsg::Text("not binary".into())).await,
        Cause::Big => p.send(WsMsg::Binary(vec![0u8; INBOUND_LIMIT + 40_000])).await,
        Cause::Malformed => p.send(WsMsg::Binary(vec![0xAB; 10])).await,
        Cause::HPanic => if !inline_phase { p.send(WsMsg::Binary(frame(0, 200, b"/panic", b"null"))).await },
        Cause::Cancel | Cause::Abort => if stall { tokio::time::sleep(Duration::from_millis(4000)).await; },
    }
    p.drain(Duration::from_secs(4)).await;
}

struct ClientOut { wire: Vec<Wf>, err: Option<String>, answered: Option<bool> }

/// One raw peer.  Barriers: 0 = phase entered, 1 = go (the causes that end all
/// connections, or connection 0 of a staggered case); staggered cases only:
/// 2 = connection 0 has ended and the settle period is over, 3 = the survivors
/// have been probed, 4 = the survivors end.
async fn client(i: usize, c: Arc<Case>, addr: std::net::SocketAddr, bars: Arc<Vec<tokio::sync::Barrier>>) -> ClientOut {
    let mut p = Peer { ws: None, wire: vec![], got_resp: false, err: None };
    match tcp_connect(addr, c.phase == Phase::Queue).await {
        Err(e) => p.err = Some(e),
        Ok(stream) => match tokio::time::timeout(T_CONN, tt::client_async(format!("ws://{addr}/repe?c={i}"), stream)).await {
            Ok(Ok((ws, _))) => p.ws = Some(ws),
            Ok(Err(e)) => p.err = Some(format!("ws-connect:{e}")),
            Err(_) => p.err = Some("timeout:ws-connect".into()),
        },
    }
    let ender = c.stag && i == 0;
    let phase = if ender { Phase::Idle } else { c.phase };
    let alive = !c.panic_reached() && c.phase != Phase::Hooks;
    if alive {
        for id in 1..=c.reqs {
            // the first request tells the server which raw peer this connection belongs to
            let f = if id == 1 { frame(0, id, b"/who", i.to_string().as_bytes()) } else { frame(0, id, b"/k", b"null") };
            p.send(WsMsg::Binary(f)).await;
            if !p.until_response(T_CONN).await && p.err.is_none() { p.err = Some(format!("no-response:{id}")); }
        }
        match phase {
            Phase::Inline => p.send(WsMsg::Binary(frame(0, 100, b"/hold", if c.cause == Cause::HPanic { b"\"p\"" } else { b"null" }))).await,
            Phase::OffR => p.send(WsMsg::Binary(frame(0, 100, b"/park", b"null"))).await,
            Phase::Queue => p.send(WsMsg::Binary(frame(0, 100, b"/flood", b"null"))).await,
            _ => {}
        }
    } else if c.phase != Phase::Hooks {
        // a connect hook panics: the connection dies on its own
        p.drain(Duration::from_millis(1500)).await;
    }
    bars[0].wait().await;
    bars[1].wait().await;
    let mut answered = None;
    if c.stag {
        if ender { do_cause(&mut p, c.cause, false, false).await; }
        bars[2].wait().await;
        if !ender {
            p.send(WsMsg::Binary(frame(0, 300, b"/k", b"null"))).await;
            answered = Some(p.until_response(Duration::from_secs(3)).await);
        }
        bars[3].wait().await;
        bars[4].wait().await;
        if !ender { do_cause(&mut p, c.cause2, false, false).await; }
    } else if alive || c.phase == Phase::Hooks {
        do_cause(&mut p, c.cause, c.phase == Phase::Inline, c.stall).await;
    }
    ClientOut { wire: p.wire, err: p.err, answered }
}

/// a connection opened while the survivors are still up: its connect hooks run and it is served
async fn fresh_connection(c: &Case, w: &Arc<World>, addr: std::net::SocketAddr, ndisc: usize) -> (bool, Option<u64>) {
    let before: Vec<u64> = w.recs.lock().unwrap().keys().cloned().collect();
    let Ok(stream) = tcp_connect(addr, false).await else { return (false, None) };
    let Ok(Ok((ws, _))) = tokio::time::timeout(T_CONN, tt::client_async(format!("ws://{addr}/repe?c=new"), stream)).await else { return (false, None) };
    let mut p = Peer { ws: Some(ws), wire: vec![], got_resp: false, err: None };
    p.send(WsMsg::Binary(frame(0, 1, b"/k", b"null"))).await;
    let answered = p.until_response(Duration::from_secs(3)).await;
    p.send(WsMsg::Close(None)).await;
    p.drain(Duration::from_secs(3)).await;
    // its record: the one that did not exist before (there is always at least one disconnect hook)
    wait_until(T_DISC, || w.recs.lock().unwrap().iter().any(|(k, r)| !before.contains(k) && r.ndisc() >= ndisc)).await;
    let new: Vec<(u64, Arc<Rec>)> = w.recs.lock().unwrap().iter().filter(|(k, _)| !before.contains(k)).map(|(k, r)| (*k, r.clone())).collect();
    let hooks_ok = match new.as_slice() { [(_, r)] => r.nconn() == c.effective().len() && r.ndisc() == ndisc, _ => false };
    (answered && hooks_ok, new.first().map(|(k, _)| *k))
}

async fn bad_client(kind: Hs, addr: std::net::SocketAddr) -> Option<String> {
    match kind {
        Hs::WrongPath => {
            let Ok(stream) = tcp_connect(addr, false).await else { return Some("tcp-connect".into()) };
            match tokio::time::timeout(T_CONN, tt::client_async(format!("ws://{addr}/other"), stream)).await {
                Ok(Ok(_)) => Some("wrongpath-accepted".into()),
                _ => None,
            }
        }
        Hs::Garbage | Hs::NoUpgrade => {
            let Ok(mut s) = tcp_connect(addr, false).await else { return Some("tcp-connect".into()) };
            let bytes: &[u8] = if kind == Hs::Garbage { b"\x00\x01\xfe garbage that is not HTTP\r\n\r\n" } else { b"GET /repe HTTP/1.1\r\nHost: localhost\r\n\r\n" };
            let _ = s.write_all(bytes).await;
            let mut buf = vec![0u8; 4096];
            let _ = tokio::time::timeout(Duration::from_millis(400), async { while let Ok(n) = s.read(&mut buf).await { if n == 0 { break; } } }).await;
            None
        }
        Hs::Ok => None,
    }
}

// -------------------------------------------------------------------- one case

async fn wait_until(d: Duration, f: impl Fn() -> bool) -> bool {
    let t0 = Instant::now();
    loop {
        if f() { return true; }
        if t0.elapsed() > d { return false; }
        tokio::time::sleep(Duration::from_millis(2)).await;
    }
}

fn fmt_trace(evs: &[(u64, Hev)]) -> String {
    if evs.is_empty() { return "-".into(); }
    evs.iter().map(|(_, h)| match h {
        Hev::C(i, p) => format!("C{}:{}", hx(*i as u64), *p as u8),
        Hev::K => "K".to_string(),
        Hev::D(j, p, a) => format!("D{}:{}:{}", hx(*j as u64), *p as u8, hx(*a as u64)),
    }).collect::<Vec<_>>().join(".")
}
fn fmt_wire(w: &[Wf]) -> String {
    if w.is_empty() { return "-".into(); }
    w.iter().map(|f| match f { Wf::N(i, q) => format!("n{}:{}", hx(*i), hx(*q)), Wf::R => "r".into(), Wf::O => "o".into() }).collect::<Vec<_>>().join(".")
}

async fn run_async(c: Case) -> Result<String, String> {
    if c.conns == 0 || c.conns > 64 { return Err("badcase:conns".into()); }
    if c.dpre + c.dpost == 0 { return Err("badcase:no-disconnect-hook".into()); }
    if c.mode == Mode::Listener && c.token_cause() { return Err("badcase:listener-token-cause".into()); }
    if c.hs != Hs::Ok && c.mode == Mode::Adopt { return Err("badcase:adopt-handshake".into()); }
    if c.phase == Phase::Hooks && !c.token_cause() { return Err("badcase:hooks-phase-cause".into()); }
    if c.stag && (c.conns < 2 || c.hs != Hs::Ok || c.panic_reached() || !matches!(c.phase, Phase::Idle | Phase::OffR) || matches!(c.cause, Cause::Cancel | Cause::Abort) || c.reqs == 0) { return Err("badcase:staggered".into()); }
    let new_world = |c: &Case| Arc::new(World {
        seq: AtomicU64::new(0), recs: Mutex::new(HashMap::new()), registry: PeerRegistry::new(), phase_hooks: c.phase == Phase::Hooks, shk: c.shk, tiny_queue: c.oq.is_some(), flood: c.flood,
        trigger: AtomicBool::new(false), release: AtomicBool::new(false), stop: AtomicBool::new(false),
        live: Mutex::new(std::collections::HashSet::new()), dups: AtomicUsize::new(0),
        sleepers: AtomicUsize::new(0), inline_in: AtomicUsize::new(0), parked: AtomicUsize::new(0), flooded: AtomicUsize::new(0),
    });
    let w = new_world(&c);
    let mut ctl = start_server(&c, &w)?;
    if c.early {
        if !(c.phase == Phase::Hooks && c.cause == Cause::Cancel && matches!(c.mode, Mode::ServeConn | Mode::Adopt)) { return Err("badcase:early".into()); }
        ctl.token.cancel();
        w.trigger.store(true, SeqCst);
    }
    let n = c.conns;
    let ndisc = c.dpre + c.dpost;
    let ca = Arc::new(c.clone());
    let mut wires: Vec<Vec<Wf>> = vec![];
    let mut note: Option<String> = None;
    let (mut mids, mut answers): (Vec<String>, Vec<Option<bool>>) = (vec![], vec![]);
    let (mut tok, mut fresh, mut fresh_id): (Option<bool>, Option<bool>, Option<u64>) = (None, None, None);
    let expected_recs: usize;
    if c.hs != Hs::Ok {
        expected_recs = 0; let _ = expected_recs;
        let hs = c.hs;
        let addr = ctl.addr;
        let js: Vec<_> = (0..n).map(|_| tokio::spawn(bad_client(hs, addr))).collect();
        for j in js { match tokio::time::timeout(T_CONN, j).await { Ok(Ok(None)) => {} Ok(Ok(Some(e))) => note = Some(e), _ => note = Some("bad-client".into()) } }
        tokio::time::sleep(Duration::from_millis(250)).await;
        for _ in 0..n { wires.push(vec![]); }
    } else {
        expected_recs = n;
        let bars: Arc<Vec<tokio::sync::Barrier>> = Arc::new((0..5).map(|_| tokio::sync::Barrier::new(n + 1)).collect());
        let js: Vec<_> = (0..n).map(|i| tokio::spawn(client(i, ca.clone(), if i % 2 == 1 { ctl.addr2.unwrap_or(ctl.addr) } else { ctl.addr }, bars.clone()))).collect();
        macro_rules! bar { ($k:expr, $d:expr) => { if tokio::time::timeout(Duration::from_secs($d), bars[$k].wait()).await.is_err() { w.stop.store(true, SeqCst); w.release.store(true, SeqCst); w.trigger.store(true, SeqCst); ctl.teardown(); return Err(format!("timeout:barrier{}", $k)); } } }
        bar!(0, 20);
        let alive = !c.panic_reached() && c.phase != Phase::Hooks;
        let inphase = if c.stag { n - 1 } else { n };
        let ok = match c.phase {
            _ if !alive && c.phase != Phase::Hooks => true,
            Phase::Idle => true,
            Phase::Inline => wait_until(T_PHASE, || w.inline_in.load(SeqCst) >= inphase).await,
            Phase::OffR => wait_until(T_PHASE, || w.parked.load(SeqCst) >= inphase).await,
            Phase::Queue => wait_until(T_PHASE, || w.flooded.load(SeqCst) >= inphase).await,
            Phase::Hooks => if c.sleep_reached() { wait_until(T_PHASE, || w.sleepers.load(SeqCst) >= n).await } else { true },
        };
        if !ok { note = Some(format!("phase-not-reached:{}:{}:{}:{}", w.inline_in.load(SeqCst), w.parked.load(SeqCst), w.flooded.load(SeqCst), w.sleepers.load(SeqCst))); }
        let by_client = |w: &World, i: usize| -> Option<(u64, Arc<Rec>)> { w.recs.lock().unwrap().iter().find(|(_, r)| r.client.load(SeqCst) == i).map(|(k, r)| (*k, r.clone())) };
        if c.stag {
            // connection 0 ends alone; everything else stays as it is
            bar!(1, 10);
            if !wait_until(T_DISC, || by_client(&w, 0).is_some_and(|(_, r)| r.ndisc() >= ndisc)).await { note = Some("first-connection-did-not-end".into()); }
            tokio::time::sleep(Duration::from_millis(300)).await;
            bar!(2, 10);
            bar!(3, 10);
            // the survivors, before anything is done to them
            for i in 1..n {
                mids.push(match by_client(&w, i) {
                    Some((id, r)) => {
                        let seen = if r.parked.load(SeqCst) { if r.seen.load(SeqCst) { "1" } else { "0" } } else { "na" };
                        format!("{}:{}:{}:{}", hx(r.ndisc() as u64), w.registry.get(PeerId(id)).is_some() as u8, hx(w.resolving(id, &r) as u64), seen)
                    }
                    None => "0:0:0:na".to_string(),
                });
            }
            tok = Some(ctl.token.is_cancelled());
            let (ok_new, new_id) = fresh_connection(&c, &w, ctl.addr, ndisc).await;
            fresh = Some(ok_new);
            fresh_id = new_id;
        }
        if c.token_cause() { ctl.fire(c.last_cause()); }
        w.trigger.store(true, SeqCst);
        if c.stag { bar!(4, 10); } else { bar!(1, 10); }
        if c.phase == Phase::Inline { tokio::time::sleep(Duration::from_millis(40)).await; w.release.store(true, SeqCst); }
        // wait (generously) for every disconnect hook of every connection
        let want = expected_recs + fresh_id.is_some() as usize;
        let done = |w: &World| { let g = w.recs.lock().unwrap(); g.len() >= want && g.values().all(|r| r.ndisc() >= ndisc) };
        let in_time = wait_until(T_DISC, || done(&w)).await;
        // a token cause ends the connection whether or not the peer reads: the hooks have run by now
        if c.stall && !in_time && note.is_none() { note = Some("disconnect-hooks-not-run-while-the-peer-is-stalled".into()); }
        // the parked handlers get up to 2 s to observe the cancellation
        wait_until(T_SEEN, || w.recs.lock().unwrap().values().all(|r| !r.parked.load(SeqCst) || r.seen.load(SeqCst))).await;
        // let a second (wrong) invocation show up
        tokio::time::sleep(Duration::from_millis(50)).await;
        w.stop.store(true, SeqCst);
        w.release.store(true, SeqCst);
        for j in js {
            match tokio::time::timeout(Duration::from_secs(8), j).await {
                Ok(Ok(o)) => { wires.push(o.wire); answers.push(o.answered); if let (Some(e), None) = (o.err, &note) { if alive { note = Some(e); } } }
                _ => { wires.push(vec![]); answers.push(None); note = Some("client-join".into()); }
            }
        }
    }
    // observations: a record whose raw peer is known is paired with that peer's frames
    let mut recs: Vec<(u64, Arc<Rec>)> = { let g = w.recs.lock().unwrap(); g.iter().filter(|(k, _)| Some(**k) != fresh_id).map(|(k, r)| (*k, r.clone())).collect() };
    recs.sort_by_key(|(k, r)| (r.client.load(SeqCst), *k));
    let mut used = vec![false; wires.len()];
    let mut paired: Vec<(Option<(u64, Arc<Rec>)>, Option<usize>)> = vec![];
    for (id, r) in &recs {
        let ci = r.client.load(SeqCst);
        let wi = if ci < wires.len() && !used[ci] { Some(ci) } else { None };
        if let Some(i) = wi { used[i] = true; }
        paired.push((Some((*id, r.clone())), wi));
    }
    for pr in paired.iter_mut() { if pr.1.is_none() { if let Some(i) = used.iter().position(|u| !*u) { used[i] = true; pr.1 = Some(i); } } }
    for i in 0..wires.len() { if !used[i] { paired.push((None, Some(i))); } }
    // `burst`: further waves on a second server built alike (nothing of it is part of the observation
    // above): every wave, all connections are served at the same instant; no two LIVE connections may
    // ever carry the same peer id (each has "its" registry entry from connect until disconnect)
    if c.burst && note.is_none() {
        let w2 = new_world(&c);
        let mut ctl2 = start_server(&c, &w2)?;
        let waves = 30usize;
        for _ in 0..waves {
            let js: Vec<_> = (0..n).map(|_| { let addr = ctl2.addr; tokio::spawn(async move {
                let Ok(stream) = tcp_connect(addr, false).await else { return };
                let Ok(Ok((mut ws, _))) = tokio::time::timeout(T_CONN, tt::client_async(format!("ws://{addr}/repe?c=w"), stream)).await else { return };
                let _ = ws.send(WsMsg::Binary(frame(0, 1, b"/k", b"null"))).await;
                let _ = tokio::time::timeout(Duration::from_secs(3), ws.next()).await;
                let _ = ws.send(WsMsg::Close(None)).await;
                let _ = tokio::time::timeout(Duration::from_millis(500), ws.next()).await;
            }) }).collect();
            for j in js { let _ = tokio::time::timeout(Duration::from_secs(8), j).await; }
        }
        wait_until(Duration::from_secs(2), || w2.live.lock().unwrap().is_empty()).await;
        let d = w2.dups.load(SeqCst);
        w2.stop.store(true, SeqCst); w2.release.store(true, SeqCst); w2.trigger.store(true, SeqCst);
        ctl2.teardown();
        if d > 0 { note = Some(format!("peer-id-shared-by-live-connections:{d}")); }
    }
    if w.dups.load(SeqCst) > 0 && note.is_none() { note = Some(format!("peer-id-shared-by-live-connections:{}", w.dups.load(SeqCst))); }
    let mut out = format!("nrec={}", hx(recs.len() as u64));
    for (k, (rec, wi)) in paired.iter().enumerate() {
        let (trace, after, seen) = match rec {
            Some((id, r)) => {
                let mut evs = r.evs.lock().unwrap().clone();
                evs.sort_by_key(|(s, _)| *s);
                let present = w.registry.get(PeerId(*id)).is_some();
                let al = w.lingering(*id, r);
                let seen = if r.parked.load(SeqCst) { if r.seen.load(SeqCst) { "1" } else { "0" } } else { "na" };
                (fmt_trace(&evs), format!("{}:{}", present as u8, hx(al as u64)), seen)
            }
            None => ("-".to_string(), "0:0".to_string(), "na"),
        };
        let wire = wi.map(|i| fmt_wire(&wires[i])).unwrap_or_else(|| "-".into());
        out.push_str(&format!(" c{k}={trace}/{after}/{wire}/{seen}"));
    }
    if c.stag {
        for (k, m) in mids.iter().enumerate() {
            let ans = answers.get(k + 1).cloned().flatten().unwrap_or(false);
            out.push_str(&format!(" m{}={}:{}", k + 1, m, ans as u8));
        }
        out.push_str(&format!(" tok={} new={}", tok.unwrap_or(false) as u8, fresh.unwrap_or(false) as u8));
    }
    out.push_str(&format!(" reglen={}", hx(w.registry.len() as u64)));
    if let Some(e) = note { out.push_str(&format!(" note={}", clean(e))); }
    w.stop.store(true, SeqCst);
    w.release.store(true, SeqCst);
    w.trigger.store(true, SeqCst);
    ctl.teardown();
    Ok(out)
}

fn run_case(line: &str) -> String {
    let Some(c) = parse_case(line) else { return "crash=badcase:parse".into() };
    let r = guard(move || {
        rt().block_on(async { match tokio::time::timeout(T_CASE, run_async(c)).await { Ok(r) => r, Err(_) => Err("timeout:case".into()) } })
    });
    match r { Ok(Ok(obs)) => obs, Ok(Err(e)) => format!("crash={}", clean(e)), Err(()) => "crash=panic".into() }
}

// ------------------------------------------------------------------ generation

fn fmt_hooks(h: &[Hact]) -> String {
    if h.is_empty() { return "-".into(); }
    h.iter().map(|a| match a { Hact::Count => "c".to_string(), Hact::Sleep => "s".into(), Hact::Panic => "p".into(), Hact::Notify(k) => format!("n{}", hx(*k)), Hact::Alias(k) => format!("a{}", hx(*k)) }).collect::<Vec<_>>().join(".")
}

struct Hooks { pre: Vec<Hact>, reg: bool, post: Vec<Hact>, xh: Vec<Hact>, dpre: usize, dpost: usize }

fn gen_hooks(rng: &mut Rng) -> Hooks {
    let reg = rng.chance(3, 4);
    let mut key = 0u64;
    let mut pick = |rng: &mut Rng, alias_ok: bool| -> Hact {
        match rng.below(if alias_ok { 5 } else { 3 }) {
            0 => Hact::Count,
            1 => Hact::Notify(rng.range(1, 5)),
            2 => Hact::Sleep,
            _ => { key += 1; Hact::Alias(key) }
        }
    };
    let pre = (0..rng.below(3)).map(|_| pick(rng, false)).collect();
    let post = (0..rng.below(3)).map(|_| pick(rng, reg)).collect();
    let xh = (0..rng.below(3)).map(|_| pick(rng, reg)).collect();
    let (mut dpre, dpost) = (rng.below(3) as usize, rng.below(3) as usize);
    if dpre + dpost == 0 { dpre = 1; }
    Hooks { pre, reg, post, xh, dpre, dpost }
}

fn case_line(i: usize, mode: &str, hs: &str, ctx: bool, h: &Hooks, cause: &str, phase: &str, reqs: u64, flood: u64, conns: u64) -> String { case_line2(i, mode, hs, ctx, h, cause, phase, reqs, flood, conns, None) }

fn case_line2(i: usize, mode: &str, hs: &str, ctx: bool, h: &Hooks, cause: &str, phase: &str, reqs: u64, flood: u64, conns: u64, cause2: Option<&str>) -> String {
    format!("i={i} mode={mode} hs={hs} ctx={} pre={} reg={} post={} xh={} dpre={} dpost={} cause={cause} phase={phase} reqs={} flood={} conns={} stag={} cause2={}",
        ctx as u8, fmt_hooks(&h.pre), h.reg as u8, fmt_hooks(&h.post), fmt_hooks(&h.xh), hx(h.dpre as u64), hx(h.dpost as u64), hx(reqs), hx(flood), hx(conns), cause2.is_some() as u8, cause2.unwrap_or("-"))
}

fn gen_cases(seed: u64, thorough: bool) -> Vec<String> {
    let mut rng = Rng::new(seed);
    let mut out: Vec<String> = vec![];
    let maxc = if thorough { 32 } else { 4 };
    let rounds = if thorough { 12 } else { 1 };
    let modes = ["l", "d", "s", "a"];
    let phases = ["idle", "inline", "offr", "queue", "hooks"];
    let conns_of = |rng: &mut Rng| -> u64 { if rng.chance(1, 4) { maxc } else if rng.chance(1, 3) { 1 } else { rng.range(1, maxc) } };
    // built-in loops capture the handshake exactly when a handshake-aware hook is registered
    let ctx_of = |rng: &mut Rng, mode: &str, h: &Hooks| -> bool { if mode == "l" || mode == "d" { !h.xh.is_empty() } else { rng.chance(2, 3) } };
    for round in 0..rounds {
        for mode in modes {
            for phase in phases {
                let violation = if (round + out.len()) % 2 == 0 { "text" } else { "big" };
                let causes: Vec<&str> = if thorough { vec!["close", "loss", "text", "big", "malformed", "hpanic", "cancel", "abort"] } else { vec!["close", "loss", violation, "malformed", "hpanic", "cancel", "abort"] };
                for cause in causes {
                    let token = cause == "cancel" || cause == "abort";
                    if mode == "l" && token { continue; }
                    if phase == "hooks" && !token { continue; }
                    let mut h = gen_hooks(&mut rng);
                    let ctx = ctx_of(&mut rng, mode, &h);
                    if phase == "hooks" {
                        // a hook that blocks until the cause has been raised, somewhere it is reached
                        let mut slots = vec![0, 1];
                        if ctx { slots.push(2); }
                        match *rng.pick(&slots) { 0 => { let at = rng.below(h.pre.len() as u64 + 1) as usize; h.pre.insert(at, Hact::Sleep) } 1 => { let at = rng.below(h.post.len() as u64 + 1) as usize; h.post.insert(at, Hact::Sleep) } _ => { let at = rng.below(h.xh.len() as u64 + 1) as usize; h.xh.insert(at, Hact::Sleep) } }
                    }
                    let ctx = if mode == "l" || mode == "d" { !h.xh.is_empty() } else { ctx };
                    let reqs = if phase == "hooks" { 0 } else { rng.range(1, 3) };
                    let flood = if phase == "queue" { rng.range(24, 48) } else { 0 };
                    let conns = if phase == "queue" { conns_of(&mut rng).min(16) } else { conns_of(&mut rng) };
                    out.push(case_line(out.len(), mode, "ok", ctx, &h, cause, phase, reqs, flood, conns));
                }
            }
        }
        // staggered: connection 0 ends alone, its siblings under the same server / trigger must not notice
        for mode in modes {
            for phase in ["idle", "offr"] {
                for cause in ["close", "loss", "hpanic", if round % 2 == 0 { "text" } else { "big" }] {
                    let h = gen_hooks(&mut rng);
                    let ctx = ctx_of(&mut rng, mode, &h);
                    let enders: &[&str] = if mode == "l" { &["close", "loss", "malformed"] } else { &["close", "loss", "cancel", "abort"] };
                    let cause2 = *rng.pick(enders);
                    let k = rng.range(2, 4);
                    out.push(case_line2(out.len(), mode, "ok", ctx, &h, cause, phase, rng.range(1, 2), 0, k, Some(cause2)));
                }
            }
        }
        // a panicking connect hook, at every position class, under every serving path
        for mode in modes {
            for slot in 0..3 {
                for phase in ["idle", "offr"] {
                    if !thorough && phase == "offr" && slot != 1 { continue; }
                    let mut h = gen_hooks(&mut rng);
                    match slot { 0 => { let at = rng.below(h.pre.len() as u64 + 1) as usize; h.pre.insert(at, Hact::Panic) } 1 => { let at = rng.below(h.post.len() as u64 + 1) as usize; h.post.insert(at, Hact::Panic) } _ => { let at = rng.below(h.xh.len() as u64 + 1) as usize; h.xh.insert(at, Hact::Panic) } }
                    let ctx = if mode == "l" || mode == "d" { !h.xh.is_empty() } else { slot == 2 || rng.chance(1, 2) };
                    let cause = *rng.pick(&["close", "loss", "malformed"]);
                    out.push(case_line(out.len(), mode, "ok", ctx, &h, cause, phase, rng.range(1, 2), 0, conns_of(&mut rng)));
                }
            }
        }
        // the shared token fires before the connection is even accepted: hooks still pair up
        for mode in ["s", "a"] {
            for _ in 0..(if thorough { 2 } else { 1 }) {
                let h = gen_hooks(&mut rng);
                let ctx = rng.chance(2, 3);
                out.push(format!("{} early=1", case_line(out.len(), mode, "ok", ctx, &h, "cancel", "hooks", 0, 0, conns_of(&mut rng))));
            }
        }
        // queue phase with a tiny outbound queue and a peer that keeps not reading: the reader is parked
        // handing a response to the full queue when the token cause arrives; the connection still ends
        for mode in ["d", "s", "a"] {
            for cause in ["cancel", "abort"] {
                if !thorough && mode == "d" && cause == "abort" { continue; }
                let mut h = gen_hooks(&mut rng);
                // no sleeping hooks; no notifying hooks either (a queue of 1..3 would legitimately refuse their pushes)
                let keep = |x: &Hact| *x != Hact::Sleep && !matches!(x, Hact::Notify(_));
                h.pre.retain(keep); h.post.retain(keep); h.xh.retain(keep);
                let ctx = ctx_of(&mut rng, mode, &h);
                out.push(format!("{} oq={} stall=1", case_line(out.len(), mode, "ok", ctx, &h, cause, "queue", rng.range(1, 2), rng.range(24, 48), rng.range(1, 3)), hx(rng.range(1, 3))));
            }
        }
        // bursts: 16 connections are accepted and upgraded first and then served at the same instant
        // (their peer ids are minted concurrently); each has its own registry entry from connect to disconnect
        for k in 0..(if thorough { 12 } else { 6 }) {
            let mode = if k % 2 == 0 { "s" } else { "a" };
            let h = Hooks { pre: vec![Hact::Count], reg: true, post: vec![Hact::Alias(1)], xh: vec![], dpre: 1, dpost: 1 };
            out.push(format!("{} burst=1", case_line(out.len(), mode, "ok", k % 3 == 0, &h, if k % 2 == 0 { "close" } else { "loss" }, "idle", 1, 0, 16)));
        }
        // two servers built alike share one peer registry (the ids they hand out must not collide,
        // whatever the order in which hooks and registry were attached)
        for k in 0..(if thorough { 6 } else { 3 }) {
            let mut h = gen_hooks(&mut rng);
            h.reg = true; h.xh.clear();
            if k % 3 != 2 && h.pre.is_empty() { h.pre.push(Hact::Count); }
            h.pre.retain(|x| *x != Hact::Panic && *x != Hact::Sleep); h.post.retain(|x| *x != Hact::Panic && *x != Hact::Sleep);
            let cause = *rng.pick(&["close", "loss"]);
            out.push(format!("{} two=1", case_line(out.len(), "l", "ok", false, &h, cause, "idle", rng.range(1, 2), 0, rng.range(2, 4))));
        }
        // failed handshakes: nothing may run
        for mode in ["l", "d", "s"] {
            for hs in ["garbage", "wrongpath", "noupgrade"] {
                let h = gen_hooks(&mut rng);
                let ctx = if mode == "s" { rng.chance(1, 2) } else { !h.xh.is_empty() };
                out.push(case_line(out.len(), mode, hs, ctx, &h, "close", "idle", 1, 0, conns_of(&mut rng)));
            }
        }
    }
    // in half of the registry cases with an alias action, a shared key moves between the peers
    let mut r2 = Rng::new(seed ^ 0x5eed_a11a5);
    for l in out.iter_mut() {
        if l.contains(" reg=1 ") && !l.contains("two=1") && r2.chance(1, 2) { l.push_str(" shk=1"); }
    }
    // directed: several own aliases per peer and a shared key that the later connections take over
    for (mode, cause, conns) in [("l", "close", 3u64), ("s", "loss", 2), ("a", "close", 4)] {
        let h = Hooks { pre: vec![Hact::Count], reg: true, post: vec![Hact::Alias(1), Hact::Alias(2)], xh: if mode == "l" { vec![] } else { vec![Hact::Alias(3)] }, dpre: 1, dpost: 1 };
        out.push(format!("{} shk=1", case_line(out.len(), mode, "ok", mode != "l", &h, cause, "idle", 1, 0, conns)));
    }
    out
}

fn main() {
    let cases = if no_gen() { vec![] } else { gen_cases(seed(), is_thorough()) };
    isolated_main(cases, run_case, Duration::from_secs(60));
}
