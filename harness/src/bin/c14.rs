//! C14 correspondence: operation sequences on a real `Registry`, directly and
//! through a `Router::with_registry` mount, and concurrent request histories.
//!
//! JSON values are written as: `n` `t` `f` `i<hex>` `s<hex|->` `[v,v]` `{<hexkey|->:v,..}`
//! (object members in the order the map iterates them).
use repe::{ErrorCode, Message, QueryFormat, Registry, RegistryError, Router};
use repe_verif_harness::*;
use serde_json::{Map, Value};
use std::cell::RefCell;
use std::sync::atomic::{AtomicU64, AtomicUsize, Ordering};
use std::sync::{Arc, Barrier, Mutex};
use std::time::{Duration, Instant};

// ---------- value <-> text ----------
fn enc(v: &Value, out: &mut String) {
    match v {
        Value::Null => out.push('n'),
        Value::Bool(true) => out.push('t'),
        Value::Bool(false) => out.push('f'),
        Value::Number(n) => { out.push('i'); out.push_str(&format!("{:x}", n.as_u64().expect("u64 number"))); }
        Value::String(s) => { out.push('s'); out.push_str(&hex(s.as_bytes())); }
        Value::Array(a) => {
            out.push('[');
            for (i, x) in a.iter().enumerate() { if i > 0 { out.push(','); } enc(x, out); }
            out.push(']');
        }
        Value::Object(m) => {
            out.push('{');
            for (i, (k, x)) in m.iter().enumerate() {
                if i > 0 { out.push(','); }
                out.push_str(&hex(k.as_bytes())); out.push(':'); enc(x, out);
            }
            out.push('}');
        }
    }
}
fn enc_s(v: &Value) -> String { let mut s = String::new(); enc(v, &mut s); s }

fn hexrun(b: &[u8], i: &mut usize) -> String {
    let st = *i;
    while *i < b.len() && (b[*i].is_ascii_hexdigit() && !b[*i].is_ascii_uppercase() || b[*i] == b'-') { *i += 1; }
    String::from_utf8(b[st..*i].to_vec()).unwrap()
}
fn dec(b: &[u8], i: &mut usize) -> Value {
    let c = b[*i]; *i += 1;
    match c {
        b'n' => Value::Null,
        b't' => Value::Bool(true),
        b'f' => Value::Bool(false),
        b'i' => Value::from(u64::from_str_radix(&hexrun(b, i), 16).unwrap()),
        b's' => Value::String(String::from_utf8(unhex(&hexrun(b, i))).unwrap()),
        b'[' => {
            let mut a = Vec::new();
            if b[*i] == b']' { *i += 1; return Value::Array(a); }
            loop { a.push(dec(b, i)); let d = b[*i]; *i += 1; if d == b']' { break; } assert_eq!(d, b','); }
            Value::Array(a)
        }
        b'{' => {
            let mut m = Map::new();
            if b[*i] == b'}' { *i += 1; return Value::Object(m); }
            loop {
                let k = String::from_utf8(unhex(&hexrun(b, i))).unwrap();
                assert_eq!(b[*i], b':'); *i += 1;
                let v = dec(b, i);
                m.insert(k, v);
                let d = b[*i]; *i += 1; if d == b'}' { break; } assert_eq!(d, b',');
            }
            Value::Object(m)
        }
        _ => panic!("bad value text"),
    }
}
fn dec_s(s: &str) -> Value { let mut i = 0; let v = dec(s.as_bytes(), &mut i); assert_eq!(i, s.len()); v }
fn text(h: &str) -> String { String::from_utf8(unhex(h)).unwrap() }

// ---------- running operations ----------
type Log = Arc<Mutex<Vec<(u64, Value)>>>;

fn variant(e: &RegistryError) -> &'static str {
    match e {
        RegistryError::InvalidPointer { .. } => "ip",
        RegistryError::PathNotFound { .. } => "nf",
        RegistryError::InvalidArrayIndex { .. } => "ii",
        RegistryError::ArrayIndexOutOfBounds { .. } => "oob",
        RegistryError::RootWriteRequiresObject => "rno",
        RegistryError::UnsupportedBodyFormat { .. } | RegistryError::InvalidUtf8(_) | RegistryError::Json(_) | RegistryError::Beve(_) => "bb",
        RegistryError::Execution { .. } => "ex",
    }
}
fn unit_out(r: Result<(), RegistryError>) -> (String, String) {
    match r { Ok(()) => ("u".into(), "-".into()), Err(e) => (format!("e{:x}", e.code() as u32), variant(&e).into()) }
}
fn val_out(r: Result<Value, RegistryError>) -> (String, String) {
    match r { Ok(v) => (format!("k{}", enc_s(&v)), "-".into()), Err(e) => (format!("e{:x}", e.code() as u32), variant(&e).into()) }
}
// ---------- callables that re-enter their registry (harness-only: HOW the crate is driven) ----------
// In a `nest=1` case an operation that invokes a callable has the NEXT operation of its own
// list executed from inside that callable, on the registry the callable is registered in.
// The registry sees the same operations in the same order as without nesting (a call's only
// access to the registry state, the table lookup, is over when the callable runs), so the
// case is judged as the ordinary sequence / history.
struct NestReq { reg: Arc<Registry>, router: Router, log: Log, op: String, clock: Option<Arc<AtomicU64>>, dwell_us: u64 }
struct NestDone { mid_root: String, mid_log: String, entered: u64, s: u64, e: u64, out: (String, String, String), log: String }
thread_local! {
    /// calls made on this thread since the slot was last taken (a callable runs on the dispatching thread)
    static OPLOG: RefCell<Vec<(u64, Value)>> = const { RefCell::new(Vec::new()) };
    static NEST: RefCell<Option<NestReq>> = const { RefCell::new(None) };
    static NESTED: RefCell<Option<NestDone>> = const { RefCell::new(None) };
}
fn take_oplog() -> String { let l = OPLOG.with(|l| std::mem::take(&mut *l.borrow_mut())); log_text(&l) }

fn nested(req: NestReq) {
    let tick = |c: &Option<Arc<AtomicU64>>| c.as_ref().map(|c| c.fetch_add(1, Ordering::SeqCst)).unwrap_or(0);
    let entered = tick(&req.clock);
    // sequential cases: the document and the call log as they are when the callable has been entered
    // (a read of the registry from inside its callable)
    let (mid_root, mid_log) = if req.clock.is_none() {
        let r = root_text(&req.reg);
        let mut l = req.log.lock().unwrap(); let t = log_text(&l); l.clear(); (r, t)
    } else { (String::new(), take_oplog()) };
    if req.dwell_us > 0 { let t0 = Instant::now(); while t0.elapsed() < Duration::from_micros(req.dwell_us) { std::hint::spin_loop(); } }
    let s = tick(&req.clock);
    let out = run_op(&req.reg, &req.router, &req.log, &req.op);
    let e = tick(&req.clock);
    let log = if req.clock.is_none() { log_text(&req.log.lock().unwrap()) } else { take_oplog() };
    NESTED.with(|n| *n.borrow_mut() = Some(NestDone { mid_root, mid_log, entered, s, e, out, log }));
}

fn register_fun(reg: &Registry, path: &str, fid: u64, log: &Log) -> Result<(), RegistryError> {
    let log = Arc::clone(log);
    reg.register_function(path, move |params: Option<Value>| {
        let arg = params.unwrap_or(Value::String("<no body>".into()));
        log.lock().unwrap().push((fid, arg.clone()));
        OPLOG.with(|l| l.borrow_mut().push((fid, arg.clone())));
        if let Some(req) = NEST.with(|n| n.borrow_mut().take()) { nested(req); }
        if fid % 4 == 3 { Err((ErrorCode::ApplicationErrorBase, "failing callable".to_string())) }
        else { Ok(Value::Array(vec![Value::from(fid), arg])) }
    })
}

/// one operation; returns (out, variant, extra)
fn run_op(reg: &Arc<Registry>, router: &Router, log: &Log, op: &str) -> (String, String, String) {
    let t: Vec<&str> = op.split('|').collect();
    let mut extra = "-".to_string();
    let (o, v) = match t[0] {
        "V" => unit_out(reg.register_value(&text(t[1]), dec_s(t[2]))),
        "F" => unit_out(register_fun(reg, &text(t[1]), u64::from_str_radix(t[2], 16).unwrap(), log)),
        "S" => { reg.set_root(dec_s(t[1])); ("u".into(), "-".into()) }
        "M" => { let Value::Object(m) = dec_s(t[1]) else { panic!("merge needs object") }; unit_out(reg.merge_root(m)) }
        "A" => { let Value::Object(m) = dec_s(t[2]) else { panic!("merge needs object") }; unit_out(reg.merge_at(&text(t[1]), m)) }
        "R" => {
            let p = text(t[1]);
            // the public pointer evaluation of json_pointer.rs on the same document
            if let Ok(root) = reg.read_value("") {
                extra = match repe::eval_json_pointer(&root, &p) { Some(x) => format!("k{}", enc_s(x)), None => "z".into() };
                let toks = repe::parse_json_pointer(&p);
                extra.push('~');
                extra.push_str(&if toks.is_empty() { "_".to_string() } else { toks.iter().map(|s| hex(s.as_bytes())).collect::<Vec<_>>().join(".") });
            }
            val_out(reg.read_value(&p))
        }
        "D" => { let body = if t[2] == "_" { None } else { Some(dec_s(t[2])) }; val_out(reg.dispatch(&text(t[1]), body)) }
        "T" => {
            let path = text(t[1]);
            let b = Message::builder().id(1).query_str(&path).query_format(QueryFormat::JsonPointer);
            let msg = match t[2].as_bytes()[0] {
                b'_' => b.build(),
                b'j' => b.body_json(&dec_s(&t[2][1..])).expect("json body").build(),
                b'u' => b.body_utf8(&text(&t[2][1..])).build(),
                b'r' => b.body_bytes(unhex(&t[2][1..])).body_format(repe::BodyFormat::RawBinary).build(),
                b'x' => b.body_bytes(vec![1u8, 2, 3]).body_format_code(0x7777).build(),
                _ => panic!("bad body"),
            };
            match router.get(&path) {
                None => ("z".into(), "-".into()),
                Some(h) => match h.handle(&msg) {
                    Err(e) => (format!("X{}", hex(format!("{e:?}").as_bytes())), "-".into()),
                    Ok(resp) => {
                        if resp.header.ec == 0 {
                            match resp.json_body::<Value>() { Ok(v) => (format!("k{}", enc_s(&v)), "-".into()), Err(_) => ("Xbadjson".into(), "-".into()) }
                        } else { (format!("e{:x}", resp.header.ec), "-".into()) }
                    }
                },
            }
        }
        _ => panic!("bad op"),
    };
    (o, v, extra)
}

fn log_text(l: &[(u64, Value)]) -> String {
    if l.is_empty() { "-".into() } else { l.iter().map(|(f, v)| format!("{:x}^{}", f, enc_s(v))).collect::<Vec<_>>().join("+") }
}
fn root_text(reg: &Registry) -> String { match reg.read_value("") { Ok(v) => enc_s(&v), Err(_) => "X".into() } }

fn run_seq(f: &std::collections::HashMap<String, String>) -> String {
    let reg = Arc::new(Registry::new());
    let router = match f["pre"].as_str() { "none" => Router::new(), p => Router::new().with_registry(&text(p), Arc::clone(&reg)) };
    let log: Log = Arc::new(Mutex::new(Vec::new()));
    let nest = f.get("nest").map(|s| s == "1").unwrap_or(false);
    let mut steps = Vec::new();
    if f["ops"] != "-" {
        let ops: Vec<&str> = f["ops"].split(';').collect();
        let mut i = 0;
        while i < ops.len() {
            log.lock().unwrap().clear();
            if nest && i + 1 < ops.len() {
                NEST.with(|n| *n.borrow_mut() = Some(NestReq { reg: Arc::clone(&reg), router: router.clone(), log: Arc::clone(&log), op: ops[i + 1].to_string(), clock: None, dwell_us: 0 }));
            }
            let (o, v, x) = run_op(&reg, &router, &log, ops[i]);
            NEST.with(|n| n.borrow_mut().take());
            if let Some(d) = NESTED.with(|n| n.borrow_mut().take()) {
                // ops[i] invoked a callable, which ran ops[i+1]
                steps.push(format!("{}/{}/{}/{}/{}", o, d.mid_root, d.mid_log, v, x));
                let (no, nv, nx) = d.out;
                steps.push(format!("{}/{}/{}/{}/{}", no, root_text(&reg), d.log, nv, nx));
                i += 2;
            } else {
                let l = log_text(&log.lock().unwrap());
                steps.push(format!("{}/{}/{}/{}/{}", o, root_text(&reg), l, v, x));
                i += 1;
            }
        }
    }
    format!("steps={}", if steps.is_empty() { "-".into() } else { steps.join(";") })
}

fn run_conc(f: &std::collections::HashMap<String, String>) -> String {
    let reg = Arc::new(Registry::new());
    let router = Router::new();
    let log: Log = Arc::new(Mutex::new(Vec::new()));
    if f["setup"] != "-" { for op in f["setup"].split(';') { let _ = run_op(&reg, &router, &log, op); } }
    log.lock().unwrap().clear();
    let init = root_text(&reg);
    let threads: Vec<Vec<String>> = f["th"].split('!').map(|t| if t == "-" { vec![] } else { t.split(';').map(|s| s.to_string()).collect() }).collect();
    let clock = Arc::new(AtomicU64::new(1));
    let barrier = Arc::new(Barrier::new(threads.len()));
    let mut handles = Vec::new();
    for ops in threads {
        let (reg, log, clock, barrier) = (Arc::clone(&reg), Arc::clone(&log), Arc::clone(&clock), Arc::clone(&barrier));
        handles.push(std::thread::spawn(move || {
            let router = Router::new();
            let mut res = Vec::new();
            barrier.wait();
            for op in &ops {
                let s = clock.fetch_add(1, Ordering::SeqCst);
                let (o, _, _) = run_op(&reg, &router, &log, op);
                let e = clock.fetch_add(1, Ordering::SeqCst);
                res.push(format!("{:x}.{:x}.{}", s, e, o));
            }
            res
        }));
    }
    let mut per = Vec::new();
    for h in handles {
        match h.join() { Ok(r) => per.push(if r.is_empty() { "-".to_string() } else { r.join(";") }), Err(_) => return "crash=panic".into() }
    }
    format!("init={} res={} root={} log={}", init, per.join("!"), root_text(&reg), log_text(&log.lock().unwrap()))
}

/// Concurrent histories, `rounds` of them per case, each on a fresh registry: the threads are
/// started once and released together at a spinning gate before every round (tight overlap);
/// a mount (`pre`) is ONE `Router` shared by all threads; per operation the calls made by it
/// are recorded (`s.e.out.log`); rounds are separated by `@`.
fn run_conc_rounds(f: &std::collections::HashMap<String, String>) -> String {
    struct St { reg: Arc<Registry>, router: Router, log: Log, clock: Arc<AtomicU64> }
    let rounds: usize = usize::from_str_radix(&f["rounds"], 16).unwrap();
    let nest = f.get("nest").map(|s| s == "1").unwrap_or(false);
    let dwell_us = f.get("dwell").map(|s| u64::from_str_radix(s, 16).unwrap()).unwrap_or(0);
    let states: Arc<Vec<St>> = Arc::new((0..rounds).map(|_| {
        let reg = Arc::new(Registry::new());
        let router = match f.get("pre").map(|s| s.as_str()) { None | Some("none") => Router::new(), Some(p) => Router::new().with_registry(&text(p), Arc::clone(&reg)) };
        let log: Log = Arc::new(Mutex::new(Vec::new()));
        if f["setup"] != "-" { for op in f["setup"].split(';') { let _ = run_op(&reg, &router, &log, op); } }
        log.lock().unwrap().clear();
        St { reg, router, log, clock: Arc::new(AtomicU64::new(1)) }
    }).collect());
    let init = root_text(&states[0].reg);
    let threads: Vec<Vec<String>> = f["th"].split('!').map(|t| if t == "-" { vec![] } else { t.split(';').map(|s| s.to_string()).collect() }).collect();
    let nth = threads.len();
    let arrived = Arc::new(AtomicUsize::new(0));
    let mut handles = Vec::new();
    for ops in threads {
        let (states, arrived) = (Arc::clone(&states), Arc::clone(&arrived));
        handles.push(std::thread::spawn(move || {
            let mut all = Vec::new();
            for (r, st) in states.iter().enumerate() {
                arrived.fetch_add(1, Ordering::SeqCst);
                let mut spins = 0u32;
                while arrived.load(Ordering::SeqCst) < (r + 1) * nth { spins += 1; if spins % 2000 == 0 { std::thread::yield_now(); } else { std::hint::spin_loop(); } }
                let mut res = Vec::new();
                let mut j = 0;
                while j < ops.len() {
                    let _ = take_oplog();
                    if nest && j + 1 < ops.len() {
                        NEST.with(|n| *n.borrow_mut() = Some(NestReq { reg: Arc::clone(&st.reg), router: st.router.clone(), log: Arc::clone(&st.log), op: ops[j + 1].clone(), clock: Some(Arc::clone(&st.clock)), dwell_us }));
                    }
                    let s = st.clock.fetch_add(1, Ordering::SeqCst);
                    let (o, _, _) = run_op(&st.reg, &st.router, &st.log, &ops[j]);
                    let e = st.clock.fetch_add(1, Ordering::SeqCst);
                    NEST.with(|n| n.borrow_mut().take());
                    let lg = take_oplog();
                    if let Some(d) = NESTED.with(|n| n.borrow_mut().take()) {
                        // the call's access to the registry (the table lookup) was over when the callable was entered
                        res.push(format!("{:x}.{:x}.{}.{}", s, d.entered, o, d.mid_log));
                        res.push(format!("{:x}.{:x}.{}.{}", d.s, d.e, d.out.0, d.log));
                        j += 2;
                    } else {
                        res.push(format!("{:x}.{:x}.{}.{}", s, e, o, lg));
                        j += 1;
                    }
                }
                all.push(if res.is_empty() { "-".to_string() } else { res.join(";") });
            }
            all
        }));
    }
    let mut per: Vec<Vec<String>> = Vec::new();
    for h in handles { match h.join() { Ok(r) => per.push(r), Err(_) => return "crash=panic".into() } }
    let res: Vec<String> = (0..rounds).map(|r| per.iter().map(|t| t[r].clone()).collect::<Vec<_>>().join("!")).collect();
    let roots: Vec<String> = states.iter().map(|st| root_text(&st.reg)).collect();
    let logs: Vec<String> = states.iter().map(|st| log_text(&st.log.lock().unwrap())).collect();
    // `log=-` when no callable ran in any round
    let logs = if logs.iter().all(|l| l == "-") { "-".to_string() } else { logs.join("@") };
    format!("init={} res={} root={} log={}", init, res.join("@"), roots.join("@"), logs)
}

/// "a call must return": cases whose callables re-enter the registry run under a watchdog;
/// the operations take microseconds, the limit is seconds.
const NEST_LIMIT: Duration = Duration::from_secs(6);

fn run_case(line: &str) -> String {
    let f = fields(line);
    let watchdog = f.get("nest").map(|s| s == "1").unwrap_or(false);
    let work = move || {
        let r = guard(move || if f["k"] == "conc" { if f.contains_key("rounds") { run_conc_rounds(&f) } else { run_conc(&f) } } else { run_seq(&f) });
        r.unwrap_or_else(|_| "crash=panic".into())
    };
    if !watchdog { return work(); }
    let (tx, rx) = std::sync::mpsc::channel();
    std::thread::spawn(move || { let _ = tx.send(work()); });
    // a thread that never returns stays parked on the lock it waits for (its registry is private to the case)
    rx.recv_timeout(NEST_LIMIT).unwrap_or_else(|_| "crash=hang".into())
}

// ---------- generation ----------
const TOKENS: &[&str] = &["a", "b", "c", "", "~", "/", "a/b", "m~n", "~0", "~1", "0", "1", "2", "01", "+1", "00", "+", "-0", "+0",
    "18446744073709551615", "18446744073709551616", "000000000000000000001", "\u{e9}", "x y", "\"q\"", "path", "status",
    // escapes and multi-byte characters in one token (the escape-handling path must keep the UTF-8 intact)
    "caf\u{e9}/au~lait", "\u{e9}~", "~\u{4e2d}/\u{1f600}", "/\u{e9}"];
const PLAIN: &[&str] = &["a", "b", "c", "0", "1", "01", "+1", "2"];

fn esc(t: &str) -> String { t.replace('~', "~0").replace('/', "~1") }
fn ptr_of(toks: &[&str]) -> String { toks.iter().map(|t| format!("/{}", esc(t))).collect() }
fn hs(s: &str) -> String { hex(s.as_bytes()) }

fn gen_value(rng: &mut Rng, depth: u32) -> Value {
    let k = if depth == 0 { rng.below(5) } else { rng.below(8) };
    match k {
        0 => Value::Null,
        1 => Value::Bool(rng.chance(1, 2)),
        2 | 3 => Value::from(match rng.below(4) { 0 => rng.below(10), 1 => u64::MAX, 2 => rng.next(), _ => rng.below(1000) }),
        4 => Value::String(rng.pick(TOKENS).to_string()),
        5 => Value::Array((0..rng.below(4)).map(|_| gen_value(rng, depth - 1)).collect()),
        _ => Value::Object(gen_map(rng, depth - 1)),
    }
}
fn gen_map(rng: &mut Rng, depth: u32) -> Map<String, Value> {
    let mut m = Map::new();
    for _ in 0..rng.below(4) { let k = if rng.chance(2, 3) { rng.pick(PLAIN) } else { rng.pick(TOKENS) }; m.insert(k.to_string(), gen_value(rng, depth)); }
    m
}
fn gen_ptr(rng: &mut Rng) -> String {
    match rng.below(40) {
        0 => return String::new(),
        1 => return "/".into(),
        2 => return "//".into(),
        3 => return format!("{}~", ptr_of(&[rng.pick(PLAIN)])),                 // trailing '~'
        4 => return format!("/{}~2{}", rng.pick(PLAIN), rng.pick(PLAIN)),       // bad escape
        5 => return format!("{}/{}", rng.pick(PLAIN), rng.pick(PLAIN)),         // no leading '/'
        6 => return format!("/{}~", rng.pick(PLAIN)),
        7 => return "~".into(),
        _ => {}
    }
    let hi = if rng.chance(1, 8) { 6 } else { 3 };
    let n = rng.range(1, hi);
    let toks: Vec<&str> = (0..n).map(|_| if rng.chance(3, 4) { *rng.pick(PLAIN) } else { *rng.pick(TOKENS) }).collect();
    let mut p = ptr_of(&toks);
    if rng.chance(1, 30) { p.push('/'); }
    p
}
fn gen_body(rng: &mut Rng) -> String {
    match rng.below(12) {
        0 => "_".into(),
        1 => format!("u{}", hs(rng.pick(TOKENS))),
        2 => { let k = rng.below(4) as usize; format!("r{}", hex(&rng.bytes(k))) }
        3 => "x".into(),
        _ => format!("j{}", enc_s(&gen_value(rng, 2))),
    }
}
fn gen_op(rng: &mut Rng, pool: &[String], mount: Option<&str>) -> String {
    let p = if rng.chance(9, 10) { rng.pick(pool).clone() } else { gen_ptr(rng) };
    // registration paths may omit the leading '/'
    let rp = if rng.chance(1, 10) && p.starts_with('/') { p[1..].to_string() } else { p.clone() };
    match rng.below(if mount.is_some() { 24 } else { 18 }) {
        0 | 1 => format!("V|{}|{}", hs(&rp), enc_s(&gen_value(rng, 2))),
        2 => format!("F|{}|{:x}", hs(&rp), rng.below(8)),
        3 => if rng.chance(1, 3) { format!("S|{}", enc_s(&gen_value(rng, 2))) } else { format!("V|{}|{}", hs(&rp), enc_s(&Value::Object(gen_map(rng, 1)))) },
        4 => format!("M|{}", enc_s(&Value::Object(gen_map(rng, 1)))),
        5 => format!("A|{}|{}", hs(&rp), enc_s(&Value::Object(gen_map(rng, 1)))),
        6 | 7 => format!("R|{}", hs(&p)),
        8 | 9 | 10 | 11 => format!("D|{}|_", hs(&p)),
        12 | 13 | 14 | 15 | 16 | 17 => format!("D|{}|{}", hs(&p), enc_s(&gen_value(rng, 2))),
        _ => {
            let pre = mount.unwrap();
            let norm = { let mut s = if pre.is_empty() || pre == "/" { String::new() } else if pre.starts_with('/') { pre.to_string() } else { format!("/{pre}") }; if s.len() > 1 { s = s.trim_end_matches('/').to_string(); } s };
            let path = match rng.below(12) {
                0 => p.clone(),                              // not below the prefix (unless the prefix is empty)
                1 => norm.clone(),                           // exactly the prefix
                2 => format!("{norm}x{p}"),                  // prefix is only a string prefix of the first token
                3 => format!("{norm}/"),
                4 => format!("{pre}{p}"),                    // the prefix as given, not normalised
                _ => format!("{norm}{p}"),
            };
            format!("T|{}|{}", hs(&path), gen_body(rng))
        }
    }
}

fn gen_cases(seed: u64, thorough: bool) -> Vec<String> {
    let mut cases: Vec<String> = Vec::new();
    let mut rng = Rng::new(seed);

    // (1) exhaustive small scope: 3 pointers x 3 values, every sequence up to the depth
    let ptrs = ["/a", "/a/b", "/a/1"];
    let vals = [Value::from(5u64), serde_json::json!({"b": 6}), serde_json::json!([7, 8])];
    let mut alpha: Vec<String> = Vec::new();
    for p in ptrs {
        for v in &vals { alpha.push(format!("D|{}|{}", hs(p), enc_s(v))); }
        alpha.push(format!("D|{}|_", hs(p)));
        alpha.push(format!("F|{}|2", hs(p)));
        alpha.push(format!("V|{}|{}", hs(p), enc_s(&vals[1])));
    }
    let depth = if thorough { 5 } else { 4 };
    let n = alpha.len();
    for d in 1..=depth {
        for idx in 0..n.pow(d as u32) {
            let mut k = idx; let mut ops = Vec::with_capacity(d);
            for _ in 0..d { ops.push(alpha[k % n].as_str()); k /= n; }
            cases.push(format!("k=seq pre=none ops={}", ops.join(";")));
        }
    }
    // the same scope through a mount, one level shallower
    let malpha: Vec<String> = {
        let mut a = Vec::new();
        for p in ptrs {
            for v in &vals { a.push(format!("T|{}|j{}", hs(&format!("/api{p}")), enc_s(v))); }
            a.push(format!("T|{}|_", hs(&format!("/api{p}"))));
            a.push(format!("F|{}|2", hs(p)));
            a.push(format!("V|{}|{}", hs(p), enc_s(&vals[1])));
        }
        a
    };
    for d in 1..depth {
        for idx in 0..n.pow(d as u32) {
            let mut k = idx; let mut ops = Vec::with_capacity(d);
            for _ in 0..d { ops.push(malpha[k % n].as_str()); k /= n; }
            cases.push(format!("k=seq pre={} ops={}", hs("api/"), ops.join(";")));
        }
    }

    // (2) directed: every malformed pointer with every kind of operation
    let bad = ["a", "a/b", "~", "/~", "/a~", "/a~2", "/a~2b", "/~~", "/a/~3/b", "/ok/b~", "x~0", "/a~01~", "\u{e9}"];
    let good = ["", "/", "//", "/a~0", "/a~1b", "/~0~1", "/~01", "/a/", "/a//b", "/+1", "/01"];
    for p in bad.iter().chain(good.iter()) {
        let h = hs(p); let h = h.as_str();
        let v = enc_s(&serde_json::json!({"k": [1, 2]}));
        let setup = format!("V|{}|{}", hs("/a"), enc_s(&serde_json::json!({"b": [1, 2, 3], "": 4, "~": 5, "/": 6})));
        cases.push(format!("k=seq pre=- ops={setup};R|{h};D|{h}|_;D|{h}|{v};D|{h}|i7;V|{h}|{v};R|{h};F|{h}|1;D|{h}|_;D|{h}|i9;A|{h}|{v};T|{h}|_;T|{h}|ji3"));
        cases.push(format!("k=seq pre={} ops={setup};T|{}|_;T|{}|ji3;T|{}|x;T|{}|u-;T|{}|u{}", hs("/m"), hs(&format!("/m{p}")), hs(&format!("/m{p}")), hs(&format!("/m{p}")), hs(&format!("/m{p}")), hs(&format!("/m{p}")), hs("txt")));
    }
    // array indices: aliases and out-of-range
    for idx in ["0", "1", "01", "+1", "001", "+01", "2", "3", "+", "-0", "-1", "", "1 ", " 1", "1a", "18446744073709551615", "18446744073709551616", "99999999999999999999999", "+00000000000000000000000002", "\u{661}"] {
        let p = hs(&format!("/arr/{}", esc(idx)));
        let pn = hs(&format!("/arr/{}/x", esc(idx)));
        cases.push(format!("k=seq pre=none ops=V|{}|{};R|{p};D|{p}|_;D|{p}|i63;D|{}|_;D|{pn}|i5;D|{pn}|_;A|{p}|{};R|{}",
            hs("/arr"), enc_s(&serde_json::json!([10, {"x": 1}, [0]])), hs("/arr"), enc_s(&serde_json::json!({"y": 2})), hs("/arr")));
    }
    // mount prefixes
    for pre in ["", "/", "api", "/api", "/api/", "/api//", "//", "/a~1b", "/api/v1/", "api/v1"] {
        for path in ["", "/", "/api", "/api/", "/api/a", "/apix/a", "/api/v1", "/api/v1/a", "/api/v1a", "api/a", "/a", "/a~1b/a", "//a", "/api//a"] {
            cases.push(format!("k=seq pre={} ops=V|{}|i1;F|{}|0;T|{}|_;T|{}|ji2;T|{}|_", hs(pre), hs("/a"), hs("/f"), hs(path), hs(path), hs(path)));
        }
    }

    // (3) random sequences
    let nrand = if thorough { 30000 } else { 3000 };
    for i in 0..nrand {
        let mount: Option<String> = if i % 3 == 2 { Some(rng.pick(&["", "/", "api", "/api", "/api/", "/a~1b", "/x/y", "//"]).to_string()) } else { None };
        let npool = rng.range(2, 8);
        let mut pool: Vec<String> = (0..npool).map(|_| gen_ptr(&mut rng)).collect();
        // children and parents of pool members, so that writes find their parents
        for j in 0..pool.len() { if rng.chance(1, 2) { let c = format!("{}/{}", pool[j].trim_end_matches('/'), esc(rng.pick(PLAIN))); pool.push(c); } }
        let len = rng.range(1, 100);
        let ops: Vec<String> = (0..len).map(|_| gen_op(&mut rng, &pool, mount.as_deref())).collect();
        cases.push(format!("k=seq pre={} ops={}", match &mount { None => "none".to_string(), Some(m) => hs(m) }, ops.join(";")));
    }

    // (4) concurrent histories: up to 4 threads x 4 requests on a fixed function table
    let nconc = if thorough { 6000 } else { 600 };
    for _ in 0..nconc {
        let setup = format!("V|{}|{};V|{}|{};F|{}|0;F|{}|3;V|{}|i0",
            hs("/a"), enc_s(&serde_json::json!({"b": 1, "c": {"d": 2}})), hs("/arr"), enc_s(&serde_json::json!([1, 2, 3])), hs("/f"), hs("/a/g"), hs("/n"));
        let cptrs = ["/a", "/a/b", "/a/c", "/a/c/d", "/arr", "/arr/1", "/arr/01", "/arr/5", "/n", "/f", "/a/g", "", "/zz/y", "/a~"];
        let nth = rng.range(2, 4);
        let mut ths = Vec::new();
        for _ in 0..nth {
            let nops = rng.range(1, 4);
            let ops: Vec<String> = (0..nops).map(|_| {
                let p = *rng.pick(&cptrs);
                match rng.below(10) {
                    0 | 1 | 2 => format!("D|{}|_", hs(p)),
                    3 => format!("R|{}", hs(p)),
                    4 => format!("D|{}|{}", hs(""), enc_s(&serde_json::json!({"n": rng.below(3), "k": rng.below(3)}))),
                    5 => format!("D|{}|{}", hs(p), enc_s(&serde_json::json!({"d": rng.below(3)}))),
                    6 => format!("D|{}|{}", hs(p), enc_s(&serde_json::json!([rng.below(3)]))),
                    _ => format!("D|{}|i{:x}", hs(p), rng.below(4)),
                }
            }).collect();
            ths.push(ops.join(";"));
        }
        cases.push(format!("k=conc setup={} th={}", setup, ths.join("!")));
    }

    // (5) callables that re-enter the registry they are registered in (nest=1): after a call, the next
    // operation of the list runs inside the callable -- a read, a write, a registration, a merge,
    // another call, directly or through the mount.  The sequence is judged as the ordinary sequence;
    // a call that does not return is observed by the watchdog.
    {
        let j = |v: Value| enc_s(&v);
        let base = format!("V|{}|{};V|{}|i0;F|{}|0;F|{}|1;F|{}|3", hs("/a"), j(serde_json::json!({"b": 1, "c": {"d": 2}})), hs("/n"), hs("/f"), hs("/a/g"), hs("/e"));
        let outers = [format!("D|{}|i1", hs("/f")), format!("T|{}|ji1", hs("/api/f")), format!("D|{}|i1", hs("/e"))];
        let inners = [
            format!("D|{}|i5", hs("/n")), format!("D|{}|_", hs("/n")), format!("R|{}", hs("/a")), format!("V|{}|i6", hs("/n")),
            format!("A|{}|{}", hs("/a"), j(serde_json::json!({"k": 1}))), format!("M|{}", j(serde_json::json!({"z": [1]}))),
            format!("F|{}|5", hs("/f")), format!("F|{}|6", hs("/n/h")), format!("D|{}|i2", hs("/a/g")), format!("S|{}", j(serde_json::json!({"n": 9}))),
            format!("T|{}|ji7", hs("/api/n")), format!("T|{}|_", hs("/api/a/c")), format!("D|{}|{}", hs(""), j(serde_json::json!({"n": 4}))), format!("D|{}|_", hs("/f")),
        ];
        for (oi, o) in outers.iter().enumerate() {
            for (ii, inner) in inners.iter().enumerate() {
                if oi == 1 && ![0, 1, 4, 10, 11].contains(&ii) || oi == 2 && ![0, 1, 6].contains(&ii) { continue; }
                cases.push(format!("k=seq pre={} nest=1 ops={base};{o};{inner};D|{}|_;{o};D|{}|i8;D|{}|_", hs("/api"), hs("/n"), hs("/n"), hs("/n")));
            }
        }
        let nnest = if thorough { 100 } else { 8 };
        for _ in 0..nnest {
            let ptrs = ["/a", "/a/b", "/a/c", "/a/c/d", "/n", "/f", "/a/g", "/e", "", "/zz"];
            let len = rng.range(2, 12);
            let ops: Vec<String> = (0..len).map(|_| {
                let p = *rng.pick(&ptrs);
                match rng.below(14) {
                    0 | 1 | 2 => format!("D|{}|i{:x}", hs(rng.pick(&["/f", "/a/g", "/e"])), rng.below(9)),
                    3 | 4 => format!("T|{}|ji{:x}", hs(&format!("/api{}", rng.pick(&["/f", "/a/g", "/n"]))), rng.below(9)),
                    5 | 6 => format!("D|{}|{}", hs(p), j(gen_value(&mut rng, 1))),
                    7 => format!("D|{}|_", hs(p)),
                    8 => format!("R|{}", hs(p)),
                    9 => format!("V|{}|{}", hs(p), j(gen_value(&mut rng, 1))),
                    10 => format!("F|{}|{:x}", hs(rng.pick(&["/f", "/a/g", "/n", "/a/c"])), rng.below(8)),
                    11 => format!("A|{}|{}", hs(p), j(Value::Object(gen_map(&mut rng, 1)))),
                    12 => format!("M|{}", j(Value::Object(gen_map(&mut rng, 1)))),
                    _ => format!("T|{}|_", hs(&format!("/api{p}"))),
                }
            }).collect();
            cases.push(format!("k=seq pre={} nest=1 ops={base};{}", hs("/api"), ops.join(";")));
        }
    }

    // (6) merges racing writes to sibling keys: merge_at into an object with many keys (so that
    // whatever merge_at does with the object takes long) while other threads write and read back
    // keys below the same object; every round must have a sequential order.
    {
        let nkeys = 400u64;
        let mut big = Map::new();
        for i in 0..nkeys { big.insert(format!("k{i:03}"), Value::from(i)); }
        big.insert("sub".into(), serde_json::json!({"x": 0, "y": 0}));
        let setup = format!("V|{}|{};V|{}|i0;F|{}|0", hs("/cfg"), enc_s(&Value::Object(big)), hs("/n"), hs("/f"));
        let nmrg = if thorough { 200 } else { 32 };
        for c in 0..nmrg {
            let nth = rng.range(2, 4);
            let nmerge = if nth == 2 { 1 } else { rng.range(1, 2) };
            let mut ths = Vec::new();
            for t in 0..nth {
                let nops = rng.range(2, 4);
                let mut ops: Vec<String> = Vec::new();
                if t < nmerge {
                    for q in 0..nops {
                        let mut m = Map::new();
                        m.insert(if rng.chance(1, 2) { "tick".to_string() } else { format!("t{t}") }, Value::from(c * 16 + q));
                        if rng.chance(1, 3) { m.insert(format!("k{:03}", rng.below(nkeys)), Value::from(1000 + q)); }
                        let target = if rng.chance(1, 6) { "/cfg/sub" } else { "/cfg" };
                        ops.push(format!("A|{}|{}", hs(target), enc_s(&Value::Object(m))));
                    }
                } else {
                    while (ops.len() as u64) < nops {
                        let key = if rng.chance(1, 5) { format!("/cfg/sub/{}", rng.pick(&["x", "y", "z"])) } else { format!("/cfg/k{:03}", rng.below(nkeys)) };
                        ops.push(format!("D|{}|i{:x}", hs(&key), 2000 + rng.below(1000)));
                        if (ops.len() as u64) < nops && rng.chance(3, 4) { ops.push(if rng.chance(1, 2) { format!("D|{}|_", hs(&key)) } else { format!("R|{}", hs(&key)) }); }
                    }
                }
                ths.push(ops.join(";"));
            }
            cases.push(format!("k=conc rounds={:x} setup={} th={}", if thorough { 12 } else { 8 }, setup, ths.join("!")));
        }
    }

    // (7) re-registration of a callable racing calls through ONE Router::with_registry mount: the set
    // of callable pointers is fixed by the setup, only the callable behind a pointer changes; a call
    // that starts after register_function returned must run the new callable (real-time order).
    {
        let setup = format!("V|{}|i0;F|{}|0;F|{}|1", hs("/n"), hs("/f"), hs("/h"));
        let nreg = if thorough { 240 } else { 48 };
        for _ in 0..nreg {
            let nth = rng.range(3, 4);
            let nregs = rng.range(1, 2);
            let mut fid = 4u64;
            let mut arg = 0u64;
            let mut ths = Vec::new();
            for t in 0..nth {
                let nops = if t < nregs { 4 } else { rng.range(3, 4) };
                let ops: Vec<String> = (0..nops).map(|q| {
                    arg += 1;
                    if t < nregs && (q % 2 == 0 || rng.chance(1, 4)) {
                        fid += 4;
                        format!("F|{}|{:x}", hs(if rng.chance(1, 8) { "/h" } else { "/f" }), fid + rng.below(3))
                    } else {
                        match rng.below(16) {
                            0 => format!("D|{}|i{:x}", hs("/f"), arg),
                            1 => format!("T|{}|ji{:x}", hs("/api/h"), arg),
                            2 => format!("T|{}|_", hs("/api/n")),
                            3 => format!("T|{}|ji{:x}", hs("/api/n"), arg),
                            _ => format!("T|{}|ji{:x}", hs("/api/f"), arg),
                        }
                    }
                }).collect();
                ths.push(ops.join(";"));
            }
            cases.push(format!("k=conc rounds={:x} pre={} setup={} th={}", if thorough { 400 } else { 250 }, hs("/api"), setup, ths.join("!")));
        }
    }

    // (8) concurrent histories whose callables re-enter the registry (nest=1): a call whose callable
    // stays a while (dwell, microseconds) and then reads or writes the registry, while other threads
    // write; every call must return and the history must have a sequential order.
    {
        let setup = format!("V|{}|{};V|{}|i0;F|{}|0;F|{}|1", hs("/a"), enc_s(&serde_json::json!({"b": 1})), hs("/n"), hs("/f"), hs("/a/g"));
        let nn = if thorough { 40 } else { 8 };
        for c in 0..nn {
            let nth = rng.range(2, 4);
            let mut ths = Vec::new();
            for t in 0..nth {
                let mut ops: Vec<String> = Vec::new();
                if t == 0 || rng.chance(1, 4) {
                    for _ in 0..2 {
                        ops.push(format!("D|{}|i{:x}", hs(rng.pick(&["/f", "/a/g"])), rng.below(8)));
                        ops.push(match (c + t) % 3 { 0 => format!("D|{}|_", hs("/n")), 1 => format!("R|{}", hs("/a")), _ => format!("D|{}|i{:x}", hs("/a/b"), 10 + rng.below(5)) });
                    }
                } else {
                    for _ in 0..rng.range(2, 4) {
                        ops.push(match rng.below(4) { 0 => format!("D|{}|_", hs("/n")), 1 => format!("D|{}|i{:x}", hs("/a/b"), 20 + rng.below(5)), _ => format!("D|{}|i{:x}", hs("/n"), 30 + rng.below(5)) });
                    }
                }
                ths.push(ops.join(";"));
            }
            cases.push(format!("k=conc rounds={:x} nest=1 dwell={:x} setup={} th={}", 16, rng.pick(&[0u64, 20, 60]), setup, ths.join("!")));
        }
    }
    cases.into_iter().enumerate().map(|(i, c)| format!("i={i:x} {c}")).collect()
}

fn main() {
    let cases = if no_gen() { vec![] } else { gen_cases(seed(), is_thorough()) };
    isolated_main(cases, run_case, Duration::from_secs(20));
}
