//! C19 correspondence: one fleet call against a scripted node (one behaviour per
//! attempt, switched synchronously by the `fleet.attempt` probe), then calls
//! against the healthy node; and tag-filtered broadcasts.
//! `mon=<n>` (async): the same scenario while n monitor tasks poll
//! `is_connected` / `connected_nodes` from other runtime threads.
//! `duo=1`: two concurrent callers on one node sharing its cached connection;
//! caller A is never answered, caller B (sent later) is answered in time.
//! `cut=<spec>` (async): before the ordinary scenario on a node that is healthy throughout,
//! one call on the cold node is abandoned: its future is polled up to a cut point (before /
//! during / after the TCP connect, while waiting for the reply) and then dropped.
//! `hc=1`: caller B's request is in flight on the node's cached connection while a fleet health
//! check of an endpoint the node does not have fails; the node answers B afterwards, in time.
//! `tags=.. slow=<i> satt=<n> sdelay=<ms>`: a broadcast whose node i stays silent on every one of
//! its n attempts, with a retry delay of that many milliseconds between them.
//! `tog=<rounds>` (async): broadcasts for tag "a" while another task keeps re-registering node
//! "x" with tags [a] (server A) / tags [b] (server B).
use repe::{AsyncFleet, Fleet, FleetOptions, NodeConfig, RepeError, RetryPolicy};
use repe_verif_harness::*;
use std::cell::{Cell, RefCell};
use std::collections::VecDeque;
use std::io::{Read, Write};
use std::net::{Shutdown, TcpListener, TcpStream};
use std::sync::atomic::{AtomicBool, AtomicU64, Ordering};
use std::sync::{Arc, Mutex};
use std::time::{Duration, Instant};

#[derive(Clone, Copy, PartialEq, Debug)]
enum B { Refused, AccClosed, ClosedIdle, Silent, Malformed, AppError, Success,
         /// harness-only: a success frame (ec 0, JSON) whose body stops mid-document; the model sees an application-level error reply
         BadJson }
fn parse_b(c: char) -> B { match c { 'R' => B::Refused, 'A' => B::AccClosed, 'I' => B::ClosedIdle, 'S' => B::Silent, 'M' => B::Malformed, 'E' => B::AppError, 'J' => B::BadJson, _ => B::Success } }

/// `duo=1` cases: two callers (A: "/hang", never answered; B: "/slow", answered once A has given its
/// attempt up) on one node. One case at a time per process, so the state is process-wide.
struct Duo {
    a_att: AtomicU64, b_att: AtomicU64,
    /// A has given up its first attempt: it starts a second attempt (probe) or has returned
    a_gone: AtomicBool,
    hang: AtomicU64, slow: AtomicU64,
    /// just before caller B enters its fleet call (B's deadline is at least DUO_T later)
    b_start: Mutex<Option<Instant>>,
    /// 1: the node wrote its reply to B's first request while B's deadline was still DUO_MARGIN away; 2: it could not
    ready: AtomicU64,
    /// (`hc=1`) the node keeps reading a connection while its reply to "/slow" is pending
    serve_on: bool,
}
static DUO: Mutex<Option<Arc<Duo>>> = Mutex::new(None);
thread_local! { static ROLE: Cell<u8> = const { Cell::new(0) }; }
const DUO_T: Duration = Duration::from_millis(1500);
const DUO_MARGIN: Duration = Duration::from_millis(450);

fn ok_frame(id: u64, query: &[u8], body: &[u8]) -> Vec<u8> { reply_frame(id, query, 0, 2, body) }
fn reply_frame(id: u64, query: &[u8], ec: u32, fmt: u16, body: &[u8]) -> Vec<u8> {
    let mut f = Vec::new();
    f.extend_from_slice(&((48 + query.len() + body.len()) as u64).to_le_bytes());
    f.extend_from_slice(&0x1507u16.to_le_bytes()); f.push(1); f.push(0); f.extend_from_slice(&0u32.to_le_bytes());
    f.extend_from_slice(&id.to_le_bytes());
    f.extend_from_slice(&(query.len() as u64).to_le_bytes()); f.extend_from_slice(&(body.len() as u64).to_le_bytes());
    f.extend_from_slice(&1u16.to_le_bytes()); f.extend_from_slice(&fmt.to_le_bytes()); f.extend_from_slice(&ec.to_le_bytes());
    f.extend_from_slice(query); f.extend_from_slice(body);
    f
}

/// A scripted node on a fixed loopback port.
struct Node {
    port: u16,
    mode: Mutex<B>,
    want_up: AtomicBool,
    is_up: AtomicBool,
    conns: Mutex<Vec<TcpStream>>,
    requests: AtomicU64,
    stop: AtomicBool,
    /// while set the node accepts nothing (a node that is slow to accept: see `start_busy`)
    hold: AtomicBool,
}

impl Node {
    fn start() -> Arc<Node> { Node::start_on(TcpListener::bind("127.0.0.1:0").unwrap(), false) }
    /// A node that is up but slow to accept: its accept queue (backlog 0) is filled with idle
    /// connections and nothing is accepted until `release`, so a further connection attempt stays
    /// in the TCP handshake (its SYN is not answered). Returns the filler connections and whether a
    /// connection attempt was really seen pending.
    fn start_busy() -> (Arc<Node>, Vec<TcpStream>, bool) {
        let sock = socket2::Socket::new(socket2::Domain::IPV4, socket2::Type::STREAM, None).unwrap();
        sock.bind(&std::net::SocketAddr::from(([127, 0, 0, 1], 0)).into()).unwrap();
        sock.listen(0).unwrap();
        let node = Node::start_on(sock.into(), true);
        let addr = std::net::SocketAddr::from(([127, 0, 0, 1], node.port));
        let (mut fill, mut full) = (Vec::new(), false);
        for _ in 0..8 {
            match TcpStream::connect_timeout(&addr, Duration::from_millis(150)) { Ok(s) => fill.push(s), Err(_) => { full = true; break; } }
        }
        (node, fill, full)
    }
    /// the busy node catches up: it accepts what is queued (waited for) and from now on accepts at once
    fn release(&self, fill: Vec<TcpStream>) {
        self.hold.store(false, Ordering::SeqCst);
        let t0 = Instant::now();
        while self.conns.lock().unwrap().len() < fill.len() && t0.elapsed() < Duration::from_secs(3) { std::thread::sleep(Duration::from_micros(200)); }
        drop(fill);
    }
    fn start_on(l: TcpListener, hold: bool) -> Arc<Node> {
        let port = l.local_addr().unwrap().port();
        let node = Arc::new(Node { port, mode: Mutex::new(B::Success), want_up: AtomicBool::new(true), is_up: AtomicBool::new(true), conns: Mutex::new(vec![]), requests: AtomicU64::new(0), stop: AtomicBool::new(false), hold: AtomicBool::new(hold) });
        let n = node.clone();
        std::thread::spawn(move || {
            let mut listener = Some(l);
            loop {
                if n.stop.load(Ordering::SeqCst) { return; }
                if n.hold.load(Ordering::SeqCst) { std::thread::sleep(Duration::from_micros(200)); continue; }
                let want = n.want_up.load(Ordering::SeqCst);
                if !want {
                    if listener.is_some() { listener = None; }
                    n.is_up.store(false, Ordering::SeqCst);
                    std::thread::sleep(Duration::from_micros(200));
                    continue;
                }
                if listener.is_none() {
                    match TcpListener::bind(("127.0.0.1", n.port)) { Ok(l) => listener = Some(l), Err(_) => { std::thread::sleep(Duration::from_millis(1)); continue; } }
                }
                let l = listener.as_ref().unwrap();
                l.set_nonblocking(true).unwrap();
                n.is_up.store(true, Ordering::SeqCst);
                match l.accept() {
                    Ok((s, _)) => {
                        s.set_nonblocking(false).unwrap();
                        s.set_nodelay(true).ok();
                        n.conns.lock().unwrap().push(s.try_clone().unwrap());
                        let nn = n.clone();
                        std::thread::spawn(move || nn.serve(s));
                    }
                    Err(_) => std::thread::sleep(Duration::from_micros(200)),
                }
            }
        });
        node
    }
    fn serve(&self, mut s: TcpStream) {
        loop {
            let req = match net::read_raw_frame(&mut s) { Ok(f) => f, Err(_) => return };
            self.requests.fetch_add(1, Ordering::SeqCst);
            let id = u64::from_le_bytes(req[16..24].try_into().unwrap());
            let ql = u64::from_le_bytes(req[24..32].try_into().unwrap()) as usize;
            let query = &req[48..48 + ql];
            let duo = DUO.lock().unwrap().clone();
            if let Some(d) = duo {
                if query == b"/hang" { d.hang.fetch_add(1, Ordering::SeqCst); continue; }
                // (`hc=1`) an endpoint the node does not have: answered at once with MethodNotFound (6)
                if query == b"/nohealth" { if s.write_all(&reply_frame(id, query, 6, 3, b"no such endpoint")).is_err() { return; } continue; }
                if query == b"/slow" {
                    // answer B once A has given its attempt up (capped), on the connection the request came on
                    let n = d.slow.fetch_add(1, Ordering::SeqCst) + 1;
                    let query = query.to_vec();
                    let reply = move |d: &Duo, mut s: &TcpStream| {
                        let t0 = Instant::now();
                        while !d.a_gone.load(Ordering::SeqCst) && t0.elapsed() < 4 * DUO_T { std::thread::sleep(Duration::from_millis(1)); }
                        let gone = d.a_gone.load(Ordering::SeqCst);
                        let w = s.write_all(&ok_frame(id, &query, b"{\"ok\":true}"));
                        if n == 1 {
                            let in_time = d.b_start.lock().unwrap().map(|b| b.elapsed() + DUO_MARGIN <= DUO_T).unwrap_or(false);
                            d.ready.store(if gone && in_time { 1 } else { 2 }, Ordering::SeqCst);
                        }
                        w
                    };
                    // (`hc=1`) the node goes on reading this connection (the health probe arrives on it) while B's reply is pending
                    if d.serve_on {
                        match s.try_clone() { Ok(s2) => { std::thread::spawn(move || { let _ = reply(&d, &s2); }); } Err(_) => return }
                        continue;
                    }
                    if reply(&d, &s).is_err() { return; }
                    continue;
                }
            }
            let mode = *self.mode.lock().unwrap();
            match mode {
                B::AccClosed | B::Refused => { let _ = s.shutdown(Shutdown::Both); return; }
                B::Silent => { /* never answer; keep reading until the client goes away */ }
                B::Malformed => { let mut g = vec![0u8; 48]; g[8] = 0xAD; g[9] = 0xDE; let _ = s.write_all(&g); }
                B::AppError | B::Success | B::ClosedIdle | B::BadJson => {
                    let (ec, fmt, body): (u32, u16, Vec<u8>) = if mode == B::BadJson { (0, 2, if self.requests.load(Ordering::SeqCst) % 2 == 0 { b"{\"ok\":tr".to_vec() } else { vec![] }) } else if mode == B::AppError { ([4096u32, 7, 8, 9, 6][(self.requests.load(Ordering::SeqCst) % 5) as usize], 3, b"application says no".to_vec()) } else { (0, 2, b"{\"ok\":true}".to_vec()) };
                    let mut f = Vec::new();
                    f.extend_from_slice(&((48 + query.len() + body.len()) as u64).to_le_bytes());
                    f.extend_from_slice(&0x1507u16.to_le_bytes()); f.push(1); f.push(0); f.extend_from_slice(&0u32.to_le_bytes());
                    f.extend_from_slice(&id.to_le_bytes());
                    f.extend_from_slice(&(query.len() as u64).to_le_bytes()); f.extend_from_slice(&(body.len() as u64).to_le_bytes());
                    f.extend_from_slice(&1u16.to_le_bytes()); f.extend_from_slice(&fmt.to_le_bytes()); f.extend_from_slice(&ec.to_le_bytes());
                    f.extend_from_slice(query); f.extend_from_slice(&body);
                    if s.write_all(&f).is_err() { return; }
                }
            }
        }
    }
    fn close_conns(&self) -> bool {
        let mut c = self.conns.lock().unwrap();
        let mut any = false;
        for s in c.drain(..) {
            // a connection is "open" if the peer has not closed it yet
            let mut b = [0u8; 1];
            s.set_nonblocking(true).ok();
            let alive = match (&s).peek(&mut b) { Ok(0) => false, Ok(_) => true, Err(e) => e.kind() == std::io::ErrorKind::WouldBlock };
            any |= alive;
            let _ = s.shutdown(Shutdown::Both);
        }
        any
    }
    fn set_listener(&self, up: bool) {
        self.want_up.store(up, Ordering::SeqCst);
        let t0 = Instant::now();
        while self.is_up.load(Ordering::SeqCst) != up && t0.elapsed() < Duration::from_secs(5) { std::thread::sleep(Duration::from_micros(100)); }
    }
    /// configure the node for the next attempt (called from the probe, on the calling thread)
    fn prepare(&self, b: B) {
        *self.mode.lock().unwrap() = b;
        match b {
            B::Refused => { self.set_listener(false); if self.close_conns() { std::thread::sleep(Duration::from_millis(25)); } }
            B::ClosedIdle => { self.set_listener(true); if self.close_conns() { std::thread::sleep(Duration::from_millis(25)); } }
            _ => self.set_listener(true),
        }
    }
}

struct Scenario { node: Arc<Node>, script: VecDeque<B>, attempts: u64 }
thread_local! { static CUR: RefCell<Option<Scenario>> = const { RefCell::new(None) }; }

fn on_probe(point: &'static str) {
    if point != "fleet.attempt" { return; }
    let role = ROLE.with(|r| r.get());
    if role != 0 {
        if let Some(d) = DUO.lock().unwrap().clone() {
            if role == 1 { if d.a_att.fetch_add(1, Ordering::SeqCst) + 1 >= 2 { d.a_gone.store(true, Ordering::SeqCst); } }
            else { d.b_att.fetch_add(1, Ordering::SeqCst); }
        }
        return;
    }
    CUR.with(|c| {
        if let Some(sc) = c.borrow_mut().as_mut() {
            sc.attempts += 1;
            let b = sc.script.pop_front().unwrap_or(B::Success);
            sc.node.prepare(b);
        }
    });
}

fn kind_s(e: &RepeError) -> String {
    use std::io::ErrorKind as K;
    match e {
        RepeError::Io(io) => match io.kind() { K::ConnectionRefused => "refused", K::ConnectionReset => "reset", K::ConnectionAborted => "aborted", K::NotConnected => "notconn", K::UnexpectedEof => "eof", K::TimedOut => "timedout", K::BrokenPipe => "brokenpipe", K::WouldBlock => "wouldblock", K::Interrupted => "interrupted", k => return format!("io-{k:?}") }.to_string(),
        RepeError::InvalidSpec(_) => "invalidspec".into(),
        RepeError::ServerError { .. } => "servererror".into(),
        // a success frame whose JSON body does not parse is a reply (the node answered): same class
        RepeError::Json(_) => "servererror".into(),
        other => format!("other-{}", format!("{other:?}").split(|c: char| !c.is_alphanumeric()).next().unwrap_or("x")),
    }
}

const TIMEOUT: Duration = Duration::from_millis(250);

fn run_scenario(kind: &str, max: usize, script: &str, nfollow: usize, mon: usize) -> String {
    let node = Node::start();
    let cfg = NodeConfig::new("127.0.0.1", node.port).unwrap().with_name("n0").unwrap().with_timeout(TIMEOUT).unwrap();
    // the back-off delay is 0 for every other script (the attempt bound does not depend on it)
    let opts = FleetOptions { default_timeout: TIMEOUT, retry_policy: RetryPolicy { max_attempts: max, delay: if script.len() % 2 == 0 { Duration::ZERO } else { Duration::from_millis(1) } } };
    let sc = Scenario { node: node.clone(), script: script.chars().map(parse_b).collect(), attempts: 0 };
    CUR.with(|c| *c.borrow_mut() = Some(sc));
    let take_attempts = || CUR.with(|c| { let mut b = c.borrow_mut(); let s = b.as_mut().unwrap(); let a = s.attempts; s.attempts = 0; a });
    let mut out = String::new();
    // a result carries a value or an error, never both (`failed()` looks at the error)
    let res_s = |v: bool, e: Option<&RepeError>| if v { if e.is_some() { "value+error".to_string() } else { "value".to_string() } } else { e.map(kind_s).unwrap_or_else(|| "noerror".into()) };
    if kind == "blocking" {
        let fleet = Fleet::with_options(vec![cfg], opts).unwrap();
        let r = fleet.call_json("n0", "/x", Some(&serde_json::json!(1))).unwrap();
        out.push_str(&format!("att={:x} res={} conn={}", take_attempts(), res_s(r.value.is_some(), r.error.as_ref()), fleet.is_connected("n0").unwrap() as u8));
        let mut fl = Vec::new();
        for i in 0..nfollow {
            let r = if i % 2 == 0 { let r = fleet.call_message("n0", "/y").unwrap(); (r.value.is_some(), r.error) } else { let r = fleet.call_json("n0", "/x", None).unwrap(); (r.value.is_some(), r.error) };
            fl.push(format!("{:x}:{}", take_attempts(), res_s(r.0, r.1.as_ref())));
        }
        out.push_str(&format!(" follow={}", if fl.is_empty() { "-".into() } else { fl.join(",") }));
    } else {
        // a current-thread runtime keeps the probe on this thread; with monitors (mon > 0) the runtime has
        // worker threads for them, and the calls below still run on this thread (`block_on`)
        let rt = if mon == 0 { tokio::runtime::Builder::new_current_thread().enable_all().build().unwrap() }
                 else { tokio::runtime::Builder::new_multi_thread().worker_threads(mon + 1).enable_all().build().unwrap() };
        rt.block_on(async {
            let fleet = AsyncFleet::with_options(vec![cfg], opts).unwrap();
            // observers only: they look at the node while the scenario runs and change nothing
            let stop = Arc::new(AtomicBool::new(false));
            let monitors: Vec<_> = (0..mon).map(|k| {
                let (fleet, stop) = (fleet.clone(), stop.clone());
                tokio::spawn(async move {
                    let mut spins = 0u64;
                    while !stop.load(Ordering::Relaxed) {
                        if k % 3 == 2 { let _ = fleet.connected_nodes().await; } else { let _ = fleet.is_connected("n0").await; }
                        spins += 1;
                        if spins % 64 == 0 { tokio::task::yield_now().await; }
                    }
                })
            }).collect();
            let r = fleet.call_json("n0", "/x", Some(&serde_json::json!(1))).await.unwrap();
            out.push_str(&format!("att={:x} res={} conn={}", take_attempts(), res_s(r.value.is_some(), r.error.as_ref()), fleet.is_connected("n0").await.unwrap() as u8));
            let mut fl = Vec::new();
            for i in 0..nfollow {
                let r = if i % 2 == 0 { let r = fleet.call_message("n0", "/y").await.unwrap(); (r.value.is_some(), r.error) } else { let r = fleet.call_json("n0", "/x", None).await.unwrap(); (r.value.is_some(), r.error) };
                fl.push(format!("{:x}:{}", take_attempts(), res_s(r.0, r.1.as_ref())));
            }
            out.push_str(&format!(" follow={}", if fl.is_empty() { "-".into() } else { fl.join(",") }));
            stop.store(true, Ordering::Relaxed);
            for m in monitors { let _ = m.await; }
        });
    }
    CUR.with(|c| *c.borrow_mut() = None);
    node.stop.store(true, Ordering::SeqCst);
    node.close_conns();
    out
}

/// polls a future with the caller role set, so that the `fleet.attempt` probe knows whose attempt starts
struct WithRole<F> { role: u8, fut: std::pin::Pin<Box<F>> }
impl<F: std::future::Future> std::future::Future for WithRole<F> {
    type Output = F::Output;
    fn poll(mut self: std::pin::Pin<&mut Self>, cx: &mut std::task::Context<'_>) -> std::task::Poll<F::Output> {
        let role = self.role;
        ROLE.with(|r| r.set(role));
        let p = self.fut.as_mut().poll(cx);
        ROLE.with(|r| r.set(0));
        p
    }
}

/// Two concurrent callers on one node (timeout DUO_T), sharing its cached connection: A's request is
/// read and never answered (every attempt of A times out); B's request, sent half a timeout after the
/// node has A's, is answered as soon as A has given its first attempt up, i.e. well inside B's own
/// deadline. Reported: B's attempts/result, how often the node saw B's request, A's attempts/result,
/// whether the node really answered B in time (ready=1), and two calls afterwards.
fn run_duo(kind: &str, max: usize, api: &str) -> String {
    let node = Node::start();
    let d = Arc::new(Duo { a_att: AtomicU64::new(0), b_att: AtomicU64::new(0), a_gone: AtomicBool::new(false), hang: AtomicU64::new(0), slow: AtomicU64::new(0), b_start: Mutex::new(None), ready: AtomicU64::new(0), serve_on: false });
    *DUO.lock().unwrap() = Some(d.clone());
    let cfg = NodeConfig::new("127.0.0.1", node.port).unwrap().with_name("n0").unwrap().with_timeout(DUO_T).unwrap();
    let opts = FleetOptions { default_timeout: DUO_T, retry_policy: RetryPolicy { max_attempts: max, delay: Duration::from_millis(1) } };
    let res_s = |v: bool, e: Option<&RepeError>| if v { if e.is_some() { "value+error".to_string() } else { "value".to_string() } } else { e.map(kind_s).unwrap_or_else(|| "noerror".into()) };
    let msg = api == "msg";
    let (ra, rb, fl): ((bool, Option<RepeError>), (bool, Option<RepeError>), Vec<String>);
    if kind == "blocking" {
        let fleet = Arc::new(Fleet::with_options(vec![cfg], opts).unwrap());
        let (fa, da) = (fleet.clone(), d.clone());
        let a = std::thread::spawn(move || {
            ROLE.with(|r| r.set(1));
            let r = fa.call_json("n0", "/hang", Some(&serde_json::json!(1))).unwrap();
            da.a_gone.store(true, Ordering::SeqCst);
            ROLE.with(|r| r.set(0));
            (r.value.is_some(), r.error)
        });
        let t0 = Instant::now();
        while d.hang.load(Ordering::SeqCst) == 0 && t0.elapsed() < Duration::from_secs(5) { std::thread::sleep(Duration::from_millis(1)); }
        std::thread::sleep(DUO_T / 2);
        let (fb, db) = (fleet.clone(), d.clone());
        let b = std::thread::spawn(move || {
            ROLE.with(|r| r.set(2));
            *db.b_start.lock().unwrap() = Some(Instant::now());
            let r = if msg { let r = fb.call_message("n0", "/slow").unwrap(); (r.value.is_some(), r.error) } else { let r = fb.call_json("n0", "/slow", Some(&serde_json::json!(2))).unwrap(); (r.value.is_some(), r.error) };
            ROLE.with(|r| r.set(0));
            r
        });
        rb = b.join().unwrap();
        ra = a.join().unwrap();
        fl = (0..2).map(|_| { let r = fleet.call_json("n0", "/x", Some(&serde_json::json!(3))).unwrap(); res_s(r.value.is_some(), r.error.as_ref()) }).collect();
    } else {
        let rt = tokio::runtime::Builder::new_current_thread().enable_all().build().unwrap();
        (ra, rb, fl) = rt.block_on(async {
            let fleet = AsyncFleet::with_options(vec![cfg], opts).unwrap();
            let (fa, da) = (fleet.clone(), d.clone());
            let a = WithRole { role: 1, fut: Box::pin(async move {
                let r = fa.call_json("n0", "/hang", Some(&serde_json::json!(1))).await.unwrap();
                da.a_gone.store(true, Ordering::SeqCst);
                (r.value.is_some(), r.error)
            }) };
            let (fb, db) = (fleet.clone(), d.clone());
            let b = WithRole { role: 2, fut: Box::pin(async move {
                let t0 = Instant::now();
                while db.hang.load(Ordering::SeqCst) == 0 && t0.elapsed() < Duration::from_secs(5) { tokio::time::sleep(Duration::from_millis(1)).await; }
                tokio::time::sleep(DUO_T / 2).await;
                *db.b_start.lock().unwrap() = Some(Instant::now());
                if msg { let r = fb.call_message("n0", "/slow").await.unwrap(); (r.value.is_some(), r.error) } else { let r = fb.call_json("n0", "/slow", Some(&serde_json::json!(2))).await.unwrap(); (r.value.is_some(), r.error) }
            }) };
            let (ra, rb) = tokio::join!(a, b);
            let mut fl = Vec::new();
            for _ in 0..2 { let r = fleet.call_json("n0", "/x", Some(&serde_json::json!(3))).await.unwrap(); fl.push(res_s(r.value.is_some(), r.error.as_ref())); }
            (ra, rb, fl)
        });
    }
    // the node thread records `ready` right after writing its reply to B's first request: wait for that record
    let t0 = Instant::now();
    while d.ready.load(Ordering::SeqCst) == 0 && t0.elapsed() < 5 * DUO_T { std::thread::sleep(Duration::from_millis(1)); }
    let out = format!("att={:x} res={} slow={:x} a={:x}:{} hang={:x} ready={} follow={}",
        d.b_att.load(Ordering::SeqCst), res_s(rb.0, rb.1.as_ref()), d.slow.load(Ordering::SeqCst),
        d.a_att.load(Ordering::SeqCst), res_s(ra.0, ra.1.as_ref()), d.hang.load(Ordering::SeqCst),
        (d.ready.load(Ordering::SeqCst) == 1) as u8, fl.join(","));
    *DUO.lock().unwrap() = None;
    node.stop.store(true, Ordering::SeqCst);
    node.close_conns();
    out
}

/// `hc=1`: caller B's call ("/slow", node timeout DUO_T) is in flight on the node's cached connection
/// (`warm=1`: opened by an earlier call; `warm=0`: opened by B's call itself) when a health check of
/// the whole fleet probes an endpoint the node does not have: the node answers that probe at once with
/// MethodNotFound, so the health check fails and reports the node as unhealthy. Only after the health
/// check has returned does the node answer B's request, on the connection it came on and well inside
/// B's deadline (`ready=1`). The node's only outcome for B's request is that timely reply. Reported:
/// B's attempts / result, how often the node saw B's request, the health report (for information),
/// and two calls afterwards.
fn run_hc(kind: &str, max: usize, api: &str, warm: bool) -> String {
    let node = Node::start();
    // (`a_gone` is the node's signal to answer "/slow": here it is given once the health check has returned)
    let d = Arc::new(Duo { a_att: AtomicU64::new(0), b_att: AtomicU64::new(0), a_gone: AtomicBool::new(false), hang: AtomicU64::new(0), slow: AtomicU64::new(0), b_start: Mutex::new(None), ready: AtomicU64::new(0), serve_on: true });
    *DUO.lock().unwrap() = Some(d.clone());
    let cfg = NodeConfig::new("127.0.0.1", node.port).unwrap().with_name("n0").unwrap().with_timeout(DUO_T).unwrap();
    let opts = FleetOptions { default_timeout: DUO_T, retry_policy: RetryPolicy { max_attempts: max, delay: Duration::from_millis(1) } };
    let res_s = |v: bool, e: Option<&RepeError>| if v { if e.is_some() { "value+error".to_string() } else { "value".to_string() } } else { e.map(kind_s).unwrap_or_else(|| "noerror".into()) };
    let hc_s = |h: &std::collections::HashMap<String, repe::HealthStatus>| match h.get("n0") { None => "none".to_string(), Some(st) => if st.healthy { "healthy".to_string() } else { format!("unhealthy:{}", st.error.as_ref().map(kind_s).unwrap_or_else(|| "noerror".into())) } };
    let msg = api == "msg";
    let (rb, hs, fl): ((bool, Option<RepeError>), String, Vec<String>);
    if kind == "blocking" {
        let fleet = Arc::new(Fleet::with_options(vec![cfg], opts).unwrap());
        if warm { let _ = fleet.call_json("n0", "/x", Some(&serde_json::json!(0))).unwrap(); }
        let (fb, db) = (fleet.clone(), d.clone());
        let b = std::thread::spawn(move || {
            ROLE.with(|r| r.set(2));
            *db.b_start.lock().unwrap() = Some(Instant::now());
            let r = if msg { let r = fb.call_message("n0", "/slow").unwrap(); (r.value.is_some(), r.error) } else { let r = fb.call_json("n0", "/slow", Some(&serde_json::json!(2))).unwrap(); (r.value.is_some(), r.error) };
            ROLE.with(|r| r.set(0));
            r
        });
        // the node has B's request; B now waits for the reply
        let t0 = Instant::now();
        while d.slow.load(Ordering::SeqCst) == 0 && t0.elapsed() < Duration::from_secs(5) { std::thread::sleep(Duration::from_millis(1)); }
        std::thread::sleep(Duration::from_millis(20));
        hs = hc_s(&fleet.health_check("/nohealth"));
        d.a_gone.store(true, Ordering::SeqCst);
        rb = b.join().unwrap();
        fl = (0..2).map(|_| { let r = fleet.call_json("n0", "/x", Some(&serde_json::json!(3))).unwrap(); res_s(r.value.is_some(), r.error.as_ref()) }).collect();
    } else {
        let rt = tokio::runtime::Builder::new_current_thread().enable_all().build().unwrap();
        (rb, hs, fl) = rt.block_on(async {
            let fleet = AsyncFleet::with_options(vec![cfg], opts).unwrap();
            if warm { let _ = fleet.call_json("n0", "/x", Some(&serde_json::json!(0))).await.unwrap(); }
            let (fb, db) = (fleet.clone(), d.clone());
            let b = WithRole { role: 2, fut: Box::pin(async move {
                *db.b_start.lock().unwrap() = Some(Instant::now());
                if msg { let r = fb.call_message("n0", "/slow").await.unwrap(); (r.value.is_some(), r.error) } else { let r = fb.call_json("n0", "/slow", Some(&serde_json::json!(2))).await.unwrap(); (r.value.is_some(), r.error) }
            }) };
            let (fh, dh) = (fleet.clone(), d.clone());
            let h = async move {
                let t0 = Instant::now();
                while dh.slow.load(Ordering::SeqCst) == 0 && t0.elapsed() < Duration::from_secs(5) { tokio::time::sleep(Duration::from_millis(1)).await; }
                tokio::time::sleep(Duration::from_millis(20)).await;
                let hs = fh.health_check("/nohealth").await;
                dh.a_gone.store(true, Ordering::SeqCst);
                hs
            };
            let (rb, hs) = tokio::join!(b, h);
            let mut fl = Vec::new();
            for _ in 0..2 { let r = fleet.call_json("n0", "/x", Some(&serde_json::json!(3))).await.unwrap(); fl.push(res_s(r.value.is_some(), r.error.as_ref())); }
            (rb, hc_s(&hs), fl)
        });
    }
    // the node thread records `ready` right after writing its reply to B's first request: wait for that record
    let t0 = Instant::now();
    while d.ready.load(Ordering::SeqCst) == 0 && t0.elapsed() < 5 * DUO_T { std::thread::sleep(Duration::from_millis(1)); }
    let out = format!("att={:x} res={} slow={:x} ready={} hc={} follow={}",
        d.b_att.load(Ordering::SeqCst), res_s(rb.0, rb.1.as_ref()), d.slow.load(Ordering::SeqCst),
        (d.ready.load(Ordering::SeqCst) == 1) as u8, hs, fl.join(","));
    *DUO.lock().unwrap() = None;
    node.stop.store(true, Ordering::SeqCst);
    node.close_conns();
    out
}

/// polls a future (role 3: its attempts are not the scenario's) until it is pending for the `left`-th
/// time, then gives up on it (`None`); the caller drops it, finished or not
struct CutAfter<F> { fut: std::pin::Pin<Box<F>>, left: usize, polls: Arc<AtomicU64> }
impl<F: std::future::Future> std::future::Future for CutAfter<F> {
    type Output = Option<F::Output>;
    fn poll(mut self: std::pin::Pin<&mut Self>, cx: &mut std::task::Context<'_>) -> std::task::Poll<Option<F::Output>> {
        ROLE.with(|r| r.set(3));
        let p = self.fut.as_mut().poll(cx);
        ROLE.with(|r| r.set(0));
        self.polls.fetch_add(1, Ordering::SeqCst);
        match p {
            std::task::Poll::Ready(v) => std::task::Poll::Ready(Some(v)),
            std::task::Poll::Pending => { self.left = self.left.saturating_sub(1); if self.left == 0 { std::task::Poll::Ready(None) } else { std::task::Poll::Pending } }
        }
    }
}

/// no fleet call takes longer than max_attempts x (connect + timeout + delay) on a reachable node;
/// a call that has not returned after this long is reported as `hung`
const WATCHDOG: Duration = Duration::from_secs(5);

/// `cut=<spec>`: the ordinary scenario with the empty script (the node is healthy the whole time: first
/// call, follow-up calls, then one broadcast), run on a fleet on which one earlier call on the cold
/// node was abandoned by its caller: the call future is polled and then dropped, as `select!` or
/// `tokio::time::timeout` do. `cut=p<k>`: dropped when it is pending for the k-th time (k=1: inside the
/// TCP connect; later: connected, request sent, waiting for the reply); `cut=t<us>`: dropped after that
/// many microseconds. `busy=1`: until the abandoned call has been dropped the node is slow to accept
/// (accept queue full), so the connection attempt stays pending for as long as the caller waits.
/// `ab=S`: the node reads the abandoned call's request and does not answer it. The abandoned call's
/// attempts are not counted (role 3) and its outcome is reported for information only (`ab=`).
fn run_cut(max: usize, nfollow: usize, cut: &str, api: &str, rtk: &str, busy: bool, ab: B) -> String {
    let (node, fill, full) = if busy { Node::start_busy() } else { (Node::start(), Vec::new(), false) };
    *node.mode.lock().unwrap() = ab;
    let cfg = NodeConfig::new("127.0.0.1", node.port).unwrap().with_name("n0").unwrap().with_timeout(TIMEOUT).unwrap();
    let opts = FleetOptions { default_timeout: TIMEOUT, retry_policy: RetryPolicy { max_attempts: max, delay: Duration::from_millis(1) } };
    let sc = Scenario { node: node.clone(), script: VecDeque::new(), attempts: 0 };
    CUR.with(|c| *c.borrow_mut() = Some(sc));
    let take_attempts = || CUR.with(|c| { let mut b = c.borrow_mut(); let s = b.as_mut().unwrap(); let a = s.attempts; s.attempts = 0; a });
    let res_s = |v: bool, e: Option<&RepeError>| if v { if e.is_some() { "value+error".to_string() } else { "value".to_string() } } else { e.map(kind_s).unwrap_or_else(|| "noerror".into()) };
    let msg = api == "msg";
    let rt = if rtk == "mt" { tokio::runtime::Builder::new_multi_thread().worker_threads(2).enable_all().build().unwrap() }
             else { tokio::runtime::Builder::new_current_thread().enable_all().build().unwrap() };
    let mut out = String::new();
    rt.block_on(async {
        let fleet = AsyncFleet::with_options(vec![cfg], opts).unwrap();
        // the abandoned call
        let polls = Arc::new(AtomicU64::new(0));
        let abandoned = {
            let f2 = fleet.clone();
            let call = async move {
                if msg { let r = f2.call_message("n0", "/y").await.unwrap(); (r.value.is_some(), r.error) } else { let r = f2.call_json("n0", "/x", Some(&serde_json::json!(0))).await.unwrap(); (r.value.is_some(), r.error) }
            };
            let (left, after) = match cut.split_at(1) { ("p", k) => (k.parse::<usize>().unwrap(), None), (_, us) => (usize::MAX, Some(Duration::from_micros(us.parse::<u64>().unwrap()))) };
            let wrapped = CutAfter { fut: Box::pin(call), left, polls: polls.clone() };
            match after {
                None => tokio::time::timeout(WATCHDOG, wrapped).await.unwrap_or(None),
                Some(d) => tokio::time::timeout(d, wrapped).await.unwrap_or(None),
            }
            // the call future is dropped here, finished or not
        };
        let ab_s = match &abandoned { None => "cut".to_string(), Some((v, e)) => format!("done:{}", res_s(*v, e.as_ref())) };
        // from here on the node is an ordinary healthy node
        if busy { node.release(fill); }
        take_attempts();
        // the ordinary scenario (empty script)
        let one = |i: usize| { let fleet = fleet.clone(); async move {
            let r = if i % 2 == 1 { tokio::time::timeout(WATCHDOG, fleet.call_message("n0", "/y")).await.map(|r| { let r = r.unwrap(); (r.value.is_some(), r.error) }) }
                    else { tokio::time::timeout(WATCHDOG, fleet.call_json("n0", "/x", if i == 0 { Some(serde_json::json!(1)) } else { None }.as_ref())).await.map(|r| { let r = r.unwrap(); (r.value.is_some(), r.error) }) };
            match r { Ok((v, e)) => res_s(v, e.as_ref()), Err(_) => "hung".to_string() }
        } };
        let r = one(0).await;
        // (once a call has hung the case has failed: what would follow is not performed and reported as `skipped`)
        let mut hung = r == "hung";
        let conn = tokio::time::timeout(WATCHDOG, fleet.is_connected("n0")).await.map(|c| (c.unwrap() as u8).to_string()).unwrap_or_else(|_| "hung".into());
        out.push_str(&format!("att={:x} res={} conn={}", take_attempts(), r, conn));
        let mut fl = Vec::new();
        for i in 0..nfollow {
            if hung { fl.push("0:skipped".to_string()); continue; }
            let r = one(i + 1).await; hung = r == "hung"; fl.push(format!("{:x}:{}", take_attempts(), r));
        }
        out.push_str(&format!(" follow={}", if fl.is_empty() { "-".into() } else { fl.join(",") }));
        // one broadcast to every node (no tags)
        let bc = if hung { "skipped".to_string() } else { match tokio::time::timeout(WATCHDOG, fleet.broadcast_json("/x", Some(&serde_json::json!(2)), &[] as &[&str])).await {
            Ok(m) => { let mut v: Vec<String> = m.into_iter().map(|(k, r)| format!("{}{}", k, if r.value.is_some() && r.error.is_none() { "" } else { "!" })).collect(); v.sort(); if v.is_empty() { "-".into() } else { v.join(",") } }
            Err(_) => "hung".to_string(),
        } };
        out.push_str(&format!(" bc={} ab={} polls={:x} full={}", bc, ab_s, polls.load(Ordering::SeqCst), full as u8));
    });
    // a wedged node leaves tasks behind that never finish: do not wait for them
    rt.shutdown_background();
    CUR.with(|c| *c.borrow_mut() = None);
    node.stop.store(true, Ordering::SeqCst);
    node.close_conns();
    out
}

/// a plain healthy node for the `tog` cases: every request is answered at once; counts accepted
/// connections and the requests for the case's own method (`want`)
struct TogServer { port: u16, conns: Arc<AtomicU64>, requests: Arc<AtomicU64>, stop: Arc<AtomicBool> }
impl TogServer {
    fn start(want: Vec<u8>) -> TogServer {
        let l = TcpListener::bind("127.0.0.1:0").unwrap();
        l.set_nonblocking(true).unwrap();
        let port = l.local_addr().unwrap().port();
        let (conns, requests, stop) = (Arc::new(AtomicU64::new(0)), Arc::new(AtomicU64::new(0)), Arc::new(AtomicBool::new(false)));
        let (c, r, st) = (conns.clone(), requests.clone(), stop.clone());
        std::thread::spawn(move || {
            while !st.load(Ordering::SeqCst) {
                match l.accept() {
                    Ok((mut s, _)) => {
                        c.fetch_add(1, Ordering::SeqCst);
                        let (r, want) = (r.clone(), want.clone());
                        std::thread::spawn(move || {
                            s.set_nonblocking(false).ok(); s.set_nodelay(true).ok();
                            s.set_read_timeout(Some(Duration::from_secs(20))).ok();
                            while let Ok(req) = net::read_raw_frame(&mut s) {
                                let id = u64::from_le_bytes(req[16..24].try_into().unwrap());
                                let ql = u64::from_le_bytes(req[24..32].try_into().unwrap()) as usize;
                                if req[48..48 + ql] == want[..] { r.fetch_add(1, Ordering::SeqCst); }
                                if s.write_all(&ok_frame(id, &req[48..48 + ql], b"{\"ok\":true}")).is_err() { break; }
                            }
                        });
                    }
                    Err(_) => std::thread::sleep(Duration::from_micros(100)),
                }
            }
        });
        TogServer { port, conns, requests, stop }
    }
}

/// `tog=<rounds> tx=<k> tf=<m> tb=<j>` (async, multi-thread runtime): j tasks make `rounds` broadcasts
/// each for tag "a" while k other tasks keep re-registering the nodes x0..x(k-1): every one alternates
/// between (tags [a], port P) and (tags [b], server B) by remove_node + add_node of the same name. P is
/// a bound port on which nobody listens (an attempt there is refused at once and leaves no connection
/// behind); m permanent nodes f0..f(m-1) carry tags [a] and live on the healthy server A. Whatever the
/// interleaving, at every moment the nodes carrying "a" are f0.. and those x that are registered at port
/// P: server B only ever hosts nodes that do not carry "a". Reported: the broadcasts made, how many
/// returned a map without an entry for some f node or with a foreign key (`bad`), the broadcast requests
/// (the method is the case's own: "/t<pid>") read by server B (`hitb`), the first round after which B
/// had been reached (`first`), whether the x nodes were really seen in both states while the broadcasts
/// ran (`live`), and the connections server B accepted (`connb`, for information).
fn run_tog(rounds: usize, tx: usize, tf: usize, tb: usize) -> String {
    let method = format!("/t{}", std::process::id());
    let (sa, sb) = (TogServer::start(method.clone().into_bytes()), TogServer::start(method.clone().into_bytes()));
    // P: bound, not listening (kept bound for the whole case so that nobody else gets the port)
    let dead = socket2::Socket::new(socket2::Domain::IPV4, socket2::Type::STREAM, None).unwrap();
    dead.bind(&std::net::SocketAddr::from(([127, 0, 0, 1], 0)).into()).unwrap();
    let pdead = dead.local_addr().unwrap().as_socket().unwrap().port();
    let node = |name: String, port: u16, tag: &str| NodeConfig::new("127.0.0.1", port).unwrap().with_name(name).unwrap().with_tags([tag]).with_timeout(Duration::from_secs(2)).unwrap();
    let mut cfgs: Vec<NodeConfig> = (0..tf).map(|i| node(format!("f{i}"), sa.port, "a")).collect();
    for k in 0..tx { cfgs.push(node(format!("x{k}"), pdead, "a")); }
    let opts = FleetOptions { default_timeout: Duration::from_secs(2), retry_policy: RetryPolicy { max_attempts: 1, delay: Duration::from_millis(1) } };
    let rt = tokio::runtime::Builder::new_multi_thread().worker_threads(tx + tb).enable_all().build().unwrap();
    let (pb, hitb) = (sb.port, sb.requests.clone());
    let out = rt.block_on(async move {
        let fleet = AsyncFleet::with_options(cfgs, opts).unwrap();
        let stop = Arc::new(AtomicBool::new(false));
        let togglers: Vec<_> = (0..tx).map(|k| {
            let (fleet, stop) = (fleet.clone(), stop.clone());
            tokio::spawn(async move {
                let name = format!("x{k}");
                let mut n = 0u64;
                while !stop.load(Ordering::Relaxed) {
                    fleet.remove_node(&name).await;
                    fleet.add_node(node(name.clone(), pb, "b")).await.unwrap();
                    if n % 2 == 0 { tokio::task::yield_now().await; }
                    fleet.remove_node(&name).await;
                    fleet.add_node(node(name.clone(), pdead, "a")).await.unwrap();
                    if n % 3 == 0 { tokio::task::yield_now().await; }
                    n += 1;
                }
                n
            })
        }).collect();
        let first = Arc::new(AtomicU64::new(u64::MAX));
        let casters: Vec<_> = (0..tb).map(|_| {
            let (fleet, hitb, first, method) = (fleet.clone(), hitb.clone(), first.clone(), method.clone());
            tokio::spawn(async move {
                let (mut done, mut bad, mut xin, mut xout) = (0u64, 0u64, 0u64, 0u64);
                for r in 0..rounds {
                    // (once server B has been reached the case has failed: no need to go on)
                    if first.load(Ordering::SeqCst) != u64::MAX { break; }
                    let m = fleet.broadcast_json(&method, Some(&serde_json::json!(1)), &["a"]).await;
                    done += 1;
                    let fs = (0..tf).filter(|i| m.contains_key(&format!("f{i}"))).count();
                    let xs = (0..tx).filter(|k| m.contains_key(&format!("x{k}"))).count();
                    if fs != tf || fs + xs != m.len() { bad += 1; }
                    if xs > 0 { xin += 1; }
                    if xs < tx { xout += 1; }
                    if hitb.load(Ordering::SeqCst) > 0 { first.fetch_min(r as u64, Ordering::SeqCst); }
                }
                (done, bad, xin, xout)
            })
        }).collect();
        let (mut done, mut bad, mut xin, mut xout) = (0u64, 0u64, 0u64, 0u64);
        for c in casters { let (d, b, i, o) = c.await.unwrap(); done += d; bad += b; xin += i; xout += o; }
        stop.store(true, Ordering::Relaxed);
        let mut toggles = 0u64;
        for t in togglers { toggles += t.await.unwrap(); }
        // (what is still on its way to server B arrives)
        tokio::time::sleep(Duration::from_millis(30)).await;
        let f = first.load(Ordering::SeqCst);
        let live = toggles >= 20 && xin > 0 && xout > 0;
        (format!("rounds={:x} bad={:x}", done, bad), if f == u64::MAX { "-".to_string() } else { format!("{f:x}") }, live, toggles, xin, xout)
    });
    let res = format!("{} hitb={:x} first={} live={} connb={:x}", out.0, sb.requests.load(Ordering::SeqCst), out.1, out.2 as u8, sb.conns.load(Ordering::SeqCst));
    if std::env::var("VERIF_TOG_INFO").is_ok() { eprintln!("tog info: toggles={} xin={} xout={} a-conns={} a-reqs={}", out.3, out.4, out.5, sa.conns.load(Ordering::SeqCst), sa.requests.load(Ordering::SeqCst)); }
    sa.stop.store(true, Ordering::SeqCst); sb.stop.store(true, Ordering::SeqCst);
    drop(dead);
    res
}

/// broadcast to the nodes carrying all requested tags: exactly those nodes are
/// addressed (request counters of the fake nodes) and exactly one result each
fn run_tags(kind: &str, node_tags: &[u64], want: u64, dup: bool, slow: Option<usize>, satt: Option<(usize, u64)>) -> String {
    let names = ["a", "b", "c"];
    let tag_list = |m: u64| -> Vec<String> { (0..3).filter(|i| m >> i & 1 == 1).map(|i| names[i as usize].to_string()).collect() };
    let nodes: Vec<Arc<Node>> = node_tags.iter().map(|_| Node::start()).collect();
    // slow=<i>: node i reads the request and never answers; its own timeout (400 ms) is longer than
    // the fleet's default timeout (300 ms): it still gets its (error) entry in the result
    if let Some(i) = slow { if let Some(n) = nodes.get(i) { *n.mode.lock().unwrap() = B::Silent; } }
    // satt=<n> sdelay=<ms>: n attempts per node with that retry delay between them; every attempt on the silent
    // node runs into its timeout (150 ms), so its (error) entry is due after n x 150 ms + (n-1) x delay
    let (nt, dt) = if satt.is_some() { (Duration::from_millis(150), Duration::from_millis(100)) } else if slow.is_some() { (Duration::from_millis(400), Duration::from_millis(300)) } else { (Duration::from_secs(2), Duration::from_secs(2)) };
    let cfgs: Vec<NodeConfig> = nodes.iter().enumerate().map(|(i, n)| NodeConfig::new("127.0.0.1", n.port).unwrap().with_name(format!("n{i}")).unwrap().with_tags(tag_list(node_tags[i])).with_timeout(nt).unwrap()).collect();
    let opts = FleetOptions { default_timeout: dt, retry_policy: match satt { Some((n, ms)) => RetryPolicy { max_attempts: n, delay: Duration::from_millis(ms) }, None => RetryPolicy { max_attempts: 1, delay: Duration::from_millis(1) } } };
    // dup: the caller names every requested tag twice (a tag list is a set: same nodes addressed)
    let mut want_tags = tag_list(want);
    if dup { let mut again = want_tags.clone(); again.reverse(); want_tags.extend(again); }
    let mut results: Vec<String> = if kind == "blocking" {
        let fleet = Fleet::with_options(cfgs, opts).unwrap();
        fleet.broadcast_json("/x", Some(&serde_json::json!(1)), &want_tags).into_iter().map(|(k, r)| format!("{}{}", k, if r.value.is_some() { "" } else { "!" })).collect()
    } else {
        let rt = tokio::runtime::Builder::new_current_thread().enable_all().build().unwrap();
        rt.block_on(async { let fleet = AsyncFleet::with_options(cfgs, opts).unwrap(); fleet.broadcast_json("/x", Some(&serde_json::json!(1)), &want_tags).await.into_iter().map(|(k, r)| format!("{}{}", k, if r.value.is_some() { "" } else { "!" })).collect() })
    };
    results.sort();
    let hit: Vec<String> = nodes.iter().enumerate().filter(|(_, n)| n.requests.load(Ordering::SeqCst) > 0).map(|(i, n)| format!("n{}x{}", i, n.requests.load(Ordering::SeqCst))).collect();
    for n in &nodes { n.stop.store(true, Ordering::SeqCst); n.close_conns(); }
    format!("results={} hit={}", if results.is_empty() { "-".into() } else { results.join(",") }, if hit.is_empty() { "-".into() } else { hit.join(",") })
}

fn run_case(line: &str) -> String {
    let f = fields(line);
    let kind = f["kind"].clone();
    if let Some(rounds) = f.get("tog").and_then(|r| r.parse::<usize>().ok()) {
        let num = |k: &str, d: usize| f.get(k).and_then(|v| v.parse::<usize>().ok()).unwrap_or(d);
        let (tx, tf, tb) = (num("tx", 1), num("tf", 3), num("tb", 1));
        return guard(move || run_tog(rounds, tx, tf, tb)).unwrap_or_else(|_| "crash=panic".into());
    }
    if f.contains_key("tags") {
        let nt: Vec<u64> = f["tags"].split('.').map(|s| s.parse().unwrap()).collect();
        let want: u64 = f["want"].parse().unwrap();
        let dup = f.get("dup").map(|d| d == "1").unwrap_or(false);
        let slow = f.get("slow").and_then(|s| s.parse::<usize>().ok());
        let satt = f.get("satt").and_then(|s| s.parse::<usize>().ok()).map(|n| (n, f.get("sdelay").and_then(|s| s.parse::<u64>().ok()).unwrap_or(1)));
        return guard(move || run_tags(&kind, &nt, want, dup, slow, satt)).unwrap_or_else(|_| "crash=panic".into());
    }
    let max: usize = f["max"].parse().unwrap();
    if f.contains_key("hc") {
        let api = f.get("api").cloned().unwrap_or_else(|| "json".into());
        let warm = f.get("warm").map(|w| w == "1").unwrap_or(false);
        return guard(move || run_hc(&kind, max, &api, warm)).unwrap_or_else(|_| "crash=panic".into());
    }
    if f.contains_key("duo") {
        let api = f.get("api").cloned().unwrap_or_else(|| "json".into());
        return guard(move || run_duo(&kind, max, &api)).unwrap_or_else(|_| "crash=panic".into());
    }
    if let Some(cut) = f.get("cut").cloned() {
        let api = f.get("api").cloned().unwrap_or_else(|| "json".into());
        let rtk = f.get("rt").cloned().unwrap_or_else(|| "ct".into());
        let busy = f.get("busy").map(|b| b == "1").unwrap_or(false);
        let ab = f.get("ab").and_then(|a| a.chars().next()).map(parse_b).unwrap_or(B::Success);
        let nfollow: usize = f["nfollow"].parse().unwrap();
        return guard(move || run_cut(max, nfollow, &cut, &api, &rtk, busy, ab)).unwrap_or_else(|_| "crash=panic".into());
    }
    let mon: usize = f.get("mon").and_then(|m| m.parse().ok()).unwrap_or(0);
    let script = if f["script"] == "-" { String::new() } else { f["script"].clone() };
    let nfollow: usize = f["nfollow"].parse().unwrap();
    guard(move || run_scenario(&kind, max, &script, nfollow, mon)).unwrap_or_else(|_| "crash=panic".into())
}

fn gen_cases(_seed: u64, thorough: bool) -> Vec<String> {
    let alpha = ['R', 'A', 'I', 'S', 'M', 'E', 'K'];
    let mut cases = Vec::new();
    for kind in ["blocking", "async"] {
        for max in 1..=3usize {
            let maxlen = if thorough { max + 2 } else { (max + 1).min(3) };
            for len in 0..=maxlen {
                let total = alpha.len().pow(len as u32);
                for idx in 0..total {
                    let mut k = idx; let mut s = String::new();
                    for _ in 0..len { s.push(alpha[k % alpha.len()]); k /= alpha.len(); }
                    // quick: at most two Silent attempts per script (each costs a timeout)
                    if !thorough && s.matches('S').count() > 1 { continue; }
                    cases.push(format!("kind={kind} max={max} script={} nfollow={}", if s.is_empty() { "-" } else { &s }, len + 2));
                }
            }
        }
        // a success frame with an incomplete JSON body is a reply: no retry, the error is reported
        for max in 1..=3usize {
            // (the J reply is the last scripted behaviour and is met by the first call, which decodes JSON)
            for script in ["J", "AJ", "RJ", "AAJ", "RAJ"] {
                if script.len() <= max { cases.push(format!("kind={kind} max={max} script={script} nfollow=3")); }
            }
        }
        // all tag subsets over up to 3 nodes x 3 tags (quick: sampled)
        for n in 1..=3usize {
            let total = 8usize.pow(n as u32);
            for idx in 0..total {
                if !thorough && idx % 5 != 0 { continue; }
                let mut k = idx; let tags: Vec<String> = (0..n).map(|_| { let t = k % 8; k /= 8; t.to_string() }).collect();
                for want in 0..8 {
                    if !thorough && want % 3 == 1 { continue; }
                    cases.push(format!("kind={kind} tags={} want={want}", tags.join(".")));
                    if want != 0 && (thorough || (idx + want) % 4 == 0) { cases.push(format!("kind={kind} tags={} want={want} dup=1", tags.join("."))); }
                    if n >= 2 && (idx + want) % (if thorough { 16 } else { 64 }) == 3 { cases.push(format!("kind={kind} tags={} want={want} slow={}", tags.join("."), idx % n)); }
                }
            }
        }
    }
    // the async scripted scenarios again (scripts of length <= 2, at most one silent attempt) while three
    // monitor tasks poll is_connected / connected_nodes on other runtime threads: observers change nothing,
    // so the same model and oracle judge them (appended: the indices of the cases above stay as they were)
    for max in 1..=3usize {
        for len in 0..=2usize {
            for idx in 0..alpha.len().pow(len as u32) {
                let mut k = idx; let mut s = String::new();
                for _ in 0..len { s.push(alpha[k % alpha.len()]); k /= alpha.len(); }
                if s.matches('S').count() > 1 { continue; }
                cases.push(format!("kind=async max={max} script={} nfollow={} mon=3", if s.is_empty() { "-" } else { &s }, len + 2));
            }
        }
    }
    // two concurrent callers on one node sharing its cached connection: A is never answered and times
    // out while B's later request is answered in time
    for kind in ["blocking", "async"] {
        for max in 1..=2usize {
            for api in ["json", "msg"] { cases.push(format!("kind={kind} duo=1 max={max} api={api}")); }
        }
    }
    // an abandoned call (its future dropped at a cut point) on the cold node, then the ordinary scenario
    // with the empty script: the node is healthy throughout, so the same model and oracle judge it
    for max in [1usize, 3] {
        for api in ["json", "msg"] {
            for rt in ["ct", "mt"] {
                // cut points on a promptly accepting node: k-th pending poll, or after some microseconds
                for cut in ["p1", "p2", "p3", "p4", "t0", "t150", "t2000"] {
                    cases.push(format!("kind=async max={max} script=- nfollow=2 cut={cut} api={api} rt={rt}"));
                }
                // the node is slow to accept: the connection attempt pends until the caller gives up
                for cut in ["p1", "t1000", "t40000"] {
                    if max == 3 || cut == "t40000" { cases.push(format!("kind=async max={max} script=- nfollow=2 cut={cut} api={api} rt={rt} busy=1")); }
                }
            }
        }
        // the node reads the abandoned call's request and does not answer: the caller gives up first
        for rt in ["ct", "mt"] {
            for cut in ["p2", "t5000", "t60000"] { cases.push(format!("kind=async max={max} script=- nfollow=2 cut={cut} api=json rt={rt} ab=S")); }
        }
    }
    // a failing health check (the node has no such endpoint) while caller B's request is in flight on the
    // node's cached connection; the node answers B afterwards, in time
    for kind in ["blocking", "async"] {
        for max in 1..=3usize {
            for api in ["json", "msg"] { for warm in [0, 1] { cases.push(format!("kind={kind} hc=1 max={max} api={api} warm={warm}")); } }
        }
    }
    // broadcasts with a node that stays silent on every attempt, several attempts and a retry delay
    // between them: the silent node's entry is due after satt x 150 ms + (satt-1) x sdelay
    for kind in ["blocking", "async"] {
        for (tags, want, slow, satt, sdelay) in [("1.1", 1, 0, 3, 350), ("3.1.2", 1, 1, 3, 350), ("7.7.7", 0, 2, 2, 600), ("5", 4, 0, 3, 350), ("6.3", 2, 0, 2, 700)] {
            cases.push(format!("kind={kind} tags={tags} want={want} slow={slow} satt={satt} sdelay={sdelay}"));
        }
    }
    // broadcasts for tag "a" while other tasks keep re-registering the x nodes with tags [a] (a port
    // that refuses) / tags [b] (server B): server B must never be reached
    for (tx, tf, tb) in [(2, 3, 2), (3, 2, 2), (4, 3, 3)] { cases.push(format!("kind=async tog=4000 tx={tx} tf={tf} tb={tb}")); }
    cases.into_iter().enumerate().map(|(i, c)| format!("i={i} {c}")).collect()
}

fn main() {
    repe::verif_hooks::install(on_probe);
    let cases = if no_gen() { vec![] } else { gen_cases(seed(), is_thorough()) };
    isolated_main(cases, run_case, Duration::from_secs(60));
}
