//! C12 correspondence: a real thread parked in `wait_for_credit` /
//! `wait_for_reconnect` (far deadline) on the real `repe::TransferControl`,
//! signalled from other real threads.
//!
//! Two kinds of cases:
//! * histories (`kind=.. pre=.. ops=..`): the waiter parks, then the ops are applied one by
//!   one from another thread; after each op: has the waiter returned within the grace period
//!   (and what)?  Observation `first=<P|result> obs=<o1,o2,..>`.
//! * schedules (`kind2=sched .. t=ops|ops|ops`): 2-3 signaller threads apply their op lists
//!   concurrently with random tiny sleeps while the waiter is parked (or is just parking);
//!   observation `final=<P|result>` (liveness with a watchdog).
use repe::stream::{CreditError, ReconnectOutcome};
use repe::TransferControl;
use repe_verif_harness::streamops::apply;
use repe_verif_harness::*;
use std::sync::mpsc::{self, RecvTimeoutError};
use std::sync::{Arc, Barrier};
use std::time::{Duration, Instant};

/// the waiter's own deadline: far beyond every watchdog below
const FAR: Duration = Duration::from_secs(20);
/// time given to the waiter to take the lock, check and park
const PARK: Duration = Duration::from_millis(30);

fn grace() -> Duration {
    Duration::from_millis(std::env::var("VERIF_C12_GRACE_MS").ok().and_then(|s| s.parse().ok()).unwrap_or(100))
}

fn h(v: u64) -> String { format!("{v:x}") }
fn p(s: &str) -> u64 { u64::from_str_radix(s, 16).unwrap() }
fn rid(r: &str) -> String { r.strip_prefix("reason-").map(|s| s.to_string()).unwrap_or_else(|| format!("?{r}")) }
fn ops_of(s: &str) -> Vec<String> { if s == "-" { vec![] } else { s.split(';').map(|x| x.to_string()).collect() } }

fn spawn_waiter(tc: Arc<TransferControl>, credit: bool, len: u64) -> (mpsc::Receiver<String>, std::thread::JoinHandle<()>) {
    spawn_waiter_for(tc, credit, len, FAR, false)
}

/// `timed`: the result is followed by `@<elapsed ms, hex>` measured around the wait call
fn spawn_waiter_for(tc: Arc<TransferControl>, credit: bool, len: u64, far: Duration, timed: bool) -> (mpsc::Receiver<String>, std::thread::JoinHandle<()>) {
    spawn_waiter_at(tc, credit, len, far, timed, None)
}

/// `gate`: the waiter enters its wait right after passing the barrier (the signaller is the other party)
fn spawn_waiter_at(tc: Arc<TransferControl>, credit: bool, len: u64, far: Duration, timed: bool, gate: Option<Arc<Barrier>>) -> (mpsc::Receiver<String>, std::thread::JoinHandle<()>) {
    let (tx, rx) = mpsc::channel::<String>();
    let jh = std::thread::spawn(move || {
        if let Some(g) = gate { g.wait(); }
        let t0 = Instant::now();
        let r = if credit {
            match tc.wait_for_credit(len, t0 + far) {
                Ok(()) => "granted".to_string(),
                Err(CreditError::Timeout) => "timeout".to_string(),
                Err(CreditError::Cancelled(r)) => format!("can:{}", rid(&r)),
            }
        } else {
            match tc.wait_for_reconnect(far) {
                ReconnectOutcome::ResumeReady(pr) => format!("ready:{}", h(pr.resume_at_offset)),
                ReconnectOutcome::Cancelled(r) => format!("can:{}", rid(&r)),
                ReconnectOutcome::Timeout => "timeout".to_string(),
            }
        };
        let el = t0.elapsed().as_millis() as u64;
        let _ = tx.send(if timed { format!("{r}@{}", h(el)) } else { r });
    });
    (rx, jh)
}

/// `Ok(Some(result))`, `Ok(None)` = still parked, `Err` = the waiter thread died
fn poll(rx: &mpsc::Receiver<String>, d: Duration) -> Result<Option<String>, ()> {
    match rx.recv_timeout(d) {
        Ok(r) => Ok(Some(r)),
        Err(RecvTimeoutError::Timeout) => Ok(None),
        Err(RecvTimeoutError::Disconnected) => Err(()),
    }
}

/// cancel so that the waiter ends, and join it; `false` if it did not end within 2 s
fn finish(tc: &TransferControl, rx: &mpsc::Receiver<String>, jh: std::thread::JoinHandle<()>, returned: bool) -> bool {
    tc.cancel("reason-end");
    if !returned && !matches!(poll(rx, Duration::from_secs(2)), Ok(Some(_))) { return false; }
    jh.join().is_ok()
}

fn run_history(f: &std::collections::HashMap<String, String>) -> String {
    let credit = f["kind"] == "credit";
    let (len, win, cap) = (p(&f["len"]), p(&f["win"]), p(&f["cap"]));
    let (pre, ops) = (ops_of(&f["pre"]), ops_of(&f["ops"]));
    let g = grace();
    let r = guard(move || {
        let tc = TransferControl::with_replay_capacity(win, cap);
        let mut reasons = Vec::new();
        for op in &pre { apply(&tc, op, &mut reasons); }
        let (rx, jh) = spawn_waiter(tc.clone(), credit, len);
        let mut result = match poll(&rx, PARK) { Ok(r) => r, Err(()) => return "crash=panic".to_string() };
        let first = result.clone().unwrap_or_else(|| "P".into());
        let mut obs = Vec::new();
        for op in ops {
            // every operation runs on a thread of its own, never on the waiter's
            let tc2 = tc.clone();
            let j = std::thread::spawn(move || { let mut rs = Vec::new(); apply(&tc2, &op, &mut rs); });
            if j.join().is_err() { return "crash=panic".to_string(); }
            if result.is_none() {
                result = match poll(&rx, g) { Ok(r) => r, Err(()) => return "crash=panic".to_string() };
            }
            obs.push(result.clone().unwrap_or_else(|| "P".into()));
        }
        let ended = finish(&tc, &rx, jh, result.is_some());
        format!("first={} obs={}{}", first, if obs.is_empty() { "-".to_string() } else { obs.join(",") }, if ended { "" } else { " end=stuck" })
    });
    r.unwrap_or_else(|_| "crash=panic".into())
}

fn run_sched(f: &std::collections::HashMap<String, String>) -> String {
    let credit = f["kind"] == "credit";
    let (len, win, cap) = (p(&f["len"]), p(&f["win"]), p(&f["cap"]));
    let pre = ops_of(&f["pre"]);
    let threads: Vec<Vec<String>> = f["t"].split('|').map(ops_of).collect();
    let delay = Duration::from_micros(p(&f["d"]));
    let sd = p(&f["sd"]);
    let wait = if f["exp"] == "ret" { Duration::from_secs(1) } else { grace() };
    let r = guard(move || {
        let tc = TransferControl::with_replay_capacity(win, cap);
        let mut reasons = Vec::new();
        for op in &pre { apply(&tc, op, &mut reasons); }
        let (rx, jh) = spawn_waiter(tc.clone(), credit, len);
        // d = 0: the signallers race the waiter's very first check-and-park
        if !delay.is_zero() { std::thread::sleep(delay); }
        let bar = Arc::new(Barrier::new(threads.len()));
        let mut js = Vec::new();
        for (i, ops) in threads.into_iter().enumerate() {
            let tc2 = tc.clone(); let bar = bar.clone();
            let mut rng = Rng::new(sd.wrapping_mul(31).wrapping_add(i as u64));
            js.push(std::thread::spawn(move || {
                bar.wait();
                let mut rs = Vec::new();
                for op in &ops {
                    match rng.below(4) {
                        0 => {}
                        1 => std::thread::yield_now(),
                        _ => std::thread::sleep(Duration::from_micros(rng.below(300))),
                    }
                    apply(&tc2, op, &mut rs);
                }
            }));
        }
        for j in js { if j.join().is_err() { return "crash=panic".to_string(); } }
        let result = match poll(&rx, wait) { Ok(r) => r, Err(()) => return "crash=panic".to_string() };
        let ended = finish(&tc, &rx, jh, result.is_some());
        format!("final={}{}", result.unwrap_or_else(|| "P".into()), if ended { "" } else { " end=stuck" })
    });
    r.unwrap_or_else(|_| "crash=panic".into())
}

/// `storm=<rounds>`: one signaller applies the (single) op list as fast as it can, with busy
/// pauses of 0..gap microseconds, while the waiter is parked or cycling through its
/// check-and-park; repeated on a fresh control `rounds` times.  A wake-up lost between the
/// waiter's check and its park leaves it parked although the last op made its condition true.
fn run_storm(f: &std::collections::HashMap<String, String>) -> String {
    let credit = f["kind"] == "credit";
    let (len, win, cap) = (p(&f["len"]), p(&f["win"]), p(&f["cap"]));
    let pre = ops_of(&f["pre"]);
    let ops = ops_of(&f["t"]);
    let rounds = p(&f["storm"]);
    let gap = p(&f["gap"]);
    let sd = p(&f["sd"]);
    let r = guard(move || {
        let mut rng = Rng::new(sd);
        let mut first: Option<String> = None;
        for round in 0..rounds {
            let tc = TransferControl::with_replay_capacity(win, cap);
            let mut reasons = Vec::new();
            for op in &pre { apply(&tc, op, &mut reasons); }
            // half of the rounds start the signaller together with the waiter's first check (a barrier
            // and 0..40 us), the others with the waiter (most likely) parked
            let gated = round % 2 == 0;
            let gate = if gated { Some(Arc::new(Barrier::new(2))) } else { None };
            let (rx, jh) = spawn_waiter_at(tc.clone(), credit, len, FAR, false, gate.clone());
            match &gate { Some(g) => { g.wait(); spin_us(rng.below(40)); } None => spin_us(rng.below(400)) }
            let tc2 = tc.clone(); let ops2 = ops.clone();
            let mut r2 = Rng::new(rng.next());
            let j = std::thread::spawn(move || {
                let mut rs = Vec::new();
                for op in &ops2 { if gap > 0 { spin_us(r2.below(gap + 1)); } apply(&tc2, op, &mut rs); }
            });
            if j.join().is_err() { return "crash=panic".to_string(); }
            let result = match poll(&rx, Duration::from_secs(3)) { Ok(r) => r, Err(()) => return "crash=panic".to_string() };
            let ended = finish(&tc, &rx, jh, result.is_some());
            if !ended { return format!("final={} end=stuck round={}", result.unwrap_or_else(|| "P".into()), h(round)); }
            match result {
                None => return format!("final=P round={}", h(round)),
                Some(r) => match &first {
                    None => first = Some(r),
                    Some(f0) if *f0 != r => return format!("final={} round={}", r, h(round)),
                    _ => {}
                },
            }
        }
        format!("final={} rounds={}", first.unwrap_or_else(|| "P".into()), h(rounds))
    });
    r.unwrap_or_else(|_| "crash=panic".into())
}

fn spin_us(us: u64) {
    if us == 0 { return; }
    let t = Instant::now();
    let d = Duration::from_micros(us);
    while t.elapsed() < d { std::hint::spin_loop(); }
}

/// `kind2=tmo`: the waiter has a near deadline (`dl` ms) and the op list, applied with `gapms`
/// between the ops, never makes its condition true (the driver re-checks that in the model):
/// it must return Timeout, at its deadline - not at the first wake-up, and not only once the
/// wake-ups stop.
fn run_tmo(f: &std::collections::HashMap<String, String>) -> String {
    let credit = f["kind"] == "credit";
    let (len, win, cap) = (p(&f["len"]), p(&f["win"]), p(&f["cap"]));
    let pre = ops_of(&f["pre"]);
    let ops = ops_of(&f["t"]);
    let dl = Duration::from_millis(p(&f["dl"]));
    let gap = Duration::from_millis(p(&f["gapms"]));
    let r = guard(move || {
        let tc = TransferControl::with_replay_capacity(win, cap);
        let mut reasons = Vec::new();
        for op in &pre { apply(&tc, op, &mut reasons); }
        let (rx, jh) = spawn_waiter_for(tc.clone(), credit, len, dl, true);
        let tc2 = tc.clone(); let n = ops.len() as u32;
        let j = std::thread::spawn(move || {
            let mut rs = Vec::new();
            for op in &ops { std::thread::sleep(gap); apply(&tc2, op, &mut rs); }
        });
        let result = match poll(&rx, dl + gap * n + Duration::from_secs(3)) { Ok(r) => r, Err(()) => return "crash=panic".to_string() };
        if j.join().is_err() { return "crash=panic".to_string(); }
        let ended = finish(&tc, &rx, jh, result.is_some());
        let (res, el) = match &result {
            Some(r) => { let (a, b) = r.split_once('@').unwrap(); (a.to_string(), b.to_string()) }
            None => ("P".to_string(), "0".to_string()),
        };
        format!("final={} el={}{}", res, el, if ended { "" } else { " end=stuck" })
    });
    r.unwrap_or_else(|_| "crash=panic".into())
}

fn run_case(line: &str) -> String {
    let f = fields(line);
    if f.contains_key("storm") { return run_storm(&f); }
    if f.get("kind2").map(|s| s.as_str()) == Some("tmo") { return run_tmo(&f); }
    if f.get("kind2").map(|s| s.as_str()) == Some("sched") { run_sched(&f) } else { run_history(&f) }
}

// ---------------------------------------------------------------- generation

/// three contiguous pushes (offsets 0, 4, 8; end a) and a send of 10 bytes:
/// with window 4 a credit wait for 2 bytes parks; resume offsets 0, 4, 8, a are covered
const PRE: &str = "P:0:4:0:aa;P:4:4:0:bb;P:8:2:1:cc;S:a";

/// symbolic alphabet; "P" is expanded to a push abutting the previous one
const ALPHA: [&str; 20] = [
    "S:c", "S:5", "A:0:2", "A:0:6", "A:0:8", "A:0:ff", "A:1:a", "A:0:0", "C:1", "C:2", "V:1",
    "R:7:0:8", "R:7:0:4", "R:7:0:0", "R:7:0:3", "R:7:1:8", "R:7:1:0", "E:3", "P", "Q:0",
];
/// the symbols that wake neither kind of waiter from the state after PRE
const QUIET: [&str; 9] = ["S:c", "S:5", "A:1:a", "A:0:0", "R:7:0:3", "R:7:1:8", "E:3", "P", "Q:0"];

/// the symbols that notify from the state after PRE (some without making the condition true)
const WAKE: [&str; 10] = ["A:0:8", "A:0:ff", "A:0:6", "A:0:2", "C:1", "C:2", "V:1", "R:7:0:8", "R:7:0:4", "R:7:0:0"];

/// expand "P" symbols; `end` = logical end of the last push
fn expand(sym: &[&str], mut end: u64) -> String {
    let mut out = Vec::new();
    let mut tag = 0xd0u8;
    for s in sym {
        if *s == "P" {
            tag = tag.wrapping_add(1);
            out.push(format!("P:{}:1:0:{}", h(end), hex(&[tag])));
            end += 1;
        } else {
            out.push(s.to_string());
        }
    }
    if out.is_empty() { "-".into() } else { out.join(";") }
}

fn gen_histories(rng: &mut Rng, thorough: bool) -> Vec<String> {
    let mut cases = Vec::new();
    // (kind, len, win, cap)
    let configs: [(&str, u64, u64, u64); 4] = [("credit", 2, 4, 8), ("reconnect", 0, 4, 8), ("credit", 2, 4, 2), ("reconnect", 0, 4, 2)];
    let line = |k: &str, len: u64, win: u64, cap: u64, pre: &str, ops: &str| format!("kind={k} len={} win={} cap={} pre={pre} ops={ops}", h(len), h(win), h(cap));
    // every single operation from the parked state
    for (k, len, win, cap) in configs {
        for s in ALPHA { cases.push(line(k, len, win, cap, PRE, &expand(&[s], 10))); }
    }
    // random histories of length 2..6 (thorough: ..8); quiet symbols are favoured so the
    // waiter stays parked across several operations before something wakes it
    let nrand = if thorough { 3000 } else { 200 };
    let maxlen = if thorough { 8 } else { 6 };
    for _ in 0..nrand {
        let (k, len, win, cap) = *rng.pick(&configs);
        let n = rng.range(2, maxlen) as usize;
        let quiet_bias = rng.range(3, 8);
        let mut sym: Vec<&str> = (0..n).map(|_| if rng.chance(quiet_bias, 10) { *rng.pick(&QUIET) } else { *rng.pick(&ALPHA) }).collect();
        // three in four get a (potentially) waking operation at a chosen position, any tail after it
        if rng.chance(3, 4) {
            let j = rng.below(n as u64) as usize;
            sym[j] = *rng.pick(&WAKE);
            for s in sym.iter_mut().skip(j + 1) { *s = *rng.pick(&ALPHA); }
        }
        cases.push(line(k, len, win, cap, PRE, &expand(&sym, 10)));
    }
    // directed: the waiter returns at once (condition already true when it first checks)
    cases.push(line("credit", 2, 4, 8, "-", "S:a;A:0:a"));
    cases.push(line("credit", 2, 4, 8, "S:2", "S:a"));
    cases.push(line("credit", 9, 4, 8, "-", "S:a"));
    cases.push(line("credit", 2, 4, 8, "S:a;C:5", "A:0:a;C:6"));
    cases.push(line("credit", 2, 4, 8, "S:a;A:0:8", "S:c"));
    cases.push(line("reconnect", 0, 4, 8, &format!("{PRE};R:7:0:4"), "C:1;R:7:0:8"));
    cases.push(line("reconnect", 0, 4, 8, "C:9", "R:7:0:0"));
    cases.push(line("reconnect", 0, 4, 8, "R:7:0:0", "V:1"));
    // directed: a staged resume dropped by an advance before the waiter looks: it parks
    cases.push(line("reconnect", 0, 4, 8, &format!("{PRE};R:7:0:4;V:1"), "R:7:0:4;R:7:1:4;R:7:1:0"));
    cases.push(line("reconnect", 0, 4, 8, &format!("{PRE};R:7:0:4;T"), "A:0:a;R:8:0:8"));
    // directed: 64-bit corners (the wrapped sum must not look like credit), window 0
    let m = u64::MAX;
    cases.push(line("credit", m, m, 8, "S:1", "S:2;A:0:1;A:0:2"));
    cases.push(line("credit", m, m, 8, "S:1", "A:1:1;V:2"));
    cases.push(line("credit", 10, 10, 8, &format!("S:{}", h(m - 5)), &format!("A:0:{};A:0:{};A:0:{}", h(m - 16), h(m - 15), h(m))));
    cases.push(line("credit", 0, 0, 8, "S:1", "S:2;A:0:1;A:0:2"));
    cases.push(line("credit", 1, m, 8, &format!("S:{}", h(m)), &format!("A:0:1;A:0:{}", h(m))));
    cases.push(line("credit", 2, 4, 8, "S:a", "A:0:7;A:0:8"));
    cases.push(line("credit", 2, 4, 8, "S:a", "A:0:ffffffffffffffff"));
    // directed: a chunk larger than the whole window parks like any other until nothing is in flight
    cases.push(line("credit", 9, 4, 8, "S:a", "A:0:2;A:0:9;A:0:a"));
    cases.push(line("credit", 5, 4, 8, "S:1", "S:2;C:3"));
    cases.push(line("credit", 100, 0, 8, "S:3", "A:0:1;V:1"));
    cases
}

/// schedules whose outcome does not depend on the interleaving (the driver re-checks this
/// by enumerating every interleaving in the model): `exp=ret` — every order ends with the
/// condition true; `exp=park` — no order ever makes it true
fn gen_scheds(rng: &mut Rng, n: usize) -> Vec<String> {
    let mut cases = Vec::new();
    // credit: sent a, window 4, len 2: an acked offset >= 8 frees credit, <= 6 does not
    let c_never: &[&'static str] = &["S:c", "S:b", "S:5", "A:0:2", "A:0:6", "A:0:0", "A:1:a", "A:2:ff", "E:3", "E:4", "R:7:0:4", "R:7:0:0", "R:7:0:3", "R:7:1:8", "Q:0", "P"];
    let c_suff: &[&'static str] = &["A:0:8", "A:0:9", "A:0:a", "A:0:ff", "R:7:0:8", "R:7:0:a"];
    let c_neutral: &[&'static str] = &["A:0:2", "A:1:a", "E:3", "R:7:1:8", "R:7:0:3", "Q:0", "A:0:0"];
    let c_adv: &[&'static str] = &["V:1", "V:2", "A:0:2", "A:1:1", "E:3", "R:7:1:0", "R:7:0:8", "Q:0"];
    // reconnect: advances only to file 3, wrong-file resumes only for files 1 and 2
    let r_never: &[&'static str] = &["S:c", "A:0:8", "A:0:2", "A:1:a", "E:3", "R:7:1:8", "R:7:0:3", "R:7:2:0", "V:3", "Q:0", "P"];
    let r_acc: &[&'static str] = &["R:7:0:8", "R:8:0:0", "R:9:0:a", "R:7:0:4"];
    let r_neutral: &[&'static str] = &["S:c", "A:0:8", "E:3", "R:7:1:8", "R:7:0:3", "Q:0"];
    let cancels: &[&'static str] = &["C:1", "C:2", "C:3"];
    for _ in 0..n {
        let credit = rng.chance(1, 2);
        let nthreads = rng.range(2, 3) as usize;
        let maxops = if nthreads == 3 { 2 } else { 3 };
        let lens: Vec<usize> = (0..nthreads).map(|_| rng.range(1, maxops) as usize).collect();
        let total: usize = lens.iter().sum();
        // class: 0 = never true (park), 1 = a cancel somewhere, 2 = sufficient acks / accepted
        // resumes only, 3 = an advance and no sends (credit only)
        let class = if rng.chance(3, 10) { 0 } else if credit { rng.range(1, 3) } else { rng.range(1, 2) };
        let mut flat: Vec<&str> = Vec::new();
        let draw = |rng: &mut Rng, pools: &[&[&'static str]]| -> &'static str { let pool = *rng.pick(pools); *rng.pick(pool) };
        for _ in 0..total {
            let s = match (credit, class) {
                (true, 0) => draw(rng, &[c_never]),
                (true, 1) => draw(rng, &[c_never, c_suff, cancels]),
                (true, 2) => draw(rng, &[c_suff, c_neutral]),
                (true, _) => draw(rng, &[c_adv]),
                (false, 0) => draw(rng, &[r_never]),
                (false, 1) => draw(rng, &[r_never, r_acc, cancels]),
                (false, _) => draw(rng, &[r_acc, r_neutral]),
            };
            flat.push(s);
        }
        // make sure the deciding operation is present
        let at = rng.below(total as u64) as usize;
        match (credit, class) {
            (_, 0) => {}
            (_, 1) => flat[at] = *rng.pick(cancels),
            (true, 2) => flat[at] = *rng.pick(c_suff),
            (true, _) => flat[at] = "V:1",
            (false, _) => flat[at] = *rng.pick(r_acc),
        }
        // pushes must abut: keep at most two, all on the first thread, in order
        let mut pushes = 0;
        for (i, s) in flat.iter_mut().enumerate() {
            if *s == "P" { if i < lens[0] && pushes < 2 { pushes += 1; } else { *s = "E:5"; } }
        }
        let mut ts = Vec::new();
        let mut i = 0;
        let mut end = 10u64;
        for l in &lens {
            let seg = &flat[i..i + l];
            ts.push(expand(seg, end));
            end += seg.iter().filter(|s| **s == "P").count() as u64;
            i += l;
        }
        let d = match rng.below(4) { 0 => 0, 1 => rng.below(200), 2 => rng.below(3000), _ => 5000 };
        cases.push(format!("kind2=sched kind={} len={} win=4 cap=8 pre={PRE} t={} d={} sd={} exp={}",
            if credit { "credit" } else { "reconnect" }, if credit { 2 } else { 0 }, ts.join("|"), h(d), h(rng.next() >> 16),
            if class == 0 { "park" } else { "ret" }));
    }
    cases
}

/// storms (a run of notifying operations that do not make the condition true, then one that
/// does, applied back to back) and near-deadline waits under wake-ups that never satisfy them
fn gen_storms(rng: &mut Rng, thorough: bool) -> Vec<String> {
    let mut cases = Vec::new();
    // sent 0x1000, window 4, len 2: acks below 0xffe free nothing but each one notifies
    let pre = "P:0:4:0:aa;P:4:4:0:bb;P:8:2:1:cc;S:1000";
    let ncases = if thorough { 160 } else { 32 };
    for i in 0..ncases {
        let credit = i % 2 == 0;
        // short storms with pauses, and long ones applied in a tight loop (their total duration is
        // of the order of the waiter's wake-up latency, so its re-checks land among the last acks)
        let long = i % 4 >= 2;
        let n = if long { rng.range(150, 1500) } else { rng.range(1, 48) };
        let mut ops: Vec<String> = (1..=n).map(|a| format!("A:0:{}", h(a))).collect();
        let fin = if credit {
            match rng.below(4) { 0 => "A:0:1000", 1 => "A:0:ffe", 2 => "C:1", _ => "V:1" }
        } else {
            match rng.below(3) { 0 => "R:7:0:8", 1 => "R:9:0:a", _ => "C:2" }
        };
        ops.push(fin.to_string());
        let gap = if long { *rng.pick(&[0u64, 0, 0, 1]) } else { *rng.pick(&[0u64, 2, 5, 10, 20, 40, 80]) };
        cases.push(format!("kind2=sched kind={} len={} win=4 cap=8 pre={pre} t={} d=0 sd={} exp=ret storm={} gap={}",
            if credit { "credit" } else { "reconnect" }, if credit { 2 } else { 0 }, ops.join(";"), h(rng.next() >> 16),
            h(if thorough { 1000 } else { 300 }), h(gap)));
    }
    // near deadlines: wake-ups closer together than the deadline, lasting well beyond it
    let tm: &[(u64, u64, u64)] = if thorough { &[(200, 60, 12), (300, 100, 9), (120, 50, 12), (250, 240, 4), (150, 10, 60)] } else { &[(200, 60, 12), (150, 100, 6)] };
    for &(dl, gapms, n) in tm {
        for credit in [true, false] {
            let ops: Vec<String> = (1..=n).map(|a| if !credit && a % 3 == 0 { "R:7:1:8".to_string() } else { format!("A:0:{}", h(a)) }).collect();
            cases.push(format!("kind2=tmo kind={} len={} win=4 cap=8 pre={pre} t={} dl={} gapms={}",
                if credit { "credit" } else { "reconnect" }, if credit { 2 } else { 0 }, ops.join(";"), h(dl), h(gapms)));
        }
    }
    // and with no wake-up at all
    for credit in [true, false] {
        cases.push(format!("kind2=tmo kind={} len={} win=4 cap=8 pre={pre} t=- dl={} gapms=0",
            if credit { "credit" } else { "reconnect" }, if credit { 2 } else { 0 }, h(180)));
    }
    cases
}

fn main() {
    let cases = if no_gen() { vec![] } else {
        let mut rng = Rng::new(seed());
        let mut c = gen_histories(&mut rng, is_thorough());
        c.extend(gen_scheds(&mut rng, if is_thorough() { 10000 } else { 500 }));
        c.extend(gen_storms(&mut rng, is_thorough()));
        c.into_iter().enumerate().map(|(i, c)| format!("i={i} {c}")).collect()
    };
    isolated_main(cases, run_case, Duration::from_secs(40));
}
