//! C17 correspondence: the outbound size guard on every outbound path of the
//! WebSocket transport (inline / off-reader responses, handler and broadcast
//! notifies, proxied responses, client requests and notifies), observed from a
//! raw tungstenite peer that shares no framing code with repe.
use futures_util::{SinkExt, StreamExt};
use repe::tokio_tungstenite as tt;
use repe::{AsyncClient, AsyncServer, BodyFormat, NotifyBody, PeerRegistry, RepeError, Router, WebSocketClient, WebSocketLimits, WebSocketServer};
use repe_verif_harness::*;
use serde_json::{Value, json};
use std::future::Future;
use std::sync::atomic::{AtomicBool, AtomicUsize, Ordering};
use std::sync::{Arc, Condvar, Mutex, OnceLock};
use std::time::Duration;
use tokio::time::Instant;
use tt::tungstenite::Message as WsMsg;
use tt::tungstenite::protocol::WebSocketConfig;

type ClientWs = tt::WebSocketStream<tt::MaybeTlsStream<tokio::net::TcpStream>>;

const PATHS: &[&str] = &["inline", "offreader", "push", "broadcast", "proxy", "creq", "cnotify"];
/// every route / notify method used for the message under test is 2 bytes long
const QLEN: u64 = 2;
const T_CONN: Duration = Duration::from_secs(10);
const T_MSG: Duration = Duration::from_secs(20);
const GRACE: Duration = Duration::from_millis(200);
const T_CASE: Duration = Duration::from_secs(50);
/// exchanges per connection of a `conc` case
const CONC_REPS: u64 = 200;

fn hx(v: u64) -> String { format!("{v:x}") }
fn ph(s: &str) -> Option<u64> { u64::from_str_radix(s, 16).ok() }
fn clean(s: impl AsRef<str>) -> String { s.as_ref().chars().map(|c| if c.is_whitespace() { '_' } else { c }).collect() }
fn le64(b: &[u8]) -> u64 { let mut x = [0u8; 8]; x.copy_from_slice(&b[..8]); u64::from_le_bytes(x) }
fn le32(b: &[u8]) -> u32 { let mut x = [0u8; 4]; x.copy_from_slice(&b[..4]); u32::from_le_bytes(x) }

/// a REPE frame assembled by hand
fn frame(notify: u8, id: u64, qf: u16, bf: u16, ec: u32, q: &[u8], b: &[u8]) -> Vec<u8> {
    let mut f = Vec::with_capacity(48 + q.len() + b.len());
    f.extend_from_slice(&((48 + q.len() + b.len()) as u64).to_le_bytes());
    f.extend_from_slice(&0x1507u16.to_le_bytes());
    f.push(1);
    f.push(notify);
    f.extend_from_slice(&0u32.to_le_bytes());
    f.extend_from_slice(&id.to_le_bytes());
    f.extend_from_slice(&(q.len() as u64).to_le_bytes());
    f.extend_from_slice(&(b.len() as u64).to_le_bytes());
    f.extend_from_slice(&qf.to_le_bytes());
    f.extend_from_slice(&bf.to_le_bytes());
    f.extend_from_slice(&ec.to_le_bytes());
    f.extend_from_slice(q);
    f.extend_from_slice(b);
    f
}

/// deterministic non-constant raw body
fn pattern(n: usize) -> Vec<u8> { (0..n).map(|i| ((i as u32).wrapping_mul(2654435761) >> 24) as u8).collect() }
/// the JSON encoding of a string of n-2 'a' characters: exactly n bytes
fn json_string_body(n: usize) -> Vec<u8> {
    let mut v = Vec::with_capacity(n);
    v.push(b'"');
    v.resize(n - 1, b'a');
    v.push(b'"');
    v
}

fn big_cfg() -> WebSocketConfig {
    let mut c = WebSocketConfig::default();
    c.max_message_size = None;
    c.max_frame_size = None;
    c
}
/// the outbound guard depends on the assumed peer limit alone: the endpoint's own inbound
/// thresholds vary with the case (`v`): the defaults, none at all, or smaller than the assumed limit
fn limits_of(l: Option<u64>, v: u64, small_inbound_ok: bool) -> WebSocketLimits {
    match l {
        Some(n) => match v % 3 {
            1 => WebSocketLimits::unlimited().with_assumed_peer_frame_limit(Some(n as usize)),
            2 if small_inbound_ok => WebSocketLimits::default().with_max_incoming_frame_size(Some(512)).with_max_incoming_message_size(Some(512)).with_assumed_peer_frame_limit(Some(n as usize)),
            _ => WebSocketLimits::default().with_assumed_peer_frame_limit(Some(n as usize)),
        },
        None => WebSocketLimits::unlimited(),
    }
}

async fn to<F: Future>(d: Duration, what: &str, f: F) -> Result<F::Output, String> {
    tokio::time::timeout(d, f).await.map_err(|_| format!("timeout:{what}"))
}

struct Case { path: String, limit: Option<u64>, flen: u64, id: u64, qlen: Option<u64>, ec: u32, burst: bool, pipe: bool, quit: bool, park: bool, conc: u64, reps: u64, hist: u64, hlen: u64, upfail: u64 }

/// aborts the per-case server tasks when the case is over
struct Tasks(Vec<tokio::task::JoinHandle<()>>);
impl Drop for Tasks { fn drop(&mut self) { for t in &self.0 { t.abort(); } } }

fn sent_token(cands: &[Vec<u8>], expected: &[u8]) -> Result<String, String> {
    match cands {
        [] => Ok("none".into()),
        [m] => {
            let (id, ec) = if m.len() >= 48 { (le64(&m[16..24]), le32(&m[44..48])) } else { (0, 0) };
            Ok(format!("frame:{}:{}:{}:{}", hx(m.len() as u64), hx(id), hx(ec as u64), (m.as_slice() == expected) as u8))
        }
        more => Err(format!("extra-messages:{}:{}", more.len(), more.iter().map(|m| hx(m.len() as u64)).collect::<Vec<_>>().join(","))),
    }
}

// ---------------------------------------------------------------- server paths

/// The raw peer: every binary message that is not the response to one of the
/// `known` auxiliary requests is a candidate for the message under test.
struct Peer { ws: ClientWs, known: Vec<u64>, seen: Vec<(u64, Vec<u8>)>, cands: Vec<Vec<u8>>, dead: Option<String> }
impl Peer {
    fn saw(&self, id: u64) -> Option<&Vec<u8>> { self.seen.iter().find(|(i, _)| *i == id).map(|(_, b)| b) }
    async fn send(&mut self, f: Vec<u8>) -> Result<(), String> {
        to(T_CONN, "raw-send", self.ws.send(WsMsg::Binary(f))).await?.map_err(|e| format!("raw-send:{e}"))
    }
    fn count(&self, id: u64) -> usize { self.seen.iter().filter(|(i, _)| *i == id).count() }
    /// several messages handed to the socket in one write, so that the server's reader finds them together
    async fn send_together(&mut self, fs: Vec<Vec<u8>>) -> Result<(), String> {
        for f in fs { to(T_CONN, "raw-feed", self.ws.feed(WsMsg::Binary(f))).await?.map_err(|e| format!("raw-feed:{e}"))?; }
        to(T_CONN, "raw-flush", self.ws.flush()).await?.map_err(|e| format!("raw-flush:{e}"))
    }
    async fn pump(&mut self, until: Instant, done: impl Fn(&Peer) -> bool) {
        while self.dead.is_none() && !done(self) {
            let now = Instant::now();
            if now >= until { break; }
            match tokio::time::timeout(until - now, self.ws.next()).await {
                Err(_) => break,
                Ok(None) => self.dead = Some("closed".into()),
                Ok(Some(Err(e))) => self.dead = Some(e.to_string()),
                Ok(Some(Ok(WsMsg::Binary(b)))) => {
                    let b: Vec<u8> = b.into();
                    // the filler notifications of a burst case are not the message under test
                    let filler = b.len() >= 51 && b[11] != 0 && le64(&b[24..32]) == 3 && &b[48..51] == b"/q0";
                    if filler { continue; }
                    if b.len() >= 48 && b[11] == 0 && self.known.contains(&le64(&b[16..24])) { self.seen.push((le64(&b[16..24]), b)); } else { self.cands.push(b); }
                }
                Ok(Some(Ok(WsMsg::Close(_)))) => self.dead = Some("close-frame".into()),
                Ok(Some(Ok(_))) => {}
            }
        }
    }
}

async fn run_server_path(c: &Case) -> Result<String, String> {
    let is_notify = c.path == "push" || c.path == "broadcast";
    // the route of a response path: `/r` (inline, proxy) or `/b` (off-reader), or,
    // when the case carries `qlen`, `/` followed by a repeated character up to that length
    let route: String = match (c.path.as_str(), c.qlen) {
        (_, Some(n)) if is_notify || n < 8 => return Err("badcase:qlen".into()),
        ("offreader", Some(n)) => format!("/{}", "b".repeat(n as usize - 1)),
        (_, Some(n)) => format!("/{}", "r".repeat(n as usize - 1)),
        ("offreader", None) => "/b".into(),
        // burst: the inline handler first queues 40 small notifications, so that its response is
        // queued behind a backlog instead of reaching an idle writer
        ("inline", None) if c.burst => "/rb".into(),
        _ => "/r".into(),
    };
    if c.burst && route != "/rb" { return Err("badcase:burst".into()); }
    // pipe / quit: the two arrangements around a handler-pushed notify (see the message under test below)
    if (c.pipe || c.quit) && (c.path != "push" || (c.pipe && c.quit)) { return Err("badcase:pipe-quit".into()); }
    // hist: a history of `hist` earlier notifies of `hlen` bytes each on the same connection (see below)
    if c.hist != 0 && (!is_notify || c.pipe || c.quit || c.hist > 4096 || c.hlen < 48 + QLEN || c.hlen > (1 << 24)) { return Err("badcase:hist".into()); }
    if c.upfail != 0 { return Err("badcase:upfail".into()); }
    let tlen = if is_notify { QLEN } else { route.len() as u64 };
    if c.flen < 48 + tlen { return Err("badcase:flen-too-small".into()); }
    let blen = (c.flen - 48 - tlen) as usize;
    if !is_notify && blen < 2 { return Err("badcase:flen-too-small".into()); }
    if is_notify && c.id != 0 { return Err("badcase:notify-id".into()); }
    let limits = limits_of(c.limit, c.id ^ c.flen, c.qlen.is_none());
    let (trigger_id, marker_id, alive_id, prior_id, hist_id) = (c.id.wrapping_add(1), c.id.wrapping_add(2), c.id.wrapping_add(3), c.id.wrapping_add(4), c.id.wrapping_add(5));
    let token = repe::ShutdownToken::new();
    let hist_body = Arc::new(if c.hist != 0 { pattern((c.hlen - 48 - QLEN) as usize) } else { vec![] });
    // results of the history's pushes: (accepted, first refusal)
    let hist_res: Arc<Mutex<(u64, Option<String>)>> = Arc::new(Mutex::new((0, None)));
    let (hb, hr) = (hist_body.clone(), hist_res.clone());

    let notify_body = Arc::new(if is_notify { pattern(blen) } else { vec![] });
    let push_res: Arc<Mutex<Option<Result<(), String>>>> = Arc::new(Mutex::new(None));
    let (nb, pr) = (notify_body.clone(), push_res.clone());
    let (nb2, pr2, tk2) = (notify_body.clone(), push_res.clone(), token.clone());
    let rlen = if is_notify { 2 } else { blen };
    // ec != 0: the handler fails with that code; the error response's body is the message (UTF-8)
    let ec = c.ec;
    let code = if ec == 0 { None } else { Some(repe::ErrorCode::try_from(ec).map_err(|_| "badcase:ec".to_string())?) };
    if code.is_some() && is_notify { return Err("badcase:ec-on-notify".into()); }
    let answer = move || -> Result<Value, (repe::ErrorCode, String)> { match code { None => Ok(Value::String("a".repeat(rlen - 2))), Some(k) => Err((k, "e".repeat(rlen))) } };
    let (a1, a2, a3, a4) = (answer.clone(), answer.clone(), answer.clone(), answer.clone());
    let router = Router::new()
        .with_json("/k", |_| Ok(json!(1)))
        .with_json("/r", move |_| a1())
        .with_json_ctx("/rb", { let a5 = answer.clone(); move |ctx, _| {
            if let Some(p) = ctx.peer() { for i in 0..40u32 { let _ = p.send_notify("/q0", NotifyBody::Raw(vec![i as u8; 24], BodyFormat::RawBinary)); } }
            a5()
        } })
        .with_json_blocking("/b", move |_| a2())
        .with_json_ctx("/p", move |ctx, _| {
            let r = match ctx.peer() {
                Some(p) => p.send_notify("/n", NotifyBody::Raw((*nb).clone(), BodyFormat::RawBinary)).map_err(|e| e.to_string()),
                None => Err("no-peer".to_string()),
            };
            *pr.lock().unwrap() = Some(r);
            Ok(json!(1))
        })
        // hist: the handler pushes one notify of the history
        .with_json_ctx("/ph", move |ctx, _| {
            let r = match ctx.peer() {
                Some(p) => p.send_notify("/n", NotifyBody::Raw((*hb).clone(), BodyFormat::RawBinary)).map_err(|e| e.to_string()),
                None => Err("no-peer".to_string()),
            };
            let mut g = hr.lock().unwrap();
            match r { Ok(()) => g.0 += 1, Err(e) => { g.1.get_or_insert(e); } }
            Ok(json!(1))
        })
        // quit: the handler pushes the notify under test, asks for the shutdown of its own connection
        // (the ShutdownToken given to serve_connection_with_cancel) and answers: the outbound queue holds
        // [notify, small reply] at the moment the shutdown is requested
        .with_json_ctx("/pq", move |ctx, _| {
            let r = match ctx.peer() {
                Some(p) => p.send_notify("/n", NotifyBody::Raw((*nb2).clone(), BodyFormat::RawBinary)).map_err(|e| e.to_string()),
                None => Err("no-peer".to_string()),
            };
            *pr2.lock().unwrap() = Some(r);
            tk2.cancel();
            Ok(json!(1))
        });
    // the long route of this case (the router must know it before the server starts)
    let router = match (c.qlen, c.path.as_str()) {
        (None, _) => router,
        (Some(_), "offreader") => router.with_json_blocking(&route, move |_| a3()),
        (Some(_), _) => router.with_json(&route, move |_| a4()),
    };

    let too_large = Arc::new(AtomicUsize::new(0));
    let registry = PeerRegistry::new();
    let mut tasks = Tasks(vec![]);
    let addr;
    if c.path == "proxy" {
        let ul = AsyncServer::listen("127.0.0.1:0").await.map_err(|e| format!("upstream-bind:{e}"))?;
        let uaddr = ul.local_addr().map_err(|e| format!("upstream-addr:{e}"))?;
        let usrv = AsyncServer::new(router);
        tasks.0.push(tokio::spawn(async move { let _ = usrv.serve(ul).await; }));
        let upstream = to(T_CONN, "upstream-connect", AsyncClient::connect(uaddr)).await?.map_err(|e| format!("upstream-connect:{e}"))?;
        let l = tokio::net::TcpListener::bind("127.0.0.1:0").await.map_err(|e| format!("proxy-bind:{e}"))?;
        addr = l.local_addr().map_err(|e| format!("proxy-addr:{e}"))?;
        tasks.0.push(tokio::spawn(async move {
            if let Ok((s, _)) = l.accept().await {
                let _ = s.set_nodelay(true);
                if let Ok(ws) = tt::accept_async_with_config(s, Some(big_cfg())).await {
                    let _ = repe::websocket_server::proxy_connection_with_limits(ws, upstream, limits).await;
                }
            }
        }));
    } else if c.quit {
        // an embedder-owned accept loop: the connection is served through serve_connection_with_cancel
        let l = tokio::net::TcpListener::bind("127.0.0.1:0").await.map_err(|e| format!("ws-bind:{e}"))?;
        addr = l.local_addr().map_err(|e| format!("ws-addr:{e}"))?;
        let cnt = too_large.clone();
        let shared = WebSocketServer::new(router).with_limits(limits).with_peer_registry(registry.clone()).on_error(move |err| {
            if matches!(err, repe::ConnectionError::OutboundTooLarge { .. }) { cnt.fetch_add(1, Ordering::SeqCst); }
        }).into_shared();
        let tk = token.clone();
        tasks.0.push(tokio::spawn(async move {
            if let Ok((s, _)) = l.accept().await {
                let _ = s.set_nodelay(true);
                if let Ok(ws) = shared.accept(s, "/repe").await { let _ = shared.serve_connection_with_cancel(ws, &tk).await; }
            }
        }));
    } else {
        let l = WebSocketServer::listen("127.0.0.1:0").await.map_err(|e| format!("ws-bind:{e}"))?;
        addr = l.local_addr().map_err(|e| format!("ws-addr:{e}"))?;
        let cnt = too_large.clone();
        let srv = WebSocketServer::new(router).with_limits(limits).with_peer_registry(registry.clone()).on_error(move |err| {
            if matches!(err, repe::ConnectionError::OutboundTooLarge { .. }) { cnt.fetch_add(1, Ordering::SeqCst); }
        });
        tasks.0.push(tokio::spawn(async move { let _ = srv.serve_listener(l, "/repe").await; }));
    }

    let (ws, _) = to(T_CONN, "raw-connect", tt::connect_async_with_config(format!("ws://{addr}/repe"), Some(big_cfg()), true)).await?.map_err(|e| format!("raw-connect:{e}"))?;
    let mut peer = Peer { ws, known: vec![trigger_id, marker_id, alive_id, prior_id, hist_id], seen: vec![], cands: vec![], dead: None };
    let small_reply = |id: u64, route: &[u8]| frame(0, id, 1, 2, 0, route, b"1");

    if c.quit {
        // ordinary traffic first, then the request whose handler queues [notify under test, small reply] and
        // requests the shutdown. "Messages at or below the limit are delivered unchanged" and a dropped
        // notification leaves the connection usable: whether the notify is delivered (at or below the limit)
        // or dropped (above), the handler's own small reply, queued behind it before the shutdown was
        // requested, must reach the peer before the close frame; `alive` reports exactly that.
        peer.send(frame(0, marker_id, 1, 2, 0, b"/k", b"null")).await?;
        peer.pump(Instant::now() + T_CONN, |p| p.saw(marker_id).is_some()).await;
        let first = peer.saw(marker_id).is_some_and(|r| r.as_slice() == small_reply(marker_id, b"/k").as_slice());
        peer.send(frame(0, trigger_id, 1, 2, 0, b"/pq", b"null")).await?;
        // everything the server sends until it closes the connection
        peer.pump(Instant::now() + T_MSG, |_| false).await;
        match push_res.lock().unwrap().clone() {
            Some(Ok(())) => {}
            Some(Err(e)) => return Err(format!("push-send:{e}")),
            None => return Err(format!("push-handler-not-run:dead={}", peer.dead.clone().unwrap_or_default())),
        }
        let reply = peer.saw(trigger_id).is_some_and(|r| r.as_slice() == small_reply(trigger_id, b"/pq").as_slice());
        let sent = sent_token(&peer.cands, &frame(1, 0, 1, 0, 0, b"/n", &notify_body))?;
        let n = too_large.load(Ordering::SeqCst);
        let mut obs = format!("sent={} rep={} alive={}", sent, (n > 0) as u8, (first && reply) as u8);
        if n > 1 { obs.push_str(&format!(" repn={}", hx(n as u64))); }
        if !first { obs.push_str(" lost=first"); }
        if !reply { obs.push_str(" lost=reply"); }
        match &peer.dead { Some(d) => obs.push_str(&format!(" dead={}", clean(d))), None => obs.push_str(" noclose=1") }
        return Ok(obs);
    }
    let mut prior_ok = true;

    // hist=N hlen=H: before the message under test the same connection carries N notifies of H bytes each
    // (handler-pushed for path=push, registry broadcasts for path=broadcast), one at a time: each is followed
    // by a small exchange whose reply is queued behind it, so the outbound queue is empty again before the
    // next one. Every notify of the history is an instance of the property as well ("an oversized
    // notification is dropped and reported", "messages at or below the limit are delivered unchanged"): the
    // accepted ones must all have been dropped and reported (H above the limit) or delivered unchanged and
    // not reported (otherwise). The message under test is then an ordinary case of the model: the reports
    // counted for it are those after the history.
    let mut notes = String::new();
    if c.hist != 0 {
        let hexpected = frame(1, 0, 1, 0, 0, b"/n", &hist_body);
        if c.path == "broadcast" {
            let t0 = Instant::now();
            while registry.len() != 1 {
                if t0.elapsed() > T_CONN { return Err(format!("registry-len:{}", registry.len())); }
                tokio::time::sleep(Duration::from_millis(2)).await;
            }
        }
        for j in 0..c.hist as usize {
            if c.path == "broadcast" {
                let res = registry.broadcast_notify_raw("/n", BodyFormat::RawBinary, &hist_body);
                if res.len() != 1 { return Err(format!("history-broadcast-peers:{}", res.len())); }
                let mut g = hist_res.lock().unwrap();
                match res.into_values().next() { Some(Ok(())) => g.0 += 1, Some(Err(e)) => { g.1.get_or_insert(e.to_string()); } None => {} }
                drop(g);
                peer.send(frame(0, hist_id, 1, 2, 0, b"/k", b"null")).await?;
            } else {
                peer.send(frame(0, hist_id, 1, 2, 0, b"/ph", b"null")).await?;
            }
            peer.pump(Instant::now() + T_MSG, |p| p.count(hist_id) > j).await;
            if peer.count(hist_id) <= j { return Err(format!("history-no-reply:{j}:dead={}", peer.dead.clone().unwrap_or_default())); }
        }
        let (accepted, refused) = hist_res.lock().unwrap().clone();
        let reports = too_large.load(Ordering::SeqCst) as u64;
        let hover = c.limit.is_some_and(|l| c.hlen > l);
        if hover {
            if !peer.cands.is_empty() { return Err(format!("history-oversized-notify-sent:{}", peer.cands.iter().map(|m| hx(m.len() as u64)).collect::<Vec<_>>().join(","))); }
            if reports != accepted { return Err(format!("history-reports:{}-for-{}-dropped", hx(reports), hx(accepted))); }
        } else {
            if peer.cands.len() as u64 != accepted || peer.cands.iter().any(|m| *m != hexpected) { return Err(format!("history-delivery:{}-messages-for-{}-notifies", hx(peer.cands.len() as u64), hx(accepted))); }
            if reports != 0 { return Err(format!("history-reports:{}-for-0-dropped", hx(reports))); }
        }
        peer.cands.clear();
        // a push of the history that the connection did not accept is not judged by itself (noted only)
        if let Some(e) = refused { notes.push_str(&format!(" hacc={} href={}", hx(accepted), clean(e))); }
    }
    let reports_before = too_large.load(Ordering::SeqCst);
    // hist cases: a message under test that the connection does not accept is an observation (nothing sent)
    let mut not_accepted: Option<String> = None;

    // the message under test
    let expected: Vec<u8> = match c.path.as_str() {
        "inline" | "proxy" | "offreader" => {
            peer.send(frame(0, c.id, 1, 2, 0, route.as_bytes(), b"null")).await?;
            if c.ec == 0 { frame(0, c.id, 1, 2, 0, route.as_bytes(), &json_string_body(blen)) }
            // an error response is built by create_error_response_like: the request's query is echoed
            // but the query-format field keeps the builder's default (0)
            else { frame(0, c.id, 0, BodyFormat::Utf8 as u16, c.ec, route.as_bytes(), "e".repeat(blen).as_bytes()) }
        }
        "push" if c.pipe => {
            // one write carries [request with a small reply, notify-request whose handler pushes the notify
            // under test]: the reader queues the small reply and the notify back to back. Nothing else is
            // sent until that small reply has arrived: a message at or below the limit is delivered whether
            // or not the message queued behind it is refused, also on a connection that then stays idle.
            peer.send_together(vec![frame(0, prior_id, 1, 2, 0, b"/k", b"null"), frame(1, trigger_id, 1, 2, 0, b"/p", b"null")]).await?;
            peer.pump(Instant::now() + T_CONN, |p| p.saw(prior_id).is_some()).await;
            prior_ok = peer.saw(prior_id).is_some_and(|r| r.as_slice() == small_reply(prior_id, b"/k").as_slice());
            frame(1, 0, 1, 0, 0, b"/n", &notify_body)
        }
        "push" => { peer.send(frame(0, trigger_id, 1, 2, 0, b"/p", b"null")).await?; frame(1, 0, 1, 0, 0, b"/n", &notify_body) }
        "broadcast" => {
            let t0 = Instant::now();
            while registry.len() != 1 {
                if t0.elapsed() > T_CONN { return Err(format!("registry-len:{}", registry.len())); }
                tokio::time::sleep(Duration::from_millis(2)).await;
            }
            let res = registry.broadcast_notify_raw("/n", BodyFormat::RawBinary, &notify_body);
            if res.len() != 1 { return Err(format!("broadcast-peers:{}", res.len())); }
            if let Some(Err(e)) = res.values().next() { if c.hist != 0 { not_accepted = Some(e.to_string()); } else { return Err(format!("broadcast-send:{e}")); } }
            frame(1, 0, 1, 0, 0, b"/n", &notify_body)
        }
        other => return Err(format!("badcase:path:{other}")),
    };
    // marker: a later small exchange on the same connection. All outbound
    // messages of a connection go through one FIFO writer queue, except that an
    // off-reader response is enqueued whenever its blocking thread finishes, so
    // for response paths also wait for the message carrying the test id.
    peer.send(frame(0, marker_id, 1, 2, 0, b"/k", b"null")).await?;
    let need_test = !is_notify;
    peer.pump(Instant::now() + T_MSG, |p| p.saw(marker_id).is_some() && (!need_test || !p.cands.is_empty())).await;
    peer.pump(Instant::now() + GRACE, |_| false).await;
    // alive: one more small round trip
    let mut alive = false;
    if peer.dead.is_none() && peer.send(frame(0, alive_id, 1, 2, 0, b"/k", b"null")).await.is_ok() {
        peer.pump(Instant::now() + T_CONN, |p| p.saw(alive_id).is_some()).await;
        alive = peer.saw(alive_id).is_some_and(|r| r.as_slice() == frame(0, alive_id, 1, 2, 0, b"/k", b"1").as_slice());
    }
    if c.path == "push" {
        match push_res.lock().unwrap().clone() {
            Some(Ok(())) => {}
            Some(Err(e)) if c.hist != 0 => not_accepted = Some(e),
            Some(Err(e)) => return Err(format!("push-send:{e}")),
            None => return Err(format!("push-handler-not-run:dead={}", peer.dead.clone().unwrap_or_default())),
        }
    }
    let sent = sent_token(&peer.cands, &expected)?;
    let n = too_large.load(Ordering::SeqCst) - reports_before;
    let mut obs = format!("sent={} rep={} alive={}", sent, (n > 0) as u8, (alive && prior_ok) as u8);
    if n > 1 { obs.push_str(&format!(" repn={}", hx(n as u64))); }
    if !prior_ok { obs.push_str(" stuck=prior"); }
    if let Some(e) = &not_accepted { obs.push_str(&format!(" refused={}", clean(e))); }
    obs.push_str(&notes);
    if let Some(d) = &peer.dead { obs.push_str(&format!(" dead={}", clean(d))); }
    Ok(obs)
}

/// `path=proxy upfail=K qlen=Q`: the proxy's upstream fails underneath a request in flight. The upstream is
/// a raw TCP listener that never answers: it closes the connection after reading the request's 48-byte
/// header (K=1), after reading the whole request (K=2), after reading the whole request and writing the
/// first 20 bytes of a response (K=3), or as soon as it has accepted, without reading (K=4). The request
/// carries a query of Q bytes (the assumed peer limit bounds what the proxy SENDS downstream, not what it
/// receives). The model does not describe a failing upstream, so nothing is required of the proxy here
/// (an answer, a close, a dropped socket) except what the property says of every moment: "no binary
/// message larger than the limit is ever sent by a server, proxy or client". The observation is the list
/// of the sizes of all binary messages the raw downstream peer received until the connection ended.
async fn run_proxy_upfail(c: &Case) -> Result<String, String> {
    // the downstream handshake is performed by tungstenite on both sides (the proxy function is given the
    // upgraded stream): a failure to connect there happens before the scenario starts and involves no code
    // of the crate, so the scenario is simply set up again
    for _ in 0..2 {
        match run_proxy_upfail_once(c).await { Err(e) if e.starts_with("raw-connect:") => tokio::time::sleep(Duration::from_millis(50)).await, r => return r }
    }
    run_proxy_upfail_once(c).await
}
async fn run_proxy_upfail_once(c: &Case) -> Result<String, String> {
    use tokio::io::{AsyncReadExt, AsyncWriteExt};
    if c.path != "proxy" || !(1..=4).contains(&c.upfail) || c.ec != 0 || c.burst || c.pipe || c.quit || c.park || c.conc != 0 || c.hist != 0 { return Err("badcase:upfail".into()); }
    let Some(qlen) = c.qlen else { return Err("badcase:upfail-qlen".into()) };
    if !(2..=(1 << 24)).contains(&qlen) { return Err("badcase:upfail-qlen".into()); }
    let route = format!("/{}", "r".repeat(qlen as usize - 1));
    let limits = limits_of(c.limit, c.id ^ c.flen, false);
    let mut tasks = Tasks(vec![]);
    let ul = tokio::net::TcpListener::bind("127.0.0.1:0").await.map_err(|e| format!("upstream-bind:{e}"))?;
    let uaddr = ul.local_addr().map_err(|e| format!("upstream-addr:{e}"))?;
    let mode = c.upfail;
    tasks.0.push(tokio::spawn(async move {
        let Ok((mut s, _)) = ul.accept().await else { return };
        if mode == 4 { return; }
        let mut h = [0u8; 48];
        if s.read_exact(&mut h).await.is_err() || mode == 1 { return; }
        let rest = le64(&h[0..8]).saturating_sub(48).min(1 << 26) as usize;
        let mut buf = vec![0u8; rest];
        if s.read_exact(&mut buf).await.is_err() || mode == 2 { return; }
        let reply = frame(0, le64(&h[16..24]), 1, 2, 0, b"/r", b"1");
        let _ = s.write_all(&reply[..20]).await;
        let _ = s.flush().await;
    }));
    let upstream = to(T_CONN, "upstream-connect", AsyncClient::connect(uaddr)).await?.map_err(|e| format!("upstream-connect:{e}"))?;
    let l = tokio::net::TcpListener::bind("127.0.0.1:0").await.map_err(|e| format!("proxy-bind:{e}"))?;
    let addr = l.local_addr().map_err(|e| format!("proxy-addr:{e}"))?;
    let returned: Arc<Mutex<Option<String>>> = Arc::new(Mutex::new(None));
    let rt = returned.clone();
    tasks.0.push(tokio::spawn(async move {
        if let Ok((s, _)) = l.accept().await {
            let _ = s.set_nodelay(true);
            if let Ok(ws) = tt::accept_async_with_config(s, Some(big_cfg())).await {
                let r = repe::websocket_server::proxy_connection_with_limits(ws, upstream, limits).await;
                *rt.lock().unwrap() = Some(match r { Ok(()) => "ok".to_string(), Err(e) => format!("err:{e}") });
            }
        }
    }));
    let (ws, _) = to(T_CONN, "raw-connect", tt::connect_async_with_config(format!("ws://{addr}/repe"), Some(big_cfg()), true)).await?.map_err(|e| format!("raw-connect:{e}"))?;
    let mut peer = Peer { ws, known: vec![], seen: vec![], cands: vec![], dead: None };
    peer.send(frame(0, c.id, 1, 2, 0, route.as_bytes(), b"null")).await?;
    // everything the proxy sends until the connection ends (or nothing more for T_MSG)
    peer.pump(Instant::now() + T_MSG, |_| false).await;
    let sizes: Vec<u64> = peer.cands.iter().map(|m| m.len() as u64).collect();
    let mut obs = format!("msgs={} max={}", hx(sizes.len() as u64), hx(sizes.iter().copied().max().unwrap_or(0)));
    if !sizes.is_empty() { obs.push_str(&format!(" sizes={}", sizes.iter().map(|s| hx(*s)).collect::<Vec<_>>().join(","))); }
    match &peer.dead { Some(d) => obs.push_str(&format!(" dead={}", clean(d))), None => obs.push_str(" noclose=1") }
    if let Some(r) = returned.lock().unwrap().clone() { obs.push_str(&format!(" proxy={}", clean(r))); }
    Ok(obs)
}

/// A `quit` case performs its scenario QUIT_ROUNDS times, each on a fresh server, connection and token
/// (the order in which the connection task looks at its reader and at the cancellation is drawn by
/// `tokio::select!` each time). The rounds are instances of one abstract case: they must all show the
/// same message, report and liveness.
const QUIT_ROUNDS: usize = 12;
async fn run_quit_rounds(c: &Case) -> Result<String, String> {
    let key = |o: &str| o.split(' ').take(3).collect::<Vec<_>>().join(" ");
    let mut first: Option<String> = None;
    for r in 0..QUIT_ROUNDS {
        let obs = run_server_path(c).await?;
        match &first {
            None => first = Some(obs),
            Some(f) if key(f) == key(&obs) => {}
            Some(f) => return Err(format!("quit-rounds-differ:round0:{f}|round{r}:{obs}")),
        }
    }
    first.ok_or_else(|| "quit-no-round".to_string())
}

// ---------------------------------------------------------------- many connections at once

fn conc_runtime() -> &'static tokio::runtime::Runtime {
    static RT: OnceLock<tokio::runtime::Runtime> = OnceLock::new();
    RT.get_or_init(|| tokio::runtime::Builder::new_multi_thread().worker_threads(8).enable_all().build().unwrap())
}

/// `conc=K reps=M`: K connections of ONE server perform, at the same time, M exchanges each; every
/// exchange is an instance of the case (an inline response, or a handler-pushed notify, of `flen` bytes).
/// The K*M instances are instances of one abstract case, so they must all be observed alike: the same
/// message (or none) for each, and a report for each or for none. The error hook does what a logging
/// hook does: it renders the event and appends the line to a shared log.
async fn run_conc(c: &Case) -> Result<String, String> {
    let is_notify = c.path == "push";
    if !is_notify && c.path != "inline" { return Err("badcase:conc-path".into()); }
    if c.qlen.is_some() || c.ec != 0 || c.burst || c.pipe || c.quit || c.park { return Err("badcase:conc-switch".into()); }
    let (k, m) = (c.conc as usize, c.reps as usize);
    if !(2..=32).contains(&k) || !(1..=4096).contains(&m) { return Err("badcase:conc-size".into()); }
    if c.flen < 48 + QLEN + 2 { return Err("badcase:flen-too-small".into()); }
    if is_notify && c.id != 0 { return Err("badcase:notify-id".into()); }
    let blen = (c.flen - 48 - QLEN) as usize;
    let limits = limits_of(c.limit, c.id ^ c.flen, true);
    let (trigger_id, marker_id, alive_id) = (c.id.wrapping_add(1), c.id.wrapping_add(2), c.id.wrapping_add(3));
    let notify_body = Arc::new(if is_notify { pattern(blen) } else { vec![] });
    let push_err: Arc<Mutex<Option<String>>> = Arc::new(Mutex::new(None));
    let pushes = Arc::new(AtomicUsize::new(0));
    let (nb, pe, pc) = (notify_body.clone(), push_err.clone(), pushes.clone());
    let router = Router::new()
        .with_json("/k", |_| Ok(json!(1)))
        .with_json("/r", move |_| Ok(Value::String("a".repeat(blen - 2))))
        .with_json_ctx("/p", move |ctx, _| {
            let r = match ctx.peer() {
                Some(p) => p.send_notify("/n", NotifyBody::Raw((*nb).clone(), BodyFormat::RawBinary)).map_err(|e| e.to_string()),
                None => Err("no-peer".to_string()),
            };
            match r { Ok(()) => { pc.fetch_add(1, Ordering::SeqCst); } Err(e) => { pe.lock().unwrap().get_or_insert(e); } }
            Ok(json!(1))
        });
    let log: Arc<Mutex<Vec<String>>> = Arc::new(Mutex::new(vec![]));
    let lg = log.clone();
    let l = WebSocketServer::listen("127.0.0.1:0").await.map_err(|e| format!("ws-bind:{e}"))?;
    let addr = l.local_addr().map_err(|e| format!("ws-addr:{e}"))?;
    let srv = WebSocketServer::new(router).with_limits(limits).on_error(move |err| {
        if let repe::ConnectionError::OutboundTooLarge { .. } = err {
            let line = format!("{:?} code={:?} {err}", std::time::SystemTime::now(), err.error_code());
            lg.lock().unwrap().push(line);
        }
    });
    let _tasks = Tasks(vec![tokio::spawn(async move { let _ = srv.serve_listener(l, "/repe").await; })]);

    let barrier = Arc::new(tokio::sync::Barrier::new(k));
    let request = if is_notify { frame(0, trigger_id, 1, 2, 0, b"/p", b"null") } else { frame(0, c.id, 1, 2, 0, b"/r", b"null") };
    let mut workers = Vec::new();
    for _ in 0..k {
        let (barrier, request) = (barrier.clone(), request.clone());
        workers.push(tokio::spawn(async move {
            let conn = to(T_CONN, "raw-connect", tt::connect_async_with_config(format!("ws://{addr}/repe"), Some(big_cfg()), true)).await;
            let mut peer = match conn { Ok(Ok((ws, _))) => Ok(Peer { ws, known: vec![trigger_id, marker_id, alive_id], seen: vec![], cands: vec![], dead: None }), Ok(Err(e)) => Err(format!("raw-connect:{e}")), Err(e) => Err(e) };
            // first half: the connections start every round together (a connection that has failed keeps
            // attending the barrier, so that the others are not held up); second half: each at its own pace
            let mut failed: Option<String> = peer.as_ref().err().cloned();
            for j in 0..m {
                if j < m.div_ceil(2) { barrier.wait().await; }
                let Ok(peer) = peer.as_mut() else { continue };
                if failed.is_some() { continue; }
                if let Err(e) = peer.send(request.clone()).await { failed = Some(e); continue; }
                if is_notify {
                    peer.pump(Instant::now() + T_MSG, |p| p.count(trigger_id) > j).await;
                    if peer.count(trigger_id) <= j { failed = Some(format!("conc-no-trigger-reply:{j}:dead={}", peer.dead.clone().unwrap_or_default())); }
                } else {
                    peer.pump(Instant::now() + T_MSG, |p| p.cands.len() > j).await;
                    if peer.cands.len() <= j { failed = Some(format!("conc-no-response:{j}:dead={}", peer.dead.clone().unwrap_or_default())); }
                }
            }
            if let Some(e) = failed { return Err(e); }
            let peer = peer.as_mut().map_err(|e| e.clone())?;
            peer.send(frame(0, marker_id, 1, 2, 0, b"/k", b"null")).await?;
            peer.pump(Instant::now() + T_MSG, |p| p.saw(marker_id).is_some()).await;
            peer.pump(Instant::now() + GRACE, |_| false).await;
            let mut alive = false;
            if peer.dead.is_none() && peer.send(frame(0, alive_id, 1, 2, 0, b"/k", b"null")).await.is_ok() {
                peer.pump(Instant::now() + T_CONN, |p| p.saw(alive_id).is_some()).await;
                alive = peer.saw(alive_id).is_some_and(|r| r.as_slice() == frame(0, alive_id, 1, 2, 0, b"/k", b"1").as_slice());
            }
            Ok::<_, String>((std::mem::take(&mut peer.cands), alive, peer.dead.clone()))
        }));
    }
    let expected = if is_notify { frame(1, 0, 1, 0, 0, b"/n", &notify_body) } else { frame(0, c.id, 1, 2, 0, b"/r", &json_string_body(blen)) };
    let (mut token, mut all_alive, mut dead): (Option<String>, bool, Option<String>) = (None, true, None);
    for w in workers {
        let (cands, alive, d) = w.await.map_err(|_| "conc-worker-panicked".to_string())??;
        all_alive &= alive;
        if d.is_some() { dead = d; }
        // one token per instance of this connection
        let tokens: Vec<String> = if cands.is_empty() { vec!["none".to_string(); m] }
            else if cands.len() == m { cands.iter().map(|x| sent_token(std::slice::from_ref(x), &expected)).collect::<Result<_, _>>()? }
            else { return Err(format!("conc-instances-differ:{}-messages-for-{m}-instances", cands.len())); };
        for t in tokens {
            match &token { None => token = Some(t), Some(t0) if *t0 == t => {}, Some(t0) => return Err(format!("conc-instances-differ:{t0}|{t}")) }
        }
    }
    if let Some(e) = push_err.lock().unwrap().clone() { return Err(format!("push-send:{e}")); }
    if is_notify && pushes.load(Ordering::SeqCst) != k * m { return Err(format!("push-handler-runs:{}", pushes.load(Ordering::SeqCst))); }
    let (n, total) = (log.lock().unwrap().len(), k * m);
    // a report for every instance, for none, or for some of them only
    let rep = if n == 0 { "0".to_string() } else if n == total { "1".to_string() } else { format!("mixed:{}/{}", hx(n as u64), hx(total as u64)) };
    let mut obs = format!("sent={} rep={} alive={} inst={}", token.unwrap_or_else(|| "none".into()), rep, all_alive as u8, hx(total as u64));
    if let Some(d) = &dead { obs.push_str(&format!(" dead={}", clean(d))); }
    Ok(obs)
}

// ---------------------------------------------------------------- client paths

/// A JSON string of exactly `n` bytes whose serialisation parks until `go`: the caller is held between
/// taking its request id and the outbound guard, by nothing but a slow `Serialize` implementation.
struct Parked { n: usize, entered: Arc<AtomicBool>, go: Arc<(Mutex<bool>, Condvar)> }
impl serde::Serialize for Parked {
    fn serialize<S: serde::Serializer>(&self, ser: S) -> Result<S::Ok, S::Error> {
        self.entered.store(true, Ordering::SeqCst);
        let (m, cv) = &*self.go;
        let g = m.lock().unwrap();
        let _g = cv.wait_timeout_while(g, T_MSG, |go| !*go).unwrap();
        drop(_g);
        ser.serialize_str(&"a".repeat(self.n - 2))
    }
}
async fn wait_flag(f: &AtomicBool, what: &str) -> Result<(), String> {
    let t0 = Instant::now();
    while !f.load(Ordering::SeqCst) {
        if t0.elapsed() > T_CONN { return Err(format!("timeout:{what}")); }
        tokio::time::sleep(Duration::from_millis(1)).await;
    }
    Ok(())
}

async fn run_client_path(c: &Case) -> Result<String, String> {
    let is_notify = c.path == "cnotify";
    let blen = (c.flen - 48 - QLEN) as usize;
    if c.id == 0 || c.id > 64 { return Err("badcase:client-id".into()); }
    if c.qlen.is_some() { return Err("badcase:qlen".into()); }
    if c.park && blen < 2 { return Err("badcase:flen-too-small".into()); }
    let body = pattern(blen);
    // park: a second call (`/h`) is held in flight by the raw server until `release`
    let (h_seen, release) = (Arc::new(AtomicBool::new(false)), Arc::new(tokio::sync::Notify::new()));
    let (hs, rl) = (h_seen.clone(), release.clone());
    let recorded: Arc<Mutex<Vec<Vec<u8>>>> = Arc::new(Mutex::new(vec![]));
    let mut tasks = Tasks(vec![]);
    let l = tokio::net::TcpListener::bind("127.0.0.1:0").await.map_err(|e| format!("raw-bind:{e}"))?;
    let addr = l.local_addr().map_err(|e| format!("raw-addr:{e}"))?;
    let rec = recorded.clone();
    // raw server: records every binary message; answers each request with a small response
    tasks.0.push(tokio::spawn(async move {
        let Ok((s, _)) = l.accept().await else { return };
        let _ = s.set_nodelay(true);
        let Ok(mut ws) = tt::accept_async_with_config(s, Some(big_cfg())).await else { return };
        let mut held: Option<Vec<u8>> = None;
        loop {
            let m = tokio::select! {
                _ = rl.notified(), if held.is_some() => {
                    if let Some(r) = held.take() { if ws.send(WsMsg::Binary(r)).await.is_err() { break; } }
                    continue;
                }
                m = ws.next() => match m { Some(Ok(m)) => m, _ => break },
            };
            match m {
                WsMsg::Binary(b) => {
                    let b: Vec<u8> = b.into();
                    let mut hold = false;
                    let reply = if b.len() >= 48 && b[11] == 0 {
                        let ql = le64(&b[24..32]);
                        let q = if ql <= (b.len() - 48) as u64 { &b[48..48 + ql as usize] } else { &b[48..48] };
                        hold = q == b"/h";
                        Some(frame(0, le64(&b[16..24]), 1, 2, 0, q, b"1"))
                    } else { None };
                    rec.lock().unwrap().push(b);
                    if hold { held = reply; hs.store(true, Ordering::SeqCst); }
                    else if let Some(r) = reply { if ws.send(WsMsg::Binary(r)).await.is_err() { break; } }
                }
                WsMsg::Close(_) => break,
                _ => {}
            }
        }
    }));
    let client = to(T_CONN, "client-connect", WebSocketClient::connect_with_limits(&format!("ws://{addr}/repe"), limits_of(c.limit, c.id ^ c.flen, true))).await?.map_err(|e| format!("client-connect:{e}"))?;
    // the client numbers its messages 1, 2, ...: id-1 small calls make the
    // message under test carry exactly the id of the case
    for k in 1..c.id {
        match to(T_CONN, "pre-call", client.call_json("/k", &json!(1))).await? { Ok(v) if v == json!(1) => {} Ok(v) => return Err(format!("pre-call:{k}:value:{v}")), Err(e) => return Err(format!("pre-call:{k}:{e}")) }
    }
    let mut in_flight = None;
    let res: Result<(), RepeError> = if c.park {
        // The message under test is built from a value whose serialisation is slow (parked): its caller has
        // taken its request id and not yet reached the outbound guard when a second, ordinary call is started
        // and reaches the server, where it stays unanswered for now. Then the first call goes on (is sent, or
        // refused locally). "In every case the connection stays usable": a third, small call made at that
        // moment must succeed, and the call in flight must complete normally once it is answered.
        let (entered, go) = (Arc::new(AtomicBool::new(false)), Arc::new((Mutex::new(false), Condvar::new())));
        let value = Parked { n: blen, entered: entered.clone(), go: go.clone() };
        let cl = client.clone();
        let a = tokio::spawn(async move { if is_notify { cl.notify_json("/n", &value).await } else { cl.call_json("/r", &value).await.map(|_| ()) } });
        let started = wait_flag(&entered, "park:serialisation-not-started").await;
        let cl = client.clone();
        let b = tokio::spawn(async move { cl.call_json("/h", &json!(1)).await });
        let reached = match started { Ok(()) => wait_flag(&h_seen, "park:second-call-not-on-the-wire").await, e => e };
        *go.0.lock().unwrap() = true;
        go.1.notify_all();
        in_flight = Some(b);
        let r = to(T_MSG, "client-parked", a).await?.map_err(|_| "park:caller-panicked".to_string())?;
        reached?;
        r
    } else if is_notify {
        to(T_MSG, "client-notify", client.notify_with_formats("/n", 1, Some(&body), 0)).await?
    } else {
        to(T_MSG, "client-call", client.call_with_formats("/r", 1, Some(&body), 0)).await?.map(|_| ())
    };
    let rep = match res { Ok(()) => 0, Err(RepeError::MessageTooLarge { .. }) => 1, Err(e) => return Err(format!("client-send:{e}")) };
    let third = tokio::time::timeout(T_CONN, client.call_json("/k", &json!(1))).await;
    let mut alive = matches!(&third, Ok(Ok(v)) if *v == json!(1));
    let mut notes = String::new();
    if c.park && !alive { notes.push_str(&format!(" third={}", clean(match &third { Ok(Ok(v)) => format!("value:{v}"), Ok(Err(e)) => e.to_string(), Err(_) => "timeout".into() }))); }
    if let Some(b) = in_flight {
        release.notify_one();
        let second = tokio::time::timeout(T_CONN, b).await;
        let ok = matches!(&second, Ok(Ok(Ok(v))) if *v == json!(1));
        if !ok { alive = false; notes.push_str(&format!(" second={}", clean(match &second { Ok(Ok(Ok(v))) => format!("value:{v}"), Ok(Ok(Err(e))) => e.to_string(), Ok(Err(_)) => "panicked".into(), Err(_) => "timeout".into() }))); }
    }
    tokio::time::sleep(GRACE).await;
    let all = recorded.lock().unwrap().clone();
    let small = |m: &Vec<u8>| m.len() == 48 + 2 + 1 && &m[48..50] == b"/k" && m[11] == 0;
    // the held call of a park case is auxiliary traffic like the small calls
    let held = |m: &Vec<u8>| c.park && m.len() == 48 + 2 + 1 && &m[48..50] == b"/h" && m[11] == 0;
    let nsmall = all.iter().filter(|m| small(m)).count() as u64;
    let nheld = all.iter().filter(|m| held(m)).count() as u64;
    let cands: Vec<Vec<u8>> = all.into_iter().filter(|m| !small(m) && !held(m)).collect();
    let expected = if c.park { frame(is_notify as u8, c.id, 1, 2, 0, if is_notify { b"/n" } else { b"/r" }, &json_string_body(blen)) }
        else { frame(is_notify as u8, c.id, 1, 0, 0, if is_notify { b"/n" } else { b"/r" }, &body) };
    let sent = sent_token(&cands, &expected)?;
    let cid = match cands.first() { Some(m) if m.len() >= 48 => hx(le64(&m[16..24])), _ => "-".into() };
    let mut obs = format!("sent={} rep={} alive={} cid={}", sent, rep, alive as u8, cid);
    if alive && nsmall != c.id { obs.push_str(&format!(" smallcalls={}", hx(nsmall))); }
    if c.park && nheld != 1 { obs.push_str(&format!(" heldcalls={}", hx(nheld))); }
    obs.push_str(&notes);
    Ok(obs)
}

fn run_case(line: &str) -> String {
    let f = fields(line);
    let parsed = (|| -> Option<Case> {
        let limit = match f.get("limit")?.as_str() { "-" => None, s => Some(ph(s)?) };
        let qlen = match f.get("qlen") { Some(s) => Some(ph(s)?), None => None };
        let flag = |k: &str| f.get(k).map(|b| b == "1").unwrap_or(false);
        let num = |k: &str| match f.get(k) { Some(s) => ph(s), None => Some(0) };
        Some(Case { path: f.get("path")?.clone(), limit, flen: ph(f.get("flen")?)?, id: ph(f.get("id")?)?, qlen, ec: f.get("ec").and_then(|e| ph(e)).unwrap_or(0) as u32, burst: flag("burst"),
                    pipe: flag("pipe"), quit: flag("quit"), park: flag("park"), conc: num("conc")?, reps: num("reps")?, hist: num("hist")?, hlen: num("hlen")?, upfail: num("upfail")? })
    })();
    let Some(c) = parsed else { return "crash=badcase:parse".into() };
    if c.flen < 48 + QLEN || c.flen > (1 << 31) { return "crash=badcase:flen".into(); }
    let r = guard(move || {
        let is_client = c.path == "creq" || c.path == "cnotify";
        if c.park && !is_client { return Err("badcase:park".to_string()); }
        let (single, conc) = (c.pipe || c.quit, c.conc != 0);
        let fut = async {
            let fut = async { if c.upfail != 0 { run_proxy_upfail(&c).await } else if conc { run_conc(&c).await } else if is_client { run_client_path(&c).await } else if c.quit { run_quit_rounds(&c).await } else { run_server_path(&c).await } };
            match tokio::time::timeout(T_CASE, fut).await { Ok(r) => r, Err(_) => Err("timeout:case".into()) }
        };
        // pipe / quit: server and raw peer share ONE thread, so that the connection's reader runs up to its
        // next wait (both pipelined requests handled; handler returned and reply queued) before the
        // connection's writer task sees any of the queued messages
        if single {
            match tokio::runtime::Builder::new_current_thread().enable_all().build() { Ok(rt) => rt.block_on(fut), Err(e) => Err(format!("runtime:{e}")) }
        } else if conc { conc_runtime().block_on(fut) } else { net::runtime().block_on(fut) }
    });
    match r { Ok(Ok(obs)) => obs, Ok(Err(e)) => format!("crash={}", clean(e)), Err(()) => "crash=panic".into() }
}

fn gen_cases(seed: u64, thorough: bool) -> Vec<String> {
    let mut rng = Rng::new(seed);
    let mut limits: Vec<Option<u64>> = vec![Some(0x400), Some(0x1000), Some(0x10000), Some(0x100000)];
    if thorough { limits.push(Some(0x1000000)); }
    limits.push(None);
    let limits_all = limits.clone();
    let nrand = if thorough { 10 } else { 2 };
    let min = 48 + QLEN + 2;
    let mut out = Vec::new();
    for limit in limits.clone() {
        for path in PATHS {
            let mut sizes: Vec<u64> = Vec::new();
            match limit {
                Some(l) => {
                    sizes.extend([l - 2, l - 1, l, l + 1, l + 2]);
                    for _ in 0..nrand { sizes.push(rng.range(min, 2 * l)); }
                }
                None => {
                    sizes.extend([min, 0x100001, 0x200000]);
                    for _ in 0..nrand { sizes.push(rng.range(min, 0x200000)); }
                }
            }
            for flen in sizes {
                let (id, ntf) = match *path {
                    "push" | "broadcast" => (0, 1),
                    "creq" => (rng.range(1, 4), 0),
                    "cnotify" => (rng.range(1, 4), 1),
                    _ => (if rng.chance(1, 3) { rng.boundary(64) } else { rng.next() }, 0),
                };
                let i = out.len();
                out.push(format!("i={i} path={path} limit={} flen={} id={} ntf={ntf} ec=0", limit.map(hx).unwrap_or_else(|| "-".into()), hx(flen), hx(id)));
            }
        }
    }
    // an oversized inline response queued behind a backlog of small notifications
    for l in limits.iter().flatten() {
        for flen in [*l, l + 1, l + 9, 2 * l] {
            let id = rng.next();
            let i = out.len();
            out.push(format!("i={i} path=inline limit={} flen={} id={} ntf=0 ec=0 burst=1", hx(*l), hx(flen), hx(id)));
        }
    }
    // handler errors (an error response is a response like any other) around the limit
    for l in limits.iter().flatten() {
        for path in ["inline", "offreader", "proxy"] {
            for flen in [l - 1, *l, l + 1, l + 2, 2 * l] {
                let id = if rng.chance(1, 3) { rng.boundary(64) } else { rng.next() };
                let i = out.len();
                out.push(format!("i={i} path={path} limit={} flen={} id={} ntf=0 ec={}", hx(*l), hx(flen), hx(id), hx(*rng.pick(&[4u64, 6, 7]))));
            }
        }
    }
    // long route paths on the response paths: a replacement that echoed the
    // request query would itself be over the limit
    for l in limits.into_iter().flatten() {
        for path in ["inline", "offreader", "proxy"] {
            for back in [200u64, 160, 100, 60] {
                let qlen = l.saturating_sub(back).max(8);
                for flen in [l + 1, l + 50, 2 * l] {
                    if flen < 48 + qlen + 2 { continue; }
                    let id = if rng.chance(1, 3) { rng.boundary(64) } else { rng.next() };
                    let i = out.len();
                    out.push(format!("i={i} path={path} limit={} flen={} id={} ntf=0 ec=0 qlen={}", hx(l), hx(flen), hx(id), hx(qlen)));
                }
            }
        }
    }
    // ---- arrangements around the seven paths (same abstract cases, driven differently)
    let some: Vec<u64> = limits_all.iter().flatten().copied().collect();
    let mut extra: Vec<String> = Vec::new();
    for l in &some {
        for flen in [*l, l + 1, 2 * l] {
            // a small reply queued immediately before the handler-pushed notify, on a connection that then stays idle
            extra.push(format!("path=push limit={} flen={} id=0 ntf=1 ec=0 pipe=1", hx(*l), hx(flen)));
            // [notify, small reply] queued at the moment the connection's shutdown is requested
            extra.push(format!("path=push limit={} flen={} id=0 ntf=1 ec=0 quit=1", hx(*l), hx(flen)));
        }
    }
    // many connections of one server at once
    for l in [0x400u64, 0x1000] {
        for flen in [l, l + 1, 2 * l] {
            // (a delivered notify and the trigger's reply are two writes on a socket without TCP_NODELAY: 40 ms a round)
            extra.push(format!("path=push limit={} flen={} id=0 ntf=1 ec=0 conc=10 reps={}", hx(l), hx(flen), hx(if flen > l { CONC_REPS } else { 16 })));
            extra.push(format!("path=inline limit={} flen={} id={} ntf=0 ec=0 conc=10 reps={}", hx(l), hx(flen), hx(rng.next()), hx(CONC_REPS)));
        }
    }
    // a client request / notify whose serialisation is slow while another call is in flight
    for l in [0x400u64, 0x10000] {
        for flen in [l, l + 1, 2 * l] {
            extra.push(format!("path=creq limit={} flen={} id={} ntf=0 ec=0 park=1", hx(l), hx(flen), hx(rng.range(1, 4))));
            extra.push(format!("path=cnotify limit={} flen={} id={} ntf=1 ec=0 park=1", hx(l), hx(flen), hx(rng.range(1, 4))));
        }
    }
    // a notify after a long history of earlier notifies on the same connection, the queue drained after each:
    // 70 refused ones of 1 MiB (more than 64 MiB refused in all), 320 refused ones just above the limit
    // (more than the outbound queue holds), 32 delivered ones at the limit
    for path in ["push", "broadcast"] {
        for l in [0x1000u64, 0x10000] {
            for flen in [min, l, l + 1] {
                extra.push(format!("path={path} limit={} flen={} id=0 ntf=1 ec=0 hist=46 hlen=100032", hx(l), hx(flen)));
            }
        }
        for flen in [0x400u64, 0x401] {
            extra.push(format!("path={path} limit=400 flen={} id=0 ntf=1 ec=0 hist=140 hlen=401", hx(flen)));
            extra.push(format!("path={path} limit=400 flen={} id=0 ntf=1 ec=0 hist=20 hlen=400", hx(flen)));
        }
    }
    // the proxy's upstream fails underneath a request in flight whose query is short, about as long as the
    // limit, or longer: whatever the proxy does then, nothing above the limit may be sent downstream
    for l in [0x400u64, 0x1000, 0x10000] {
        for upfail in 1..=4u64 {
            for qlen in [8, l - 100, l - 48, l + 1, 2 * l] {
                let id = if rng.chance(1, 3) { rng.boundary(64) } else { rng.next() };
                extra.push(format!("path=proxy limit={} flen={} id={} ntf=0 ec=0 qlen={} upfail={upfail}", hx(l), hx(48 + qlen + 2), hx(id), hx(qlen)));
            }
        }
    }
    for e in extra { let i = out.len(); out.push(format!("i={i} {e}")); }
    out
}

fn main() {
    let cases = if no_gen() { vec![] } else { gen_cases(seed(), is_thorough()) };
    isolated_main(cases, run_case, Duration::from_secs(60));
}
