//! C17 correspondence: the outbound size guard on every outbound path of the
//! WebSocket transport (inline / off-reader responses, handler and broadcast
//! notifies, proxied responses, client requests and notifies), observed from a
//! raw tungstenite peer that shares no framing code with repe.
use futures_util::{SinkExt, StreamExt};
use repe::tokio_tungstenite as tt;
use repe::{AsyncClient, AsyncServer, BodyFormat, NotifyBody, PeerRegistry, RepeError, Router, WebSocketClient, WebSocketLimits, WebSocketServer};
use repe_verif_harness::*;
use serde_json::{Value, json};
use std::future::Future;
use std::sync::atomic::{AtomicUsize, Ordering};
use std::sync::{Arc, Mutex};
use std::time::Duration;
use tokio::time::Instant;
use tt::tungstenite::Message as WsMsg;
use tt::tungstenite::protocol::WebSocketConfig;

type ClientWs = tt::WebSocketStream<tt::MaybeTlsStream<tokio::net::TcpStream>>;

const PATHS: &[&str] = &["inline", "offreader", "push", "broadcast", "proxy", "creq", "cnotify"];
/// every route / notify method used for the message under test is 2 bytes long
const QLEN: u64 = 2;
const T_CONN: Duration = Duration::from_secs(10);
const T_MSG: Duration = Duration::from_secs(20);
const GRACE: Duration = Duration::from_millis(200);
const T_CASE: Duration = Duration::from_secs(50);

fn hx(v: u64) -> String { format!("{v:x}") }
fn ph(s: &str) -> Option<u64> { u64::from_str_radix(s, 16).ok() }
fn clean(s: impl AsRef<str>) -> String { s.as_ref().chars().map(|c| if c.is_whitespace() { '_' } else { c }).collect() }
fn le64(b: &[u8]) -> u64 { let mut x = [0u8; 8]; x.copy_from_slice(&b[..8]); u64::from_le_bytes(x) }
fn le32(b: &[u8]) -> u32 { let mut x = [0u8; 4]; x.copy_from_slice(&b[..4]); u32::from_le_bytes(x) }

/// a REPE frame assembled by hand
fn frame(notify: u8, id: u64, qf: u16, bf: u16, ec: u32, q: &[u8], b: &[u8]) -> Vec<u8> {
    let mut f = Vec::with_capacity(48 + q.len() + b.len());
    f.extend_from_slice(&((48 + q.len() + b.len()) as u64).to_le_bytes());
    f.extend_from_slice(&0x1507u16.to_le_bytes());
    f.push(1);
    f.push(notify);
    f.extend_from_slice(&0u32.to_le_bytes());
    f.extend_from_slice(&id.to_le_bytes());
    f.extend_from_slice(&(q.len() as u64).to_le_bytes());
    f.extend_from_slice(&(b.len() as u64).to_le_bytes());
    f.extend_from_slice(&qf.to_le_bytes());
    f.extend_from_slice(&bf.to_le_bytes());
    f.extend_from_slice(&ec.to_le_bytes());
    f.extend_from_slice(q);
    f.extend_from_slice(b);
    f
}

/// deterministic non-constant raw body
fn pattern(n: usize) -> Vec<u8> { (0..n).map(|i| ((i as u32).wrapping_mul(2654435761) >> 24) as u8).collect() }
/// the JSON encoding of a string of n-2 'a' characters: exactly n bytes
fn json_string_body(n: usize) -> Vec<u8> {
    let mut v = Vec::with_capacity(n);
    v.push(b'"');
    v.resize(n - 1, b'a');
    v.push(b'"');
    v
}

fn big_cfg() -> WebSocketConfig {
    let mut c = WebSocketConfig::default();
    c.max_message_size = None;
    c.max_frame_size = None;
    c
}
/// the outbound guard depends on the assumed peer limit alone: the endpoint's own inbound
/// thresholds vary with the case (`v`): the defaults, none at all, or smaller than the assumed limit
fn limits_of(l: Option<u64>, v: u64, small_inbound_ok: bool) -> WebSocketLimits {
    match l {
        Some(n) => match v % 3 {
            1 => WebSocketLimits::unlimited().with_assumed_peer_frame_limit(Some(n as usize)),
            2 if small_inbound_ok => WebSocketLimits::default().with_max_incoming_frame_size(Some(512)).with_max_incoming_message_size(Some(512)).with_assumed_peer_frame_limit(Some(n as usize)),
            _ => WebSocketLimits::default().with_assumed_peer_frame_limit(Some(n as usize)),
        },
        None => WebSocketLimits::unlimited(),
    }
}

async fn to<F: Future>(d: Duration, what: &str, f: F) -> Result<F::Output, String> {
    tokio::time::timeout(d, f).await.map_err(|_| format!("timeout:{what}"))
}

struct Case { path: String, limit: Option<u64>, flen: u64, id: u64, qlen: Option<u64>, ec: u32, burst: bool }

/// aborts the per-case server tasks when the case is over
struct Tasks(Vec<tokio::task::JoinHandle<()>>);
impl Drop for Tasks { fn drop(&mut self) { for t in &self.0 { t.abort(); } } }

fn sent_token(cands: &[Vec<u8>], expected: &[u8]) -> Result<String, String> {
    match cands {
        [] => Ok("none".into()),
        [m] => {
            let (id, ec) = if m.len() >= 48 { (le64(&m[16..24]), le32(&m[44..48])) } else { (0, 0) };
            Ok(format!("frame:{}:{}:{}:{}", hx(m.len() as u64), hx(id), hx(ec as u64), (m.as_slice() == expected) as u8))
        }
        more => Err(format!("extra-messages:{}:{}", more.len(), more.iter().map(|m| hx(m.len() as u64)).collect::<Vec<_>>().join(","))),
    }
}

// ---------------------------------------------------------------- server paths

/// The raw peer: every binary message that is not the response to one of the
/// `known` auxiliary requests is a candidate for the message under test.
struct Peer { ws: ClientWs, known: Vec<u64>, seen: Vec<(u64, Vec<u8>)>, cands: Vec<Vec<u8>>, dead: Option<String> }
impl Peer {
    fn saw(&self, id: u64) -> Option<&Vec<u8>> { self.seen.iter().find(|(i, _)| *i == id).map(|(_, b)| b) }
    async fn send(&mut self, f: Vec<u8>) -> Result<(), String> {
        to(T_CONN, "raw-send", self.ws.send(WsMsg::Binary(f))).await?.map_err(|e| format!("raw-send:{e}"))
    }
    async fn pump(&mut self, until: Instant, done: impl Fn(&Peer) -> bool) {
        while self.dead.is_none() && !done(self) {
            let now = Instant::now();
            if now >= until { break; }
            match tokio::time::timeout(until - now, self.ws.next()).await {
                Err(_) => break,
                Ok(None) => self.dead = Some("closed".into()),
                Ok(Some(Err(e))) => self.dead = Some(e.to_string()),
                Ok(Some(Ok(WsMsg::Binary(b)))) => {
                    let b: Vec<u8> = b.into();
                    // the filler notifications of a burst case are not the message under test
                    let filler = b.len() >= 51 && b[11] != 0 && le64(&b[24..32]) == 3 && &b[48..51] == b"/q0";
                    if filler { continue; }
                    if b.len() >= 48 && b[11] == 0 && self.known.contains(&le64(&b[16..24])) { self.seen.push((le64(&b[16..24]), b)); } else { self.cands.push(b); }
                }
                Ok(Some(Ok(WsMsg::Close(_)))) => self.dead = Some("close-frame".into()),
                Ok(Some(Ok(_))) => {}
            }
        }
    }
}

async fn run_server_path(c: &Case) -> Result<String, String> {
    let is_notify = c.path == "push" || c.path == "broadcast";
    // the route of a response path: `/r` (inline, proxy) or `/b` (off-reader), or,
    // when the case carries `qlen`, `/` followed by a repeated character up to that length
    let route: String = match (c.path.as_str(), c.qlen) {
        (_, Some(n)) if is_notify || n < 8 => return Err("badcase:qlen".into()),
        ("offreader", Some(n)) => format!("/{}", "b".repeat(n as usize - 1)),
        (_, Some(n)) => format!("/{}", "r".repeat(n as usize - 1)),
        ("offreader", None) => "/b".into(),
        // burst: the inline handler first queues 40 small notifications, so that its response is
        // queued behind a backlog instead of reaching an idle writer
        ("inline", None) if c.burst => "/rb".into(),
        _ => "/r".into(),
    };
    if c.burst && route != "/rb" { return Err("badcase:burst".into()); }
    let tlen = if is_notify { QLEN } else { route.len() as u64 };
    if c.flen < 48 + tlen { return Err("badcase:flen-too-small".into()); }
    let blen = (c.flen - 48 - tlen) as usize;
    if !is_notify && blen < 2 { return Err("badcase:flen-too-small".into()); }
    if is_notify && c.id != 0 { return Err("badcase:notify-id".into()); }
    let limits = limits_of(c.limit, c.id ^ c.flen, c.qlen.is_none());
    let (trigger_id, marker_id, alive_id) = (c.id.wrapping_add(1), c.id.wrapping_add(2), c.id.wrapping_add(3));

    let notify_body = Arc::new(if is_notify { pattern(blen) } else { vec![] });
    let push_res: Arc<Mutex<Option<Result<(), String>>>> = Arc::new(Mutex::new(None));
    let (nb, pr) = (notify_body.clone(), push_res.clone());
    let rlen = if is_notify { 2 } else { blen };
    // ec != 0: the handler fails with that code; the error response's body is the message (UTF-8)
    let ec = c.ec;
    let code = if ec == 0 { None } else { Some(repe::ErrorCode::try_from(ec).map_err(|_| "badcase:ec".to_string())?) };
    if code.is_some() && is_notify { return Err("badcase:ec-on-notify".into()); }
    let answer = move || -> Result<Value, (repe::ErrorCode, String)> { match code { None => Ok(Value::String("a".repeat(rlen - 2))), Some(k) => Err((k, "e".repeat(rlen))) } };
    let (a1, a2, a3, a4) = (answer.clone(), answer.clone(), answer.clone(), answer.clone());
    let router = Router::new()
        .with_json("/k", |_| Ok(json!(1)))
        .with_json("/r", move |_| a1())
        .with_json_ctx("/rb", { let a5 = answer.clone(); move |ctx, _| {
            if let Some(p) = ctx.peer() { for i in 0..40u32 { let _ = p.send_notify("/q0", NotifyBody::Raw(vec![i as u8; 24], BodyFormat::RawBinary)); } }
            a5()
        } })
        .with_json_blocking("/b", move |_| a2())
        .with_json_ctx("/p", move |ctx, _| {
            let r = match ctx.peer() {
                Some(p) => p.send_notify("/n", NotifyBody::Raw((*nb).clone(), BodyFormat::RawBinary)).map_err(|e| e.to_string()),
                None => Err("no-peer".to_string()),
            };
            *pr.lock().unwrap() = Some(r);
            Ok(json!(1))
        });
    // the long route of this case (the router must know it before the server starts)
    let router = match (c.qlen, c.path.as_str()) {
        (None, _) => router,
        (Some(_), "offreader") => router.with_json_blocking(&route, move |_| a3()),
        (Some(_), _) => router.with_json(&route, move |_| a4()),
    };

    let too_large = Arc::new(AtomicUsize::new(0));
    let registry = PeerRegistry::new();
    let mut tasks = Tasks(vec![]);
    let addr;
    if c.path == "proxy" {
        let ul = AsyncServer::listen("127.0.0.1:0").await.map_err(|e| format!("upstream-bind:{e}"))?;
        let uaddr = ul.local_addr().map_err(|e| format!("upstream-addr:{e}"))?;
        let usrv = AsyncServer::new(router);
        tasks.0.push(tokio::spawn(async move { let _ = usrv.serve(ul).await; }));
        let upstream = to(T_CONN, "upstream-connect", AsyncClient::connect(uaddr)).await?.map_err(|e| format!("upstream-connect:{e}"))?;
        let l = tokio::net::TcpListener::bind("127.0.0.1:0").await.map_err(|e| format!("proxy-bind:{e}"))?;
        addr = l.local_addr().map_err(|e| format!("proxy-addr:{e}"))?;
        tasks.0.push(tokio::spawn(async move {
            if let Ok((s, _)) = l.accept().await {
                let _ = s.set_nodelay(true);
                if let Ok(ws) = tt::accept_async_with_config(s, Some(big_cfg())).await {
                    let _ = repe::websocket_server::proxy_connection_with_limits(ws, upstream, limits).await;
                }
            }
        }));
    } else {
        let l = WebSocketServer::listen("127.0.0.1:0").await.map_err(|e| format!("ws-bind:{e}"))?;
        addr = l.local_addr().map_err(|e| format!("ws-addr:{e}"))?;
        let cnt = too_large.clone();
        let srv = WebSocketServer::new(router).with_limits(limits).with_peer_registry(registry.clone()).on_error(move |err| {
            if matches!(err, repe::ConnectionError::OutboundTooLarge { .. }) { cnt.fetch_add(1, Ordering::SeqCst); }
        });
        tasks.0.push(tokio::spawn(async move { let _ = srv.serve_listener(l, "/repe").await; }));
    }

    let (ws, _) = to(T_CONN, "raw-connect", tt::connect_async_with_config(format!("ws://{addr}/repe"), Some(big_cfg()), true)).await?.map_err(|e| format!("raw-connect:{e}"))?;
    let mut peer = Peer { ws, known: vec![trigger_id, marker_id, alive_id], seen: vec![], cands: vec![], dead: None };

    // the message under test
    let expected: Vec<u8> = match c.path.as_str() {
        "inline" | "proxy" | "offreader" => {
            peer.send(frame(0, c.id, 1, 2, 0, route.as_bytes(), b"null")).await?;
            if c.ec == 0 { frame(0, c.id, 1, 2, 0, route.as_bytes(), &json_string_body(blen)) }
            // an error response is built by create_error_response_like: the request's query is echoed
            // but the query-format field keeps the builder's default (0)
            else { frame(0, c.id, 0, BodyFormat::Utf8 as u16, c.ec, route.as_bytes(), "e".repeat(blen).as_bytes()) }
        }
        "push" => { peer.send(frame(0, trigger_id, 1, 2, 0, b"/p", b"null")).await?; frame(1, 0, 1, 0, 0, b"/n", &notify_body) }
        "broadcast" => {
            let t0 = Instant::now();
            while registry.len() != 1 {
                if t0.elapsed() > T_CONN { return Err(format!("registry-len:{}", registry.len())); }
                tokio::time::sleep(Duration::from_millis(2)).await;
            }
            let res = registry.broadcast_notify_raw("/n", BodyFormat::RawBinary, &notify_body);
            if res.len() != 1 { return Err(format!("broadcast-peers:{}", res.len())); }
            if let Some(Err(e)) = res.values().next() { return Err(format!("broadcast-send:{e}")); }
            frame(1, 0, 1, 0, 0, b"/n", &notify_body)
        }
        other => return Err(format!("badcase:path:{other}")),
    };
    // marker: a later small exchange on the same connection. All outbound
    // messages of a connection go through one FIFO writer queue, except that an
    // off-reader response is enqueued whenever its blocking thread finishes, so
    // for response paths also wait for the message carrying the test id.
    peer.send(frame(0, marker_id, 1, 2, 0, b"/k", b"null")).await?;
    let need_test = !is_notify;
    peer.pump(Instant::now() + T_MSG, |p| p.saw(marker_id).is_some() && (!need_test || !p.cands.is_empty())).await;
    peer.pump(Instant::now() + GRACE, |_| false).await;
    // alive: one more small round trip
    let mut alive = false;
    if peer.dead.is_none() && peer.send(frame(0, alive_id, 1, 2, 0, b"/k", b"null")).await.is_ok() {
        peer.pump(Instant::now() + T_CONN, |p| p.saw(alive_id).is_some()).await;
        alive = peer.saw(alive_id).is_some_and(|r| r.as_slice() == frame(0, alive_id, 1, 2, 0, b"/k", b"1").as_slice());
    }
    if c.path == "push" {
        match push_res.lock().unwrap().clone() {
            Some(Ok(())) => {}
            Some(Err(e)) => return Err(format!("push-send:{e}")),
            None => return Err(format!("push-handler-not-run:dead={}", peer.dead.clone().unwrap_or_default())),
        }
    }
    let sent = sent_token(&peer.cands, &expected)?;
    let n = too_large.load(Ordering::SeqCst);
    let mut obs = format!("sent={} rep={} alive={}", sent, (n > 0) as u8, alive as u8);
    if n > 1 { obs.push_str(&format!(" repn={}", hx(n as u64))); }
    if let Some(d) = &peer.dead { obs.push_str(&format!(" dead={}", clean(d))); }
    Ok(obs)
}

// ---------------------------------------------------------------- client paths

async fn run_client_path(c: &Case) -> Result<String, String> {
    let is_notify = c.path == "cnotify";
    let blen = (c.flen - 48 - QLEN) as usize;
    if c.id == 0 || c.id > 64 { return Err("badcase:client-id".into()); }
    if c.qlen.is_some() { return Err("badcase:qlen".into()); }
    let body = pattern(blen);
    let recorded: Arc<Mutex<Vec<Vec<u8>>>> = Arc::new(Mutex::new(vec![]));
    let mut tasks = Tasks(vec![]);
    let l = tokio::net::TcpListener::bind("127.0.0.1:0").await.map_err(|e| format!("raw-bind:{e}"))?;
    let addr = l.local_addr().map_err(|e| format!("raw-addr:{e}"))?;
    let rec = recorded.clone();
    // raw server: records every binary message; answers each request with a small response
    tasks.0.push(tokio::spawn(async move {
        let Ok((s, _)) = l.accept().await else { return };
        let _ = s.set_nodelay(true);
        let Ok(mut ws) = tt::accept_async_with_config(s, Some(big_cfg())).await else { return };
        while let Some(Ok(m)) = ws.next().await {
            match m {
                WsMsg::Binary(b) => {
                    let b: Vec<u8> = b.into();
                    let reply = if b.len() >= 48 && b[11] == 0 {
                        let ql = le64(&b[24..32]);
                        let q = if ql <= (b.len() - 48) as u64 { &b[48..48 + ql as usize] } else { &b[48..48] };
                        Some(frame(0, le64(&b[16..24]), 1, 2, 0, q, b"1"))
                    } else { None };
                    rec.lock().unwrap().push(b);
                    if let Some(r) = reply { if ws.send(WsMsg::Binary(r)).await.is_err() { break; } }
                }
                WsMsg::Close(_) => break,
                _ => {}
            }
        }
    }));
    let client = to(T_CONN, "client-connect", WebSocketClient::connect_with_limits(&format!("ws://{addr}/repe"), limits_of(c.limit, c.id ^ c.flen, true))).await?.map_err(|e| format!("client-connect:{e}"))?;
    // the client numbers its messages 1, 2, ...: id-1 small calls make the
    // message under test carry exactly the id of the case
    for k in 1..c.id {
        match to(T_CONN, "pre-call", client.call_json("/k", &json!(1))).await? { Ok(v) if v == json!(1) => {} Ok(v) => return Err(format!("pre-call:{k}:value:{v}")), Err(e) => return Err(format!("pre-call:{k}:{e}")) }
    }
    let res: Result<(), RepeError> = if is_notify {
        to(T_MSG, "client-notify", client.notify_with_formats("/n", 1, Some(&body), 0)).await?
    } else {
        to(T_MSG, "client-call", client.call_with_formats("/r", 1, Some(&body), 0)).await?.map(|_| ())
    };
    let rep = match res { Ok(()) => 0, Err(RepeError::MessageTooLarge { .. }) => 1, Err(e) => return Err(format!("client-send:{e}")) };
    let alive = matches!(tokio::time::timeout(T_CONN, client.call_json("/k", &json!(1))).await, Ok(Ok(v)) if v == json!(1));
    tokio::time::sleep(GRACE).await;
    let all = recorded.lock().unwrap().clone();
    let small = |m: &Vec<u8>| m.len() == 48 + 2 + 1 && &m[48..50] == b"/k" && m[11] == 0;
    let nsmall = all.iter().filter(|m| small(m)).count() as u64;
    let cands: Vec<Vec<u8>> = all.into_iter().filter(|m| !small(m)).collect();
    let expected = frame(is_notify as u8, c.id, 1, 0, 0, if is_notify { b"/n" } else { b"/r" }, &body);
    let sent = sent_token(&cands, &expected)?;
    let cid = match cands.first() { Some(m) if m.len() >= 48 => hx(le64(&m[16..24])), _ => "-".into() };
    let mut obs = format!("sent={} rep={} alive={} cid={}", sent, rep, alive as u8, cid);
    if alive && nsmall != c.id { obs.push_str(&format!(" smallcalls={}", hx(nsmall))); }
    Ok(obs)
}

fn run_case(line: &str) -> String {
    let f = fields(line);
    let parsed = (|| -> Option<Case> {
        let limit = match f.get("limit")?.as_str() { "-" => None, s => Some(ph(s)?) };
        let qlen = match f.get("qlen") { Some(s) => Some(ph(s)?), None => None };
        Some(Case { path: f.get("path")?.clone(), limit, flen: ph(f.get("flen")?)?, id: ph(f.get("id")?)?, qlen, ec: f.get("ec").and_then(|e| ph(e)).unwrap_or(0) as u32, burst: f.get("burst").map(|b| b == "1").unwrap_or(false) })
    })();
    let Some(c) = parsed else { return "crash=badcase:parse".into() };
    if c.flen < 48 + QLEN || c.flen > (1 << 31) { return "crash=badcase:flen".into(); }
    let r = guard(move || {
        net::runtime().block_on(async {
            let is_client = c.path == "creq" || c.path == "cnotify";
            let fut = async { if is_client { run_client_path(&c).await } else { run_server_path(&c).await } };
            match tokio::time::timeout(T_CASE, fut).await { Ok(r) => r, Err(_) => Err("timeout:case".into()) }
        })
    });
    match r { Ok(Ok(obs)) => obs, Ok(Err(e)) => format!("crash={}", clean(e)), Err(()) => "crash=panic".into() }
}

fn gen_cases(seed: u64, thorough: bool) -> Vec<String> {
    let mut rng = Rng::new(seed);
    let mut limits: Vec<Option<u64>> = vec![Some(0x400), Some(0x1000), Some(0x10000), Some(0x100000)];
    if thorough { limits.push(Some(0x1000000)); }
    limits.push(None);
    let nrand = if thorough { 10 } else { 2 };
    let min = 48 + QLEN + 2;
    let mut out = Vec::new();
    for limit in limits.clone() {
        for path in PATHS {
            let mut sizes: Vec<u64> = Vec::new();
            match limit {
                Some(l) => {
                    sizes.extend([l - 2, l - 1, l, l + 1, l + 2]);
                    for _ in 0..nrand { sizes.push(rng.range(min, 2 * l)); }
                }
                None => {
                    sizes.extend([min, 0x100001, 0x200000]);
                    for _ in 0..nrand { sizes.push(rng.range(min, 0x200000)); }
                }
            }
            for flen in sizes {
                let (id, ntf) = match *path {
                    "push" | "broadcast" => (0, 1),
                    "creq" => (rng.range(1, 4), 0),
                    "cnotify" => (rng.range(1, 4), 1),
                    _ => (if rng.chance(1, 3) { rng.boundary(64) } else { rng.next() }, 0),
                };
                let i = out.len();
                out.push(format!("i={i} path={path} limit={} flen={} id={} ntf={ntf} ec=0", limit.map(hx).unwrap_or_else(|| "-".into()), hx(flen), hx(id)));
            }
        }
    }
    // an oversized inline response queued behind a backlog of small notifications
    for l in limits.iter().flatten() {
        for flen in [*l, l + 1, l + 9, 2 * l] {
            let id = rng.next();
            let i = out.len();
            out.push(format!("i={i} path=inline limit={} flen={} id={} ntf=0 ec=0 burst=1", hx(*l), hx(flen), hx(id)));
        }
    }
    // handler errors (an error response is a response like any other) around the limit
    for l in limits.iter().flatten() {
        for path in ["inline", "offreader", "proxy"] {
            for flen in [l - 1, *l, l + 1, l + 2, 2 * l] {
                let id = if rng.chance(1, 3) { rng.boundary(64) } else { rng.next() };
                let i = out.len();
                out.push(format!("i={i} path={path} limit={} flen={} id={} ntf=0 ec={}", hx(*l), hx(flen), hx(id), hx(*rng.pick(&[4u64, 6, 7]))));
            }
        }
    }
    // long route paths on the response paths: a replacement that echoed the
    // request query would itself be over the limit
    for l in limits.into_iter().flatten() {
        for path in ["inline", "offreader", "proxy"] {
            for back in [200u64, 160, 100, 60] {
                let qlen = l.saturating_sub(back).max(8);
                for flen in [l + 1, l + 50, 2 * l] {
                    if flen < 48 + qlen + 2 { continue; }
                    let id = if rng.chance(1, 3) { rng.boundary(64) } else { rng.next() };
                    let i = out.len();
                    out.push(format!("i={i} path={path} limit={} flen={} id={} ntf=0 ec=0 qlen={}", hx(l), hx(flen), hx(id), hx(qlen)));
                }
            }
        }
    }
    out
}

fn main() {
    let cases = if no_gen() { vec![] } else { gen_cases(seed(), is_thorough()) };
    isolated_main(cases, run_case, Duration::from_secs(60));
}
