//! C03 correspondence: pipelined request sequences over the product of version,
//! query format, UTF-8-ness, path, handler kind, body format and body
//! well-formedness, sent as hand-built frames over raw TCP to `Server` and
//! `AsyncServer` and as raw binary WebSocket messages to `WebSocketServer`
//! (inline and off-reader routes).  Observed: per transport the ordered list of
//! response frames, the per-route user-function invocation counters, the
//! middleware counter and whether the connection still answers afterwards.
//! Harness-only switches change HOW a pipeline reaches a server, never what is
//! expected: `gap=` / `cfg=` (trickled / timeout-configured async server),
//! `cuts=` (requests that arrive in two pieces with a pause inside the frame),
//! `oq=` + `hold=` (WebSocket peer that reads nothing until it has sent
//! everything, tiny outbound queue and socket buffers).
//!
//! The oracle inputs of each request (query is UTF-8, body decodes as the
//! kind's input type / the decoder's error text, what the user function does)
//! are computed here by calling std / serde_json / beve directly on the request
//! bytes and the test's own user logic; never through repe's dispatch.
use repe::server::HandlerErased;
use repe::{ErrorCode, Execution, JsonTypedHandler, Message, Next, Registry, RepeError, RepeStruct, Router, StructError, TypedResponse, WebSocketServer};
use repe_verif_harness::*;
use serde::{Deserialize, Serialize};
use serde_json::{Value, json};
use std::net::SocketAddr;
use std::sync::atomic::{AtomicU64, Ordering};
use std::sync::{Arc, Condvar, Mutex, OnceLock};
use std::time::{Duration, Instant};

const SYNC_ID: u64 = 0xffff_ffff_ffff_fff0;
const MW_MAGIC: u32 = 0x4d57;
const GRACE: Duration = Duration::from_millis(150);
const NROUTES: usize = 15;

fn hx(v: u64) -> String { format!("{v:x}") }
fn ph(s: &str) -> u64 { u64::from_str_radix(s, 16).unwrap() }

// ---------------------------------------------------------------------------
// the route table (rid = index)
// ---------------------------------------------------------------------------
#[derive(Clone, Copy, PartialEq, Debug)]
enum Kind { Json, Typed, JsonCtx, TypedCtx, Adapter, Slice, SliceRef, Struct, Registry, Erased }
struct RouteDef { class: char, path: &'static str, kind: Kind, off: bool, fns: &'static [&'static str] }
const ROUTES: [RouteDef; NROUTES] = [
    RouteDef { class: 'E', path: "/json", kind: Kind::Json, off: false, fns: &[] },
    RouteDef { class: 'E', path: "/jsonb", kind: Kind::Json, off: true, fns: &[] },
    RouteDef { class: 'E', path: "/typed", kind: Kind::Typed, off: false, fns: &[] },
    RouteDef { class: 'E', path: "/typedb", kind: Kind::Typed, off: true, fns: &[] },
    RouteDef { class: 'E', path: "/jctx", kind: Kind::JsonCtx, off: false, fns: &[] },
    RouteDef { class: 'E', path: "/jctxb", kind: Kind::JsonCtx, off: true, fns: &[] },
    RouteDef { class: 'E', path: "/tctx", kind: Kind::TypedCtx, off: false, fns: &[] },
    RouteDef { class: 'E', path: "/tctxb", kind: Kind::TypedCtx, off: true, fns: &[] },
    RouteDef { class: 'E', path: "/adapter", kind: Kind::Adapter, off: false, fns: &[] },
    RouteDef { class: 'E', path: "/slice", kind: Kind::Slice, off: false, fns: &[] },
    RouteDef { class: 'E', path: "/sref", kind: Kind::SliceRef, off: false, fns: &[] },
    RouteDef { class: 'E', path: "/erased", kind: Kind::Erased, off: false, fns: &[] },
    RouteDef { class: 'E', path: "/erasedb", kind: Kind::Erased, off: true, fns: &[] },
    RouteDef { class: 'R', path: "/reg", kind: Kind::Registry, off: false, fns: &["/fn", "/deep/fn2"] },
    RouteDef { class: 'S', path: "/st", kind: Kind::Struct, off: false, fns: &[] },
];
fn kind_char(k: Kind) -> char {
    match k { Kind::Json => 'J', Kind::Typed => 'T', Kind::JsonCtx => 'C', Kind::TypedCtx => 'D', Kind::Adapter => 'A', Kind::Slice => 'L', Kind::SliceRef => 'F', Kind::Struct => 'S', Kind::Registry => 'G', Kind::Erased => 'X' }
}
fn table_token() -> String {
    ROUTES.iter().enumerate().map(|(i, r)| format!("{}:{}:{}:{}:{}:{}", r.class, r.path, kind_char(r.kind), r.off as u8, hx(i as u64), if r.fns.is_empty() { "-".to_string() } else { r.fns.join("+") })).collect::<Vec<_>>().join(",")
}
/// the harness's own reading of "which registered route does this path name":
/// exact paths first, then the registry mount, then the struct mount
fn lookup(path: &str) -> Option<usize> {
    if let Some(i) = ROUTES.iter().position(|r| r.class == 'E' && r.path == path) { return Some(i); }
    for cls in ['R', 'S'] {
        if let Some(i) = ROUTES.iter().position(|r| r.class == cls && (path == r.path || (path.starts_with(r.path) && path[r.path.len()..].starts_with('/')))) { return Some(i); }
    }
    None
}

// ---------------------------------------------------------------------------
// the test's user logic (shared by the handlers and the oracle)
// ---------------------------------------------------------------------------
const CODES: [ErrorCode; 11] = [ErrorCode::Ok, ErrorCode::VersionMismatch, ErrorCode::InvalidHeader, ErrorCode::InvalidQuery, ErrorCode::InvalidBody, ErrorCode::ParseError, ErrorCode::MethodNotFound, ErrorCode::Timeout, ErrorCode::ResourceExhausted, ErrorCode::InternalError, ErrorCode::ApplicationErrorBase];
const CODE_NUMS: [u32; 11] = [0, 1, 2, 3, 4, 5, 6, 7, 8, 9, 4096];

enum Act { Ok(Value), None, Err(usize, String), Panic, Gate }
fn act_value(v: &Value) -> Act {
    let Some(o) = v.as_object() else { return Act::Ok(json!({"echo": v})) };
    let n = o.get("v").cloned().unwrap_or(Value::Null);
    match o.get("op").and_then(|x| x.as_str()) {
        Some("ok") => Act::Ok(json!({"r": n})),
        Some("none") => Act::None,
        // a result much larger than the request (`k` filler characters)
        Some("pad") => Act::Ok(json!({"r": n, "pad": "x".repeat(o.get("k").and_then(|k| k.as_u64()).unwrap_or(0).min(8192) as usize)})),
        Some("err") => Act::Err(o.get("code").and_then(|c| c.as_u64()).unwrap_or(0) as usize % CODES.len(), format!("E{n}")),
        Some("panic") => Act::Panic,
        Some("gate") => Act::Gate,
        _ => Act::Ok(json!({"echo": v})),
    }
}

#[derive(Deserialize, Debug)]
struct In { op: String, #[serde(default)] v: i64, #[serde(default)] code: u32, #[serde(default)] fmt: u8 }
#[derive(Serialize, Debug)]
struct Out { r: i64, m: String }
enum TAct { Ok(Out, u8), Err(usize, String), Panic }
fn act_typed(i: &In, method: &str) -> TAct {
    match i.op.as_str() {
        "ok" => TAct::Ok(Out { r: i.v.wrapping_mul(2), m: method.to_string() }, i.fmt % 4),
        "err" => TAct::Err(i.code as usize % CODES.len(), format!("T{}", i.v)),
        "panic" => TAct::Panic,
        _ => TAct::Ok(Out { r: -1, m: method.to_string() }, 0),
    }
}
fn typed_fmt(f: u8) -> repe::BodyFormat { match f { 1 => repe::BodyFormat::Beve, 2 => repe::BodyFormat::Utf8, 3 => repe::BodyFormat::RawBinary, _ => repe::BodyFormat::Json } }
/// the bytes a typed response of format `f` carries
fn typed_body(o: &Out, f: u8) -> (u16, Vec<u8>) {
    match f {
        1 => (1, beve::to_vec(o).unwrap()),
        2 => (3, serde_json::to_string(o).unwrap().into_bytes()),
        3 => (0, serde_json::to_vec(o).unwrap()),
        _ => (2, serde_json::to_vec(o).unwrap()),
    }
}

enum SAct { Ok(Vec<u32>), Err(usize, String), Panic }
fn act_slice(xs: &[u32]) -> SAct {
    match xs.first() {
        None => SAct::Ok(vec![]),
        Some(0) => SAct::Ok(xs.iter().rev().cloned().collect()),
        Some(1) => SAct::Err(xs.get(1).cloned().unwrap_or(0) as usize % CODES.len(), format!("S{}", xs.len())),
        Some(2) => SAct::Panic,
        Some(_) => SAct::Ok(vec![xs.len() as u32, xs.iter().fold(0u32, |a, b| a.wrapping_add(*b))]),
    }
}

/// the erased handler's script: parsed from the body as JSON whatever the format code
enum EAct { Msg { ec: u32, qf: u16, bf: u16, q: Vec<u8>, b: Vec<u8> }, Err(RepeError), Panic, Gate }
fn act_erased(body: &[u8]) -> EAct {
    let raw = || EAct::Msg { ec: 0, qf: 1, bf: 0x77, q: vec![], b: body.iter().rev().cloned().collect() };
    let Ok(v) = serde_json::from_slice::<Value>(body) else { return raw() };
    let Some(o) = v.as_object() else { return raw() };
    let num = |k: &str| o.get(k).and_then(|x| x.as_u64()).unwrap_or(0);
    let n = num("v");
    match o.get("op").and_then(|x| x.as_str()) {
        Some("ok") => EAct::Msg { ec: num("ec") as u32, qf: o.get("qf").and_then(|x| x.as_u64()).unwrap_or(1) as u16, bf: num("bf") as u16, q: vec![], b: format!("E{n}").into_bytes() },
        // the handler's own response query, on a success and (with "ec") on an error response
        Some("ownq") => EAct::Msg { ec: num("ec") as u32, qf: 1, bf: 3, q: format!("/own/{n}").into_bytes(), b: format!("Q{n}").into_bytes() },
        Some("err") => EAct::Err(RepeError::ServerError { code: CODES[num("code") as usize % CODES.len()], message: format!("srv{n}") }),
        Some("io") => EAct::Err(RepeError::Io(std::io::Error::other("boom"))),
        Some("ubf") => EAct::Err(RepeError::UnexpectedBodyFormat { expected: repe::BodyFormat::Json, got: 9 }),
        Some("panic") => EAct::Panic,
        Some("gate") => EAct::Gate,
        _ => raw(),
    }
}
/// the harness's own table of RepeError -> code for the errors the erased handler returns
fn erased_err_code(e: &RepeError) -> u32 {
    match e {
        RepeError::ServerError { code, .. } => CODE_NUMS[CODES.iter().position(|c| c == code).unwrap()],
        RepeError::Io(_) => 5,
        RepeError::UnexpectedBodyFormat { .. } => 4,
        _ => unreachable!(),
    }
}

/// struct errors by index: (variant, code)
fn struct_err(idx: usize, path: String, msg: String) -> (StructError, u32) {
    match idx % 5 {
        0 => (StructError::InvalidPath { path }, 6),
        1 => (StructError::BodyExpected { path }, 4),
        2 => (StructError::Execution { path, message: msg }, 5),
        3 => (StructError::InvalidSubpath { path }, 6),
        _ => (StructError::BodyUnexpected { path }, 4),
    }
}
fn struct_act(segments: &[&str], body: Option<Value>) -> Result<Option<Value>, (StructError, u32)> {
    let path = repe::structs::path_from_segments(segments);
    match body {
        None => Ok(Some(json!({"read": segments}))),
        Some(v) => match act_value(&v) {
            Act::Ok(x) => Ok(Some(json!({"w": x, "s": segments}))),
            Act::None => Ok(None),
            Act::Err(i, m) => Err(struct_err(i, path, m)),
            // never panic while the struct's mutex is held (it would poison it for later cases)
            Act::Panic | Act::Gate => Err(struct_err(2, path, "no".into())),
        },
    }
}

// ---------------------------------------------------------------------------
// counters, gate, routers
// ---------------------------------------------------------------------------
struct Shared { user: [AtomicU64; NROUTES], mw: AtomicU64, gate_open: Mutex<bool>, gate_cv: Condvar }
impl Shared {
    fn new() -> Arc<Self> { Arc::new(Shared { user: std::array::from_fn(|_| AtomicU64::new(0)), mw: AtomicU64::new(0), gate_open: Mutex::new(true), gate_cv: Condvar::new() }) }
    fn hit(&self, rid: usize) { self.user[rid].fetch_add(1, Ordering::SeqCst); }
    fn reset(&self) { for c in &self.user { c.store(0, Ordering::SeqCst); } self.mw.store(0, Ordering::SeqCst); }
    fn snapshot(&self) -> (Vec<u64>, u64) { (self.user.iter().map(|c| c.load(Ordering::SeqCst)).collect(), self.mw.load(Ordering::SeqCst)) }
    fn wait_gate(&self) {
        let g = self.gate_open.lock().unwrap();
        let _ = self.gate_cv.wait_timeout_while(g, Duration::from_secs(8), |open| !*open).unwrap();
    }
    fn set_gate(&self, open: bool) { *self.gate_open.lock().unwrap() = open; self.gate_cv.notify_all(); }
}

fn run_value(sh: &Shared, rid: usize, v: &Value) -> Result<Value, (ErrorCode, String)> {
    sh.hit(rid);
    match act_value(v) {
        Act::Ok(x) => Ok(x),
        Act::None => Ok(Value::Null),
        Act::Err(i, m) => Err((CODES[i], m)),
        Act::Panic => panic!("scripted panic"),
        Act::Gate => { sh.wait_gate(); Ok(json!("gated")) }
    }
}
fn run_typed(sh: &Shared, rid: usize, i: &In, method: &str) -> Result<TypedResponse<Out>, (ErrorCode, String)> {
    sh.hit(rid);
    match act_typed(i, method) {
        TAct::Ok(o, f) => Ok(TypedResponse::new(o, typed_fmt(f))),
        TAct::Err(c, m) => Err((CODES[c], m)),
        TAct::Panic => panic!("scripted panic"),
    }
}
fn run_slice(sh: &Shared, rid: usize, xs: &[u32]) -> Result<Vec<u32>, (ErrorCode, String)> {
    sh.hit(rid);
    match act_slice(xs) { SAct::Ok(v) => Ok(v), SAct::Err(c, m) => Err((CODES[c], m)), SAct::Panic => panic!("scripted panic") }
}

struct Erased { sh: Arc<Shared>, rid: usize, off: bool }
impl HandlerErased for Erased {
    fn handle(&self, req: &Message) -> Result<Message, RepeError> {
        self.sh.hit(self.rid);
        let build = |ec: u32, qf: u16, bf: u16, q: Vec<u8>, b: Vec<u8>| {
            let mut m = Message::builder().id(req.header.id).query_bytes(q).body_bytes(b).build();
            m.header.ec = ec; m.header.query_format = qf; m.header.body_format = bf;
            m
        };
        match act_erased(&req.body) {
            EAct::Msg { ec, qf, bf, q, b } => Ok(build(ec, qf, bf, q, b)),
            EAct::Err(e) => Err(e),
            EAct::Panic => panic!("scripted panic"),
            EAct::Gate => { self.sh.wait_gate(); Ok(build(0, 1, 3, vec![], b"gated".to_vec())) }
        }
    }
    fn execution(&self) -> Execution { if self.off { Execution::OffReader } else { Execution::Inline } }
}

struct Adapter { sh: Arc<Shared>, rid: usize }
impl JsonTypedHandler for Adapter {
    type In = In;
    type Out = Out;
    fn call(&self, input: In) -> Result<Out, (ErrorCode, String)> {
        self.sh.hit(self.rid);
        match act_typed(&input, "") { TAct::Ok(o, _) => Ok(o), TAct::Err(c, m) => Err((CODES[c], m)), TAct::Panic => panic!("scripted panic") }
    }
}

struct St { sh: Arc<Shared>, rid: usize }
impl RepeStruct for St {
    fn repe_handle(&mut self, segments: &[&str], body: Option<Value>) -> Result<Option<Value>, StructError> {
        self.sh.hit(self.rid);
        struct_act(segments, body).map_err(|(e, _)| e)
    }
}

struct Mw { sh: Arc<Shared> }
impl repe::Middleware for Mw {
    fn handle(&self, req: &Message, next: Next<'_>) -> Result<Message, RepeError> {
        self.sh.mw.fetch_add(1, Ordering::SeqCst);
        if req.header.ec == MW_MAGIC { Err(RepeError::ServerError { code: ErrorCode::Timeout, message: "mw says no".into() }) } else { next.run(req) }
    }
}

fn build_router(sh: &Arc<Shared>, mw: bool) -> Router {
    let mut r = Router::new();
    for (rid, d) in ROUTES.iter().enumerate() {
        let s = sh.clone();
        r = match (d.kind, d.off) {
            (Kind::Json, false) => r.with_json(d.path, move |v| run_value(&s, rid, &v)),
            (Kind::Json, true) => r.with_json_blocking(d.path, move |v| run_value(&s, rid, &v)),
            (Kind::Typed, false) => r.with_typed::<In, Out, _>(d.path, move |i: In| run_typed(&s, rid, &i, "")),
            (Kind::Typed, true) => r.with_typed_blocking::<In, Out, _>(d.path, move |i: In| run_typed(&s, rid, &i, "")),
            (Kind::JsonCtx, false) => r.with_json_ctx(d.path, move |ctx: &repe::CallContext, v: Value| run_value(&s, rid, &v).map(|x| json!({"m": ctx.method(), "x": x}))),
            (Kind::JsonCtx, true) => r.with_json_ctx_blocking(d.path, move |ctx: &repe::CallContext, v: Value| run_value(&s, rid, &v).map(|x| json!({"m": ctx.method(), "x": x}))),
            (Kind::TypedCtx, false) => r.with_typed_ctx::<In, Out, _>(d.path, move |ctx: &repe::CallContext, i: In| run_typed(&s, rid, &i, ctx.method())),
            (Kind::TypedCtx, true) => r.with_typed_ctx_blocking::<In, Out, _>(d.path, move |ctx: &repe::CallContext, i: In| run_typed(&s, rid, &i, ctx.method())),
            (Kind::Adapter, _) => r.with_handler(d.path, Adapter { sh: s, rid }),
            (Kind::Slice, _) => r.with_typed_slice::<u32, u32, _>(d.path, move |xs: Vec<u32>| run_slice(&s, rid, &xs)),
            (Kind::SliceRef, _) => r.with_typed_slice_ref::<u32, u32, _>(d.path, move |xs: &[u32]| run_slice(&s, rid, xs)),
            (Kind::Erased, off) => r.with_erased_handler(d.path, Arc::new(Erased { sh: s, rid, off })),
            (Kind::Registry, _) => {
                let reg = Arc::new(Registry::new());
                for f in d.fns {
                    let s2 = s.clone();
                    reg.register_function(f, move |p: Option<Value>| run_value(&s2, rid, &p.unwrap_or(Value::Null))).unwrap();
                }
                r.with_registry(d.path, reg)
            }
            (Kind::Struct, _) => r.with_struct(d.path, St { sh: s, rid }).0,
        };
    }
    if mw {
        r = r.with_middleware(Mw { sh: sh.clone() });
    }
    r
}

struct Endpoint { sh: Arc<Shared>, addr: SocketAddr }
struct Set { tcp: Endpoint, atcp: Endpoint, ws: Endpoint }
struct World { plain: Set, mw: Set, sat: Endpoint, slow: Endpoint, tcp_conns: Mutex<[Option<net::RawTcp>; 4]>, ws_conns: Mutex<[Option<net::RawWs>; 2]> }
static WORLD: OnceLock<World> = OnceLock::new();
fn world() -> &'static World {
    WORLD.get_or_init(|| {
        let mk = |mw: bool| {
            let (a, b, c) = (Shared::new(), Shared::new(), Shared::new());
            Set {
                tcp: Endpoint { addr: net::start_tcp(build_router(&a, mw)), sh: a },
                atcp: Endpoint { addr: net::start_async(build_router(&b, mw)), sh: b },
                // no cap on concurrent off-reader handlers: shedding is exercised on the `sat` server
                ws: Endpoint { addr: net::start_ws(WebSocketServer::new(build_router(&c, mw)).with_offreader_limit(0)), sh: c },
            }
        };
        let s = Shared::new();
        let sat = Endpoint { addr: net::start_ws(WebSocketServer::new(build_router(&s, false)).with_offreader_limit(1)), sh: s };
        // an async TCP server with a read timeout, for requests that trickle in (`gap=`)
        let s2 = Shared::new();
        let slow = Endpoint { addr: net::start_async_rt(build_router(&s2, false), SLOW_READ_TIMEOUT), sh: s2 };
        World { plain: mk(false), mw: mk(true), sat, slow, tcp_conns: Mutex::new([None, None, None, None]), ws_conns: Mutex::new([None, None]) }
    })
}

// ---------------------------------------------------------------------------
// requests and their oracle inputs
// ---------------------------------------------------------------------------
#[derive(Clone, PartialEq, Debug)]
enum UOut { Val(u16, Vec<u8>), Msg { ec: u32, qf: u16, bf: u16, q: Vec<u8>, b: Vec<u8> }, Err(u32, Vec<u8>), Panic }
#[derive(Clone, PartialEq, Debug)]
struct Oracle { utf8: bool, decfail: Option<Vec<u8>>, user: UOut, mw: Option<(u32, Vec<u8>)>, gate: bool, write: bool }
#[derive(Clone, Debug)]
struct Req { id: u64, ntf: u8, ver: u8, qf: u16, bf: u16, ec: u32, q: Vec<u8>, b: Vec<u8>, sat: bool }

fn json_or_beve<T: serde::de::DeserializeOwned>(bf: u16, body: &[u8]) -> Result<T, String> {
    match bf {
        2 | 3 => serde_json::from_slice::<T>(body).map_err(|e| RepeError::Json(e).to_string()),
        1 => beve::from_slice::<T>(body).map_err(|e| RepeError::Beve(e).to_string()),
        _ => Err(String::new()),
    }
}
fn slice_compat(body: &[u8]) -> Result<Vec<u32>, String> {
    if body == [0x05, 0x00] { return Ok(vec![]); }
    beve::read_typed_slice::<u32>(body).map_err(|e| RepeError::Beve(e).to_string())
}

/// everything about a request that the model takes as given
fn oracle(r: &Req) -> Oracle {
    let utf8 = std::str::from_utf8(&r.q).is_ok();
    let mw = (r.ec == MW_MAGIC).then(|| (7u32, RepeError::ServerError { code: ErrorCode::Timeout, message: "mw says no".into() }.to_string().into_bytes()));
    let path = std::str::from_utf8(&r.q).unwrap_or("");
    let none = Oracle { utf8, decfail: None, user: UOut::Val(0, vec![]), mw: mw.clone(), gate: false, write: false };
    // placeholder where the user function is not reached
    let na = || UOut::Val(0, vec![]);
    let Some(rid) = lookup(path) else { return none };
    if !utf8 { return none; }
    let d = &ROUTES[rid];
    let errv = |i: usize, m: String| UOut::Err(CODE_NUMS[i], m.into_bytes());
    let mut gate = false;
    let mut write = false;
    let (decfail, user): (Option<Vec<u8>>, UOut) = match d.kind {
        Kind::Json | Kind::JsonCtx => match json_or_beve::<Value>(r.bf, &r.b) {
            Err(m) => (Some(m.into_bytes()), na()),
            Ok(v) => {
                let wrap = |x: Value| if d.kind == Kind::JsonCtx { json!({"m": path, "x": x}) } else { x };
                (None, match act_value(&v) {
                    Act::Ok(x) => UOut::Val(2, serde_json::to_vec(&wrap(x)).unwrap()),
                    Act::None => UOut::Val(2, serde_json::to_vec(&wrap(Value::Null)).unwrap()),
                    Act::Err(i, m) => errv(i, m),
                    Act::Panic => UOut::Panic,
                    Act::Gate => { gate = true; UOut::Val(2, serde_json::to_vec(&wrap(json!("gated"))).unwrap()) }
                })
            }
        },
        Kind::Typed | Kind::TypedCtx | Kind::Adapter => match json_or_beve::<In>(r.bf, &r.b) {
            Err(m) => (Some(m.into_bytes()), na()),
            Ok(i) => (None, match act_typed(&i, if d.kind == Kind::TypedCtx { path } else { "" }) {
                TAct::Ok(o, f) => { let (bf, b) = typed_body(&o, if d.kind == Kind::Adapter { 0 } else { f }); UOut::Val(bf, b) }
                TAct::Err(c, m) => errv(c, m),
                TAct::Panic => UOut::Panic,
            }),
        },
        Kind::Slice | Kind::SliceRef => {
            let dec = if d.kind == Kind::SliceRef && r.b.first() == Some(&0x5c) { beve::read_aligned_typed_slice::<u32>(&r.b).map_err(|e| RepeError::Beve(e).to_string()) } else { slice_compat(&r.b) };
            match dec {
                Err(m) => (Some(m.into_bytes()), na()),
                Ok(xs) => (None, match act_slice(&xs) { SAct::Ok(v) => UOut::Val(1, beve::to_vec_typed_slice(&v)), SAct::Err(c, m) => errv(c, m), SAct::Panic => UOut::Panic }),
            }
        }
        Kind::Erased => (None, match act_erased(&r.b) {
            EAct::Msg { ec, qf, bf, q, b } => UOut::Msg { ec, qf, bf, q, b },
            EAct::Err(e) => UOut::Err(erased_err_code(&e), e.to_string().into_bytes()),
            EAct::Panic => UOut::Panic,
            EAct::Gate => { gate = true; UOut::Msg { ec: 0, qf: 1, bf: 3, q: vec![], b: b"gated".to_vec() } }
        }),
        Kind::Struct => {
            let rel = &path[d.path.len()..];
            let segs: Vec<&str> = if rel.is_empty() { vec![] } else { rel[1..].split('/').collect() };
            let body: Result<Option<Value>, String> = if r.b.is_empty() { Ok(None) } else { json_or_beve::<Value>(r.bf, &r.b).map(Some) };
            match body {
                Err(m) => (Some(m.into_bytes()), na()),
                Ok(b) => (None, match struct_act(&segs, b) {
                    Ok(v) => UOut::Val(2, serde_json::to_vec(&v.unwrap_or(Value::Null)).unwrap()),
                    Err((e, code)) => UOut::Err(code, e.to_string().into_bytes()),
                }),
            }
        }
        Kind::Registry => {
            let ptr = if path == d.path { "/" } else { &path[d.path.len()..] };
            if r.b.is_empty() {
                // reads of the fixed registry content: two callables, the object `deep` that holds one of them
                let found = |v: Value| UOut::Val(2, serde_json::to_vec(&v).unwrap());
                let missing = |p: &str| UOut::Err(6, format!("path not found `{p}`").into_bytes());
                (None, match ptr {
                    "/" => found(json!({"deep": {}})),
                    "/fn" | "/deep/fn2" => found(json!({"type": "function", "path": ptr})),
                    "/deep" => found(json!({})),
                    "/nope" => missing("/nope"),
                    "/deep/x" => missing("/deep/x"),
                    "/fn/x" => missing("/fn"),
                    _ => { write = true; na() } // not generated
                })
            } else {
                let dec: Result<Value, String> = match r.bf {
                    2 => serde_json::from_slice::<Value>(&r.b).map_err(|e| repe::RegistryError::Json(e).to_string()),
                    1 => beve::from_slice::<Value>(&r.b).map_err(|e| repe::RegistryError::Beve(e).to_string()),
                    3 => std::str::from_utf8(&r.b).map(|s| Value::String(s.to_string())).map_err(|e| repe::RegistryError::InvalidUtf8(e).to_string()),
                    0 => Ok(Value::Array(r.b.iter().map(|x| Value::from(*x)).collect())),
                    _ => Err(String::new()),
                };
                match dec {
                    Err(m) => (Some(m.into_bytes()), na()),
                    Ok(v) => (None, if d.fns.contains(&ptr) {
                        match act_value(&v) {
                            Act::Ok(x) => UOut::Val(2, serde_json::to_vec(&x).unwrap()),
                            Act::None => UOut::Val(2, b"null".to_vec()),
                            Act::Err(i, m) => errv(i, m),
                            Act::Panic => UOut::Panic,
                            Act::Gate => UOut::Val(2, serde_json::to_vec(&json!("gated")).unwrap()),
                        }
                    } else { write = true; na() /* a write: not generated */ }),
                }
            }
        }
    };
    Oracle { utf8, decfail, user, mw, gate, write }
}

// ---------------------------------------------------------------------------
// case text
// ---------------------------------------------------------------------------
fn uout_s(u: &UOut) -> String {
    match u {
        UOut::Val(bf, b) => format!("v:{}:{}", hx(*bf as u64), hex(b)),
        UOut::Msg { ec, qf, bf, q, b } => format!("m:{}:{}:{}:{}:{}", hx(*ec as u64), hx(*qf as u64), hx(*bf as u64), hex(q), hex(b)),
        UOut::Err(c, m) => format!("e:{}:{}", hx(*c as u64), hex(m)),
        UOut::Panic => "p".into(),
    }
}
fn req_s(r: &Req, o: &Oracle) -> String {
    format!("{}/{}/{}/{}/{}/{}/{}/{}/{}/{}/{}/{}/{}", hx(r.id), hx(r.ntf as u64), hx(r.ver as u64), hx(r.qf as u64), hx(r.bf as u64), hx(r.ec as u64), hex(&r.q), hex(&r.b),
        o.utf8 as u8, match &o.decfail { None => "ok".to_string(), Some(m) => format!("f{}", hex(m)) }, uout_s(&o.user),
        match &o.mw { None => "-".to_string(), Some((c, m)) => format!("{}:{}", hx(*c as u64), hex(m)) }, r.sat as u8)
}
fn parse_req(s: &str) -> (Req, String) {
    let t: Vec<&str> = s.split('/').collect();
    assert!(t.len() == 13, "bad request token");
    (Req { id: ph(t[0]), ntf: ph(t[1]) as u8, ver: ph(t[2]) as u8, qf: ph(t[3]) as u16, bf: ph(t[4]) as u16, ec: ph(t[5]) as u32, q: unhex(t[6]), b: unhex(t[7]), sat: t[12] == "1" },
     format!("{}/{}/{}/{}", t[8], t[9], t[10], t[11]))
}
fn oracle_s(o: &Oracle) -> String {
    format!("{}/{}/{}/{}", o.utf8 as u8, match &o.decfail { None => "ok".to_string(), Some(m) => format!("f{}", hex(m)) }, uout_s(&o.user), match &o.mw { None => "-".to_string(), Some((c, m)) => format!("{}:{}", hx(*c as u64), hex(m)) })
}

fn frame(r: &Req) -> Vec<u8> {
    let mut f = Vec::with_capacity(48 + r.q.len() + r.b.len());
    f.extend_from_slice(&((48 + r.q.len() + r.b.len()) as u64).to_le_bytes());
    f.extend_from_slice(&0x1507u16.to_le_bytes());
    f.push(r.ver);
    f.push(r.ntf);
    f.extend_from_slice(&0u32.to_le_bytes());
    f.extend_from_slice(&r.id.to_le_bytes());
    f.extend_from_slice(&(r.q.len() as u64).to_le_bytes());
    f.extend_from_slice(&(r.b.len() as u64).to_le_bytes());
    f.extend_from_slice(&r.qf.to_le_bytes());
    f.extend_from_slice(&r.bf.to_le_bytes());
    f.extend_from_slice(&r.ec.to_le_bytes());
    f.extend_from_slice(&r.q);
    f.extend_from_slice(&r.b);
    f
}
fn sync_frame() -> Vec<u8> {
    frame(&Req { id: SYNC_ID, ntf: 0, ver: 1, qf: 1, bf: 0, ec: 0, q: b"/__sync".to_vec(), b: vec![], sat: false })
}

fn le(b: &[u8]) -> u64 { let mut x = [0u8; 8]; x[..b.len()].copy_from_slice(b); u64::from_le_bytes(x) }
/// a received frame as `id/ec/qf/bf/query/body`, or a complaint about its framing
fn resp_s(f: &[u8]) -> String {
    if f.len() < 48 { return format!("short{}", f.len()); }
    let (len, spec, ver, ntf, rsv, id, ql, bl, qf, bf, ec) = (le(&f[0..8]), le(&f[8..10]), f[10], f[11], le(&f[12..16]), le(&f[16..24]), le(&f[24..32]), le(&f[32..40]), le(&f[40..42]), le(&f[42..44]), le(&f[44..48]));
    if len != f.len() as u64 || spec != 0x1507 || ver != 1 || ntf != 0 || rsv != 0 || 48 + ql + bl != len { return format!("badframe:{}", hex(&f[..48])); }
    let q = &f[48..48 + ql as usize]; let b = &f[48 + ql as usize..];
    format!("{}/{}/{}/{}/{}/{}", hx(id), hx(ec), hx(qf), hx(bf), hex(q), hex(b))
}
fn frame_id(f: &[u8]) -> u64 { if f.len() >= 24 { le(&f[16..24]) } else { 0 } }

// ---------------------------------------------------------------------------
// running one case
// ---------------------------------------------------------------------------
struct TObs { resps: Vec<String>, alive: bool, note: Option<String> }

fn tcp_conn<'a>(slot: &'a mut Option<net::RawTcp>, addr: SocketAddr) -> Result<&'a mut net::RawTcp, String> {
    if slot.is_none() { *slot = Some(net::RawTcp::connect(addr).map_err(|e| format!("connect:{}", e.kind()))?); }
    Ok(slot.as_mut().unwrap())
}

fn tcp_send(slot: &mut Option<net::RawTcp>, addr: SocketAddr, frames: &[Vec<u8>]) -> Result<(), String> {
    let c = tcp_conn(slot, addr)?;
    let mut all = Vec::new();
    for f in frames { all.extend_from_slice(f); }
    // the first bytes of the next frame (the sync request) ride in the same write: the server has
    // an incomplete frame buffered while it owes the responses of the complete ones
    all.extend_from_slice(&sync_frame()[..SYNC_HEAD]);
    c.send(&all).map_err(|e| format!("send:{}", e.kind()))
}
/// `cuts=<ms>:<o1>.<o2>...`: the same bytes as `tcp_send`, but request i with 0 < o_i < its length
/// leaves in two pieces, the peer pausing `ms` after the first o_i bytes of the frame (inside the
/// header, between header and query, inside the query, inside the body)
fn tcp_send_cut(slot: &mut Option<net::RawTcp>, addr: SocketAddr, frames: &[Vec<u8>], ms: u64, cuts: &[usize]) -> Result<(), String> {
    let c = tcp_conn(slot, addr)?;
    let mut all = Vec::new();
    let mut marks = vec![];
    for (i, f) in frames.iter().enumerate() {
        let k = cuts.get(i).copied().unwrap_or(0);
        if k > 0 && k < f.len() { marks.push(all.len() + k); }
        all.extend_from_slice(f);
    }
    all.extend_from_slice(&sync_frame()[..SYNC_HEAD]);
    let mut from = 0;
    for m in marks {
        c.send(&all[from..m]).map_err(|e| format!("send:{}", e.kind()))?;
        std::thread::sleep(Duration::from_millis(ms));
        from = m;
    }
    c.send(&all[from..]).map_err(|e| format!("send:{}", e.kind()))
}
/// read timeout of the `gap=` server: every single gap is shorter, a whole trickled pipeline longer
const SLOW_READ_TIMEOUT: Duration = Duration::from_millis(400);
/// how much of the sync request is sent ahead, with the pipeline
const SYNC_HEAD: usize = 20;
/// Two phases.  (1) The pipeline was sent in one write with only the first bytes of a further frame
/// behind it: every response it is owed (`expected` = the non-notify requests) must arrive without any further traffic.
/// (2) Only then is the sync request sent; a response that shows up only now was withheld until
/// more bytes arrived (reported as the note `withheld:<n>`).
fn tcp_collect(slot: &mut Option<net::RawTcp>, expected: usize) -> TObs {
    let mut o = TObs { resps: vec![], alive: false, note: None };
    let Some(c) = slot.as_mut() else { o.note = Some("noconn".into()); return o };
    let t0 = Instant::now();
    while o.resps.len() < expected {
        let left = Duration::from_millis(2500).saturating_sub(t0.elapsed());
        if left.is_zero() { break; }
        let _ = c.s.set_read_timeout(Some(left));
        let mut probe = [0u8; 1];
        match c.s.peek(&mut probe) {
            Ok(0) => { o.note = Some("recv:closed".into()); return o; }
            Ok(_) => {
                let _ = c.s.set_read_timeout(Some(Duration::from_secs(8)));
                match c.recv() { Ok(f) => o.resps.push(resp_s(&f)), Err(e) => { o.note = Some(format!("recv:{}", e.kind())); return o; } }
            }
            Err(e) if matches!(e.kind(), std::io::ErrorKind::WouldBlock | std::io::ErrorKind::TimedOut) => break,
            Err(e) => { o.note = Some(format!("recv:{}", e.kind())); return o; }
        }
    }
    let before = o.resps.len();
    if let Err(e) = c.send(&sync_frame()[SYNC_HEAD..]) { o.note = Some(format!("send:{}", e.kind())); return o; }
    let _ = c.s.set_read_timeout(Some(Duration::from_secs(8)));
    loop {
        match c.recv() {
            Ok(f) => { if frame_id(&f) == SYNC_ID { o.alive = true; break; } o.resps.push(resp_s(&f)); }
            Err(e) => { o.note = Some(format!("recv:{}", e.kind())); break; }
        }
    }
    if o.alive && o.resps.len() > before && before < expected { o.note = Some(format!("withheld:{:x}", o.resps.len() - before)); }
    o
}
/// after the grace period: anything more on the wire is an extra frame
fn tcp_extras(slot: &mut Option<net::RawTcp>, o: &mut TObs) {
    let mut drop_conn = !o.alive;
    if let Some(c) = slot.as_mut() {
        let _ = c.s.set_read_timeout(Some(Duration::from_millis(2)));
        let mut probe = [0u8; 1];
        match c.s.peek(&mut probe) {
            Ok(0) => { if o.alive { o.alive = false; o.note = Some("closed-after".into()); } drop_conn = true; }
            Ok(_) => {
                let _ = c.s.set_read_timeout(Some(Duration::from_millis(500)));
                while let Ok(f) = c.recv() { o.resps.push(format!("extra:{}", resp_s(&f))); if o.resps.len() > 200 { break; } }
                drop_conn = true;
            }
            Err(_) => {}
        }
    }
    if drop_conn { *slot = None; }
}

fn run_case(line: &str) -> String {
    let f = fields(line);
    let mw = f["mw"] == "1";
    let tr = ph(&f["tr"]);
    let sat = f["sat"] == "1";
    let parsed: Vec<(Req, String)> = if f["reqs"] == "-" { vec![] } else { f["reqs"].split(';').map(parse_req).collect() };
    let r = guard(move || -> String {
        if f["tbl"] != table_token() { return "crash=table-mismatch".into(); }
        // the oracle inputs written in the case must be the ones recomputed from the bytes
        let mut any_gate = false;
        for (r, o) in &parsed { let oc = oracle(r); any_gate |= oc.gate; if oracle_s(&oc) != *o { return format!("crash=oracle-mismatch:{}", hx(r.id)); } }
        let reqs: Vec<Req> = parsed.iter().map(|(r, _)| r.clone()).collect();
        let frames: Vec<Vec<u8>> = reqs.iter().map(frame).collect();
        let expected = reqs.iter().filter(|r| r.ntf != 1).count();
        let w = world();
        let set = if mw { &w.mw } else { &w.plain };
        let base = if mw { 2 } else { 0 };
        let mut out = String::new();
        let mut tcp_slots = w.tcp_conns.lock().unwrap();
        let mut ws_slots = w.ws_conns.lock().unwrap();
        let use_tcp = tr & 1 != 0; let use_atcp = tr & 2 != 0; let use_ws = tr & 4 != 0;
        // oq=<n> hold=<ms>: a WebSocket server of its own whose outbound queue holds n messages, over
        // 4 KiB socket buffers, and a peer that reads nothing until it has sent the whole pipeline,
        // then waits `hold`, lets the gated handlers return together, waits `hold` again and only then reads
        let oq: Option<usize> = f.get("oq").map(|q| ph(q) as usize);
        let hold = Duration::from_millis(f.get("hold").map(|h| ph(h)).unwrap_or(0));
        let oq_ep: Option<Endpoint> = match oq {
            None => None,
            Some(q) => {
                let s = Shared::new();
                match net::start_ws_small(WebSocketServer::new(build_router(&s, mw)).with_offreader_limit(0).with_outbound_capacity(q.max(1))) {
                    Ok(addr) => Some(Endpoint { addr, sh: s }),
                    Err(e) => return format!("crash=oq-server:{}", e.replace(' ', "_")),
                }
            }
        };
        let fresh_ws = sat || oq.is_some();
        let ws_ep = match &oq_ep { Some(e) => e, None => if sat { &w.sat } else { &set.ws } };
        let cuts: Option<(u64, Vec<usize>)> = f.get("cuts").and_then(|c| c.split_once(':')).map(|(ms, l)| (ph(ms), l.split('.').map(|x| ph(x) as usize).collect()));
        // --- send everything first
        let mut notes: Vec<String> = vec![];
        if let Some((ms, cl)) = &cuts {
            // both TCP servers receive the pieces at the same moments
            set.tcp.sh.reset(); set.atcp.sh.reset();
            let (lo, hi) = tcp_slots.split_at_mut(base + 1);
            let (s0, s1) = (&mut lo[base], &mut hi[0]);
            let (r0, r1) = std::thread::scope(|sc| {
                let h0 = sc.spawn(|| if use_tcp { tcp_send_cut(s0, set.tcp.addr, &frames, *ms, cl) } else { Ok(()) });
                let h1 = sc.spawn(|| if use_atcp { tcp_send_cut(s1, set.atcp.addr, &frames, *ms, cl) } else { Ok(()) });
                (h0.join().unwrap_or(Err("panic".into())), h1.join().unwrap_or(Err("panic".into())))
            });
            if let Err(e) = r0 { notes.push(format!("tcp-{e}")); }
            if let Err(e) = r1 { notes.push(format!("atcp-{e}")); }
        }
        if use_tcp && cuts.is_none() { set.tcp.sh.reset(); if let Err(e) = tcp_send(&mut tcp_slots[base], set.tcp.addr, &frames) { notes.push(format!("tcp-{e}")); } }
        // gap=<ms>: the frames trickle in one by one on a fresh connection to the server that has a
        // read timeout (an idle timeout is per read: a steady trickle never trips it)
        // cfg=1: the same server (read and write timeouts configured) for an ordinary pipeline
        let gap = f.get("gap").map(|g| ph(g)).or(if f.get("cfg").map(|c| c == "1").unwrap_or(false) { Some(0) } else { None });
        let atcp_ep = if gap.is_some() { &w.slow } else { &set.atcp };
        let mut slow_slot: Option<net::RawTcp> = None;
        if use_atcp && cuts.is_none() {
            atcp_ep.sh.reset();
            match gap {
                None => if let Err(e) = tcp_send(&mut tcp_slots[base + 1], atcp_ep.addr, &frames) { notes.push(format!("atcp-{e}")); },
                Some(ms) => {
                    let r = (|| -> Result<(), String> {
                        let c = tcp_conn(&mut slow_slot, atcp_ep.addr)?;
                        if ms == 0 { let all: Vec<u8> = frames.concat(); if !all.is_empty() { c.send(&all).map_err(|e| format!("send:{}", e.kind()))?; } }
                        else { for fr in &frames { c.send(fr).map_err(|e| format!("send:{}", e.kind()))?; std::thread::sleep(Duration::from_millis(ms)); } }
                        c.send(&sync_frame()[..SYNC_HEAD]).map_err(|e| format!("send:{}", e.kind()))
                    })();
                    if let Err(e) = r { notes.push(format!("atcp-{e}")); }
                }
            }
        }
        let mut sat_conn: Option<net::RawWs> = None;
        if use_ws {
            ws_ep.sh.reset();
            ws_ep.sh.set_gate(!any_gate);
            let slot: &mut Option<net::RawWs> = if fresh_ws { &mut sat_conn } else { &mut ws_slots[if mw { 1 } else { 0 }] };
            if slot.is_none() { match if oq.is_some() { net::RawWs::connect_small(ws_ep.addr) } else { net::RawWs::connect(ws_ep.addr) } { Ok(c) => *slot = Some(c), Err(e) => notes.push(format!("ws-connect:{}", e.replace(' ', "_"))) } }
            if let Some(c) = slot.as_mut() {
                for fr in frames.iter().chain(std::iter::once(&sync_frame())) { if let Err(e) = c.send(fr) { notes.push(format!("ws-send:{}", e.replace(' ', "_"))); break; } }
            }
        }
        // --- collect
        let mut t_tcp = if use_tcp { Some(tcp_collect(&mut tcp_slots[base], expected)) } else { None };
        let mut t_atcp = if use_atcp { Some(if gap.is_some() { tcp_collect(&mut slow_slot, expected) } else { tcp_collect(&mut tcp_slots[base + 1], expected) }) } else { None };
        let mut t_ws = None;
        if use_ws {
            let slot: &mut Option<net::RawWs> = if fresh_ws { &mut sat_conn } else { &mut ws_slots[if mw { 1 } else { 0 }] };
            let mut o = TObs { resps: vec![], alive: false, note: None };
            if let Some(c) = slot.as_mut() {
                let mut released = !any_gate;
                if oq.is_some() {
                    // nothing has been read so far: the writer is stuck on the socket and the queue is
                    // full when the parked handlers return together; reading starts only afterwards
                    std::thread::sleep(hold);
                    ws_ep.sh.set_gate(true); released = true;
                    std::thread::sleep(hold);
                }
                let deadline = Instant::now() + Duration::from_secs(if oq.is_some() { 10 } else { 6 });
                loop {
                    let want = if released { expected } else { expected.saturating_sub(1) };
                    if o.alive && o.resps.len() >= want {
                        if released { break; }
                        // everything but the gated request has been answered: open the gate
                        ws_ep.sh.set_gate(true); released = true; continue;
                    }
                    let left = deadline.saturating_duration_since(Instant::now());
                    if left.is_zero() { o.note = Some("timeout".into()); break; }
                    match c.recv(left.min(Duration::from_secs(3))) {
                        Ok(fr) => { if frame_id(&fr) == SYNC_ID { o.alive = true; } else { o.resps.push(resp_s(&fr)); } }
                        Err(e) => { if e != "timeout" { o.note = Some(e.replace(' ', "_")); break; } }
                    }
                }
                ws_ep.sh.set_gate(true);
            } else { o.note = Some("noconn".into()); }
            t_ws = Some(o);
        }
        // --- grace, then extras and counters
        std::thread::sleep(GRACE);
        if let Some(o) = t_tcp.as_mut() { tcp_extras(&mut tcp_slots[base], o); }
        if let Some(o) = t_atcp.as_mut() { if gap.is_some() { tcp_extras(&mut slow_slot, o); } else { tcp_extras(&mut tcp_slots[base + 1], o); } }
        if let Some(o) = t_ws.as_mut() {
            let slot: &mut Option<net::RawWs> = if fresh_ws { &mut sat_conn } else { &mut ws_slots[if mw { 1 } else { 0 }] };
            let mut broken = !o.alive;
            if let Some(c) = slot.as_mut() {
                loop {
                    match c.recv(Duration::from_millis(2)) {
                        Ok(fr) => { o.resps.push(format!("extra:{}", resp_s(&fr))); if o.resps.len() > 200 { break; } }
                        Err(e) => { if e != "timeout" { if o.alive { o.alive = false; o.note = Some(format!("after:{}", e.replace(' ', "_"))); } broken = true; } break; }
                    }
                }
            }
            if broken { *slot = None; }
            // off-reader notifies have no response to wait for: let their counters settle
            let mut last = ws_ep.sh.snapshot(); let mut stable = 0;
            let t0 = Instant::now();
            while stable < 3 && t0.elapsed() < Duration::from_secs(2) {
                std::thread::sleep(Duration::from_millis(25));
                let now = ws_ep.sh.snapshot();
                if now == last { stable += 1; } else { stable = 0; last = now; }
            }
        }
        drop(sat_conn);
        let mut emit = |name: &str, o: &Option<TObs>, sh: &Shared| {
            if let Some(o) = o {
                let (cnt, m) = sh.snapshot();
                out.push_str(&format!("{name}={} {name}c={} {name}m={} {name}a={} ", if o.resps.is_empty() { "-".to_string() } else { o.resps.join(";") },
                    cnt.iter().map(|x| hx(*x)).collect::<Vec<_>>().join("."), hx(m), o.alive as u8));
                if let Some(n) = &o.note { out.push_str(&format!("{name}n={n} ")); }
            }
        };
        emit("tcp", &t_tcp, &set.tcp.sh);
        emit("atcp", &t_atcp, &atcp_ep.sh);
        emit("ws", &t_ws, &ws_ep.sh);
        if !notes.is_empty() { out.push_str(&format!("notes={}", notes.join(","))); }
        out.trim_end().to_string()
    });
    r.unwrap_or_else(|_| "crash=panic".into())
}

// ---------------------------------------------------------------------------
// generation
// ---------------------------------------------------------------------------
const REG_READS: &[&str] = &["/reg", "/reg/", "/reg/fn", "/reg/deep/fn2", "/reg/deep", "/reg/nope", "/reg/deep/x", "/reg/fn/x"];
const ST_PATHS: &[&str] = &["/st", "/st/a", "/st/a/b", "/st/", "/st/x/y/z"];
const MISS_PATHS: &[&str] = &["", "/", "/nope", "/json/x", "/jsonx", "/JSON", "/regx", "/stx", "/re", "json", "/typed/", "/\u{e9}t\u{e9}"];
const BAD_UTF8: &[&[u8]] = &[b"\xff", b"/json\xc3", b"/\xc0\xaf", b"/typed\xed\xa0\x80", b"\x80/json"];

fn value_payload(rng: &mut Rng, allow_panic: bool) -> Value {
    let n = rng.below(1000);
    match rng.below(if allow_panic { 12 } else { 11 }) {
        0..=3 => json!({"op": "ok", "v": n}),
        4 | 5 => json!({"op": "err", "code": rng.below(11), "v": n}),
        6 => json!({"op": "none"}),
        7 => json!(n),
        8 => json!([1, "two", {"k": n}]),
        9 => json!("text"),
        10 => json!({"op": "other", "v": n}),
        _ => json!({"op": "panic"}),
    }
}
fn typed_payload(rng: &mut Rng, allow_panic: bool) -> Value {
    let n = rng.below(1000) as i64 - 500;
    match rng.below(if allow_panic { 11 } else { 10 }) {
        0..=3 => json!({"op": "ok", "v": n, "fmt": rng.below(4)}),
        4 | 5 => json!({"op": "err", "code": rng.below(11), "v": n}),
        6 => json!({"op": "zzz"}),
        7 => json!({"v": n}),            // missing field: undecodable as `In`
        8 => json!([1, 2]),              // wrong shape
        9 => json!({"op": "ok", "v": "NaN"}), // wrong field type
        _ => json!({"op": "panic"}),
    }
}
fn erased_payload(rng: &mut Rng, allow_panic: bool) -> Value {
    let n = rng.below(1000);
    match rng.below(if allow_panic { 11 } else { 10 }) {
        0..=2 => json!({"op": "ok", "v": n, "bf": *rng.pick(&[0u64, 1, 2, 3, 0x1234]), "ec": *rng.pick(&[0u64, 0, 0, 7, 4100]), "qf": *rng.pick(&[1u64, 1, 0, 9])}),
        3 => json!({"op": "ownq", "v": n}),
        4 => json!({"op": "ownq", "v": n, "ec": *rng.pick(&[0u64, 7, 9, 4100])}),
        5 | 6 => json!({"op": "err", "code": rng.below(11), "v": n}),
        7 => json!({"op": "io"}),
        8 => json!({"op": "ubf"}),
        9 => json!("free text"),
        _ => json!({"op": "panic"}),
    }
}
/// an encoding of `v` and a body-format code, matching or not
fn encode_value(rng: &mut Rng, v: &Value) -> (u16, Vec<u8>) {
    let js = serde_json::to_vec(v).unwrap();
    let bv = beve::to_vec(v).unwrap();
    match rng.below(20) {
        0..=5 => (2, js),
        6 | 7 => (3, js),
        8..=10 => (1, bv),
        11 => (0, js),
        12 => (*rng.pick(&[4u16, 7, 0xffff, 0x0100]), js),
        13 => (1, js),                               // JSON text announced as BEVE
        14 => (2, bv),                               // BEVE announced as JSON
        15 => (*rng.pick(&[2u16, 3]), js[..js.len() / 2].to_vec()),   // truncated JSON
        16 => (1, bv[..bv.len() - 1].to_vec()),      // truncated BEVE
        17 => { let n = rng.below(12) as usize; (*rng.pick(&[0u16, 1, 2, 3]), rng.bytes(n)) }
        18 => (*rng.pick(&[0u16, 1, 2, 3, 9]), vec![]),
        _ => (3, { let mut x = js.clone(); x.push(0xff); x }),      // not UTF-8, not JSON
    }
}
fn encode_slice(rng: &mut Rng, allow_panic: bool) -> (u16, Vec<u8>) {
    let n = rng.below(6) as usize;
    let mut xs: Vec<u32> = (0..n).map(|_| rng.below(50) as u32 + 3).collect();
    if n > 0 { match rng.below(if allow_panic { 6 } else { 5 }) { 0 | 1 => xs[0] = 0, 2 => xs[0] = 1, 5 => xs[0] = 2, _ => {} } }
    if xs.len() > 1 && xs[0] == 1 { xs[1] = rng.below(11) as u32; }
    let typed = beve::to_vec_typed_slice(&xs);
    match rng.below(14) {
        0..=4 => (1, typed),
        5 | 6 => (1, beve::to_vec_aligned_typed_slice(&xs)),
        7 => (1, vec![0x05, 0x00]),
        8 => (1, beve::to_vec(&xs).unwrap()),
        9 => (1, beve::to_vec_typed_slice(&xs.iter().map(|x| *x as u16).collect::<Vec<u16>>())),
        10 => (1, typed[..typed.len().saturating_sub(1)].to_vec()),
        11 => (*rng.pick(&[0u16, 2, 3, 5]), typed),
        12 => (1, serde_json::to_vec(&xs).unwrap()),
        _ => { let a = beve::to_vec_aligned_typed_slice(&xs); (1, a[..a.len().saturating_sub(2)].to_vec()) }
    }
}

struct Gen { next_id: u64 }
impl Gen {
    fn id(&mut self, rng: &mut Rng) -> u64 {
        self.next_id += 1;
        match rng.below(8) { 0 => self.next_id, 1 => (rng.next() << 8 | self.next_id) & 0x7fff_ffff_ffff_ffff, _ => 0x1000 + self.next_id * 3 }
    }
    /// a request aimed at route `rid` (or at no route when None)
    fn request(&mut self, rng: &mut Rng, target: Option<usize>, allow_panic: bool) -> Req {
        let id = self.id(rng);
        let ntf = match rng.below(10) { 0 | 1 => 1, 2 => *rng.pick(&[2u8, 0xff, 0x80]), _ => 0 };
        let ver = match rng.below(14) { 0 => *rng.pick(&[0u8, 2, 0xff, 100]), _ => 1 };
        let qf = match rng.below(14) { 0 => *rng.pick(&[0u16, 2, 0xffff, 0x0101]), _ => 1 };
        let ec = match rng.below(8) { 0 => MW_MAGIC, 1 => rng.next() as u32, _ => 0 };
        let (q, bf, b): (Vec<u8>, u16, Vec<u8>) = match target {
            None => {
                let q = if rng.chance(1, 3) { rng.pick(BAD_UTF8).to_vec() } else { rng.pick(MISS_PATHS).as_bytes().to_vec() };
                let (bf, b) = { let pv = value_payload(rng, false); encode_value(rng, &pv) };
                (q, bf, b)
            }
            Some(rid) => {
                let d = &ROUTES[rid];
                let panic_ok = allow_panic && d.off;
                match d.kind {
                    Kind::Json | Kind::JsonCtx => { let (bf, b) = { let pv = value_payload(rng, panic_ok); encode_value(rng, &pv) }; (d.path.as_bytes().to_vec(), bf, b) }
                    Kind::Typed | Kind::TypedCtx | Kind::Adapter => { let (bf, b) = { let pv = typed_payload(rng, panic_ok); encode_value(rng, &pv) }; (d.path.as_bytes().to_vec(), bf, b) }
                    Kind::Slice | Kind::SliceRef => { let (bf, b) = encode_slice(rng, false); (d.path.as_bytes().to_vec(), bf, b) }
                    Kind::Erased => { let (bf, b) = { let pv = erased_payload(rng, panic_ok); encode_value(rng, &pv) }; (d.path.as_bytes().to_vec(), bf, b) }
                    Kind::Struct => {
                        let (bf, b) = if rng.chance(1, 3) { (*rng.pick(&[0u16, 1, 2, 3, 8]), vec![]) } else { { let pv = value_payload(rng, false); encode_value(rng, &pv) } };
                        (rng.pick(ST_PATHS).as_bytes().to_vec(), bf, b)
                    }
                    Kind::Registry => {
                        if rng.chance(1, 2) { (rng.pick(REG_READS).as_bytes().to_vec(), *rng.pick(&[0u16, 1, 2, 3, 8]), vec![]) }
                        else {
                            let (bf, b) = { let pv = value_payload(rng, false); encode_value(rng, &pv) };
                            let q = if rng.chance(3, 4) { *rng.pick(&["/reg/fn", "/reg/deep/fn2"]) } else { *rng.pick(REG_READS) };
                            (q.as_bytes().to_vec(), bf, b)
                        }
                    }
                }
            }
        };
        let mut r = Req { id, ntf, ver, qf, bf, ec, q, b, sat: false };
        // never write into the registry (its content is part of the fixed oracle): a non-empty,
        // decodable body goes to callables only
        if let Some(rid) = lookup(std::str::from_utf8(&r.q).unwrap_or("")) {
            if ROUTES[rid].kind == Kind::Registry && !r.b.is_empty() {
                let o = oracle(&r);
                if o.write { r.b = vec![]; if oracle(&r).write { r.q = b"/reg/fn".to_vec(); } }
            }
        }
        r
    }
}

fn case_line(i: usize, mw: bool, tr: u64, sat: bool, reqs: &[Req]) -> String {
    let rs: Vec<String> = reqs.iter().map(|r| req_s(r, &oracle(r))).collect();
    format!("i={i} mw={} tr={} sat={} tbl={} reqs={}", mw as u8, hx(tr), sat as u8, table_token(), if rs.is_empty() { "-".to_string() } else { rs.join(";") })
}

fn gen_cases(seed: u64, thorough: bool) -> Vec<String> {
    let mut rng = Rng::new(seed);
    let mut g = Gen { next_id: 0 };
    let mut cases: Vec<(bool, u64, bool, Vec<Req>)> = vec![];
    let maxlen = if thorough { 64 } else { 16 };
    // directed: every route (and no route) alone and in short pipelines, with and without middleware
    for mw in [false, true] {
        for rid in 0..NROUTES {
            let reps = if thorough { 6 } else { 1 };
            for _ in 0..reps {
                let n = rng.range(3, 8) as usize;
                let reqs: Vec<Req> = (0..n).map(|_| g.request(&mut rng, Some(rid), false)).collect();
                cases.push((mw, 7, false, reqs));
            }
        }
        let reqs: Vec<Req> = (0..maxlen.min(24)).map(|_| g.request(&mut rng, None, false)).collect();
        cases.push((mw, 7, false, reqs));
    }
    // random pipelines over everything
    let nrand = if thorough { 1400 } else { 90 };
    for _ in 0..nrand {
        let n = match rng.below(6) { 0 => rng.range(0, 2), 1 => maxlen as u64, _ => rng.range(1, maxlen as u64) } as usize;
        let reqs: Vec<Req> = (0..n).map(|_| { let t = if rng.chance(1, 6) { None } else { Some(rng.below(NROUTES as u64) as usize) }; g.request(&mut rng, t, false) }).collect();
        cases.push((rng.chance(1, 2), 7, false, reqs));
    }
    // panicking user functions behind off-reader routes: WebSocket only
    let npanic = if thorough { 200 } else { 20 };
    let off: Vec<usize> = (0..NROUTES).filter(|i| ROUTES[*i].off).collect();
    for _ in 0..npanic {
        let n = rng.range(1, maxlen as u64 / 2) as usize;
        let reqs: Vec<Req> = (0..n).map(|_| { let t = if rng.chance(2, 3) { Some(*rng.pick(&off)) } else { Some(rng.below(NROUTES as u64) as usize) }; g.request(&mut rng, t, true) }).collect();
        cases.push((rng.chance(1, 2), 4, false, reqs));
    }
    // an exhausted off-reader permit pool (limit 1, the first request parks on a gate): WebSocket only
    let nsat = if thorough { 200 } else { 20 };
    for _ in 0..nsat {
        let gate_rid = *rng.pick(&[1usize, 5, 12]);
        let mut first = g.request(&mut rng, Some(gate_rid), false);
        first.ntf = 0; first.ver = 1; first.qf = 1; first.ec = 0; first.bf = 2; first.b = br#"{"op":"gate"}"#.to_vec();
        let n = rng.range(1, maxlen as u64 / 2) as usize;
        let mut reqs = vec![first];
        for _ in 0..n {
            let t = if rng.chance(2, 3) { Some(*rng.pick(&off)) } else if rng.chance(1, 6) { None } else { Some(rng.below(NROUTES as u64) as usize) };
            let mut r = g.request(&mut rng, t, false);
            // shed iff it reaches an off-reader route while the gate holds the only permit
            let path = std::str::from_utf8(&r.q).ok();
            let dispatched = r.ver == 1 && r.qf == 1 && path.is_some();
            r.sat = dispatched && path.and_then(lookup).map(|i| ROUTES[i].off).unwrap_or(false);
            reqs.push(r);
        }
        cases.push((false, 4, true, reqs));
    }
    let mut lines: Vec<String> = cases.into_iter().enumerate().map(|(i, (mw, tr, sat, reqs))| {
        let l = case_line(i, mw, tr, sat, &reqs);
        // every fifth plain three-transport case runs its async leg against the server that has
        // read and write timeouts configured
        if !mw && !sat && tr == 7 && i % 5 == 0 { format!("{l} cfg=1") } else { l }
    }).collect();
    // a trickle of notifies (each gap shorter than the async server's read timeout, the whole run
    // longer), then a request: every notify handler runs and the request is answered
    for _ in 0..(if thorough { 6 } else { 2 }) {
        let inline: Vec<usize> = (0..NROUTES).filter(|i| !ROUTES[*i].off).collect();
        let n = rng.range(5, 7) as usize;
        let mut reqs: Vec<Req> = (0..n).map(|_| { let rid = *rng.pick(&inline); let mut r = g.request(&mut rng, Some(rid), false); r.ntf = 1; r.ver = 1; r.qf = 1; r }).collect();
        let rid = *rng.pick(&inline); let mut last = g.request(&mut rng, Some(rid), false); last.ntf = 0; last.ver = 1; last.qf = 1;
        reqs.push(last);
        let i = lines.len();
        lines.push(format!("{} gap=78", case_line(i, false, 2, false, &reqs)));
    }
    // a sender that pauses INSIDE a frame (longer than any internal poll interval a server may use):
    // requests leave in two pieces, cut inside the header, at the header/query boundary, inside the
    // query, at the query/body boundary, inside the body, one byte before the end; both TCP servers
    for k in 0..(if thorough { 24 } else { 6 }) {
        let inline: Vec<usize> = (0..NROUTES).filter(|i| !ROUTES[*i].off).collect();
        let n = rng.range(2, 4) as usize;
        let mut reqs: Vec<Req> = (0..n).map(|_| { let rid = *rng.pick(&inline); let mut r = g.request(&mut rng, Some(rid), false); if rng.chance(3, 4) { r.ntf = 0; } r }).collect();
        reqs[n - 1].ntf = 0;
        let ncut = if k % 3 == 0 { 1 } else { 2 };
        let mut cuts = vec![0usize; n];
        for j in 0..ncut {
            let at = (k + j * 2) % n;
            let (ql, bl) = (reqs[at].q.len(), reqs[at].b.len());
            let mut opts: Vec<usize> = vec![*rng.pick(&[1usize, 8, 20, 33, 47]), 48 + ql + bl - 1];
            if ql + bl > 0 { opts.push(48); }
            if ql >= 2 { opts.push(48 + ql / 2); }
            if ql > 0 && bl > 0 { opts.push(48 + ql); }
            if bl >= 2 { opts.push(48 + ql + bl / 2); }
            let c = opts[(k / 2 + j) % opts.len()];
            cuts[at] = if c > 0 && c < 48 + ql + bl { c } else { 20 };
        }
        let i = lines.len();
        lines.push(format!("{} cuts=190:{}", case_line(i, k % 4 == 3, 3, false, &reqs), cuts.iter().map(|c| hx(*c as u64)).collect::<Vec<_>>().join(".")));
    }
    // a peer that sends a whole pipeline before it reads anything, on a WebSocket server whose
    // outbound queue holds 1..3 messages, over 4 KiB socket buffers: the responses (padded to 0.5..1
    // KiB by the user function) overrun the socket buffers and the queue while most requests are
    // still unread.  Flavours: inline routes only; some off-reader handlers parked on the gate first,
    // released together while the queue is full; inline and off-reader routes interleaved.
    for k in 0..(if thorough { 24 } else { 6 }) {
        let flavour = k % 3;
        let mwb = k % 4 == 3;
        let mut reqs: Vec<Req> = vec![];
        let plain = |g: &mut Gen, rng: &mut Rng, q: &str, body: Value| -> Req {
            Req { id: g.id(rng), ntf: 0, ver: 1, qf: 1, bf: 2, ec: 0, q: q.as_bytes().to_vec(), b: serde_json::to_vec(&body).unwrap(), sat: false }
        };
        if flavour == 1 {
            for _ in 0..rng.range(3, 8) { let q = *rng.pick(&["/jsonb", "/jctxb", "/erasedb"]); reqs.push(plain(&mut g, &mut rng, q, json!({"op": "gate"}))); }
        }
        let n = rng.range(40, 56) as usize;
        for _ in 0..n {
            let v = rng.below(1000);
            let pad = json!({"op": "pad", "v": v, "k": rng.range(500, 1000)});
            let r = match rng.below(12) {
                0 => { let inline: Vec<usize> = (0..NROUTES).filter(|i| !ROUTES[*i].off).collect(); let t = if rng.chance(1, 3) { None } else { Some(*rng.pick(&inline)) }; g.request(&mut rng, t, false) }
                1 | 2 if flavour == 2 => { let q = *rng.pick(&["/jsonb", "/jctxb"]); plain(&mut g, &mut rng, q, pad) }
                3 if flavour == 2 => plain(&mut g, &mut rng, "/typedb", json!({"op": "ok", "v": v})),
                _ => { let q = *rng.pick(&["/json", "/json", "/jctx", "/reg/fn", "/reg/deep/fn2", "/st/a", "/st/a/b"]); plain(&mut g, &mut rng, q, pad) }
            };
            reqs.push(r);
        }
        let i = lines.len();
        lines.push(format!("{} oq={} hold=12c", case_line(i, mwb, 4, false, &reqs), 1 + (k / 3) % 3));
    }
    lines
}

fn main() {
    let cases = if no_gen() { vec![] } else { gen_cases(seed(), is_thorough()) };
    isolated_main(cases, run_case, Duration::from_secs(40));
}
