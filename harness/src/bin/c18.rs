//! C18 correspondence: histories of PeerRegistry operations.
use repe::{BodyFormat, NotifyBody, PeerHandle, PeerId, PeerRegistry, PeerSendError, PeerSink};
use repe_verif_harness::*;
use std::sync::{Arc, Mutex};
use std::time::Duration;

#[derive(Default)]
struct Capture { got: Mutex<Vec<(String, Vec<u8>, u16)>> }
impl PeerSink for Capture {
    fn send_notify(&self, method: &str, body: NotifyBody) -> Result<(), PeerSendError> {
        let f = body.body_format() as u16;
        self.got.lock().unwrap().push((method.to_string(), body.as_bytes().to_vec(), f));
        Ok(())
    }
    fn is_connected(&self) -> bool { true }
}

/// A key whose conversion to `String` (which `alias` performs on the caller's side of the
/// registry lock) runs another registry operation: a deterministic way to land an operation
/// between an `alias` call's entry and its critical section.
struct ReKey { key: String, during: Box<dyn FnOnce()> }
impl From<ReKey> for String { fn from(k: ReKey) -> String { (k.during)(); k.key } }

fn h(v: u64) -> String { format!("{v:x}") }
fn p(s: &str) -> u64 { u64::from_str_radix(s, 16).unwrap() }
fn list(v: &[u64]) -> String { if v.is_empty() { "-".into() } else { v.iter().map(|x| h(*x)).collect::<Vec<_>>().join(".") } }
fn key(k: u64) -> String { format!("key-{k}") }
fn unkey(s: &str) -> u64 { s.strip_prefix("key-").unwrap().parse().unwrap() }

fn run_case(line: &str) -> String {
    let f = fields(line);
    let ids: Vec<u64> = f["ids"].split('.').map(p).collect();
    let keys: Vec<u64> = f["keys"].split('.').map(p).collect();
    let ops: Vec<String> = if f["ops"] == "-" { vec![] } else { f["ops"].split(';').map(|s| s.to_string()).collect() };
    let r = guard(move || {
        let reg = PeerRegistry::new();
        let sinks: Vec<Arc<Capture>> = ids.iter().map(|_| Arc::new(Capture::default())).collect();
        let sink_of = |id: u64| -> Arc<Capture> { sinks[ids.iter().position(|x| *x == id).unwrap()].clone() };
        let mut outs = Vec::new();
        let mut bcount = 0u32;
        let observe = |reg: &PeerRegistry, out: &str| -> String {
            let present: String = ids.iter().map(|id| if reg.get(PeerId(*id)).map(|h| h.peer_id().0 == *id).unwrap_or(false) { '1' } else { '0' }).collect();
            let by: Vec<String> = keys.iter().map(|k| reg.get_by(key(*k).as_str()).map(|ph| h(ph.peer_id().0)).unwrap_or_else(|| "-".into())).collect();
            let al: Vec<String> = ids.iter().map(|id| list(&reg.aliases_for(PeerId(*id)).iter().map(|s| unkey(s)).collect::<Vec<_>>())).collect();
            let kf: Vec<String> = ids.iter().map(|id| reg.key_for(PeerId(*id)).map(|s| h(unkey(&s))).unwrap_or_else(|| "-".into())).collect();
            format!("{}/{}/{}/{}/{}/{}", out, h(reg.len() as u64), present, by.join(","), al.join(","), kf.join(","))
        };
        for op in &ops {
            let t: Vec<&str> = op.split(':').collect();
            if t[0] == "K" {
                // K:<id>:<key>:<inner op...>: alias whose key conversion performs the inner op
                let inner: Vec<String> = t[3..].iter().map(|s| s.to_string()).collect();
                let inner_obs = Arc::new(Mutex::new(String::new()));
                let (reg2, io2, sinks2, ids2) = (reg.clone(), inner_obs.clone(), sinks.clone(), ids.clone());
                let during = Box::new(move || {
                    let out = match inner[0].as_str() {
                        "I" => { let id = p(&inner[1]); let s = sinks2[ids2.iter().position(|x| *x == id).unwrap()].clone(); reg2.insert(PeerHandle::new(PeerId(id), s)); "u".to_string() }
                        "X" => format!("b{}", reg2.remove(PeerId(p(&inner[1]))).is_some() as u8),
                        "L" => format!("b{}", reg2.alias(PeerId(p(&inner[1])), key(p(&inner[2]))) as u8),
                        _ => panic!("bad inner op"),
                    };
                    *io2.lock().unwrap() = out;
                });
                // the state right after the inner op is sampled from inside the conversion too
                let snap = Arc::new(Mutex::new(String::new()));
                let (reg3, snap3, io3) = (reg.clone(), snap.clone(), inner_obs.clone());
                let ids3 = ids.clone(); let keys3 = keys.clone();
                let during2 = Box::new(move || {
                    during();
                    let out = io3.lock().unwrap().clone();
                    let present: String = ids3.iter().map(|id| if reg3.get(PeerId(*id)).is_some() { '1' } else { '0' }).collect();
                    let by: Vec<String> = keys3.iter().map(|k| reg3.get_by(key(*k).as_str()).map(|ph| h(ph.peer_id().0)).unwrap_or_else(|| "-".into())).collect();
                    let al: Vec<String> = ids3.iter().map(|id| list(&reg3.aliases_for(PeerId(*id)).iter().map(|s| unkey(s)).collect::<Vec<_>>())).collect();
                    let kf: Vec<String> = ids3.iter().map(|id| reg3.key_for(PeerId(*id)).map(|s| h(unkey(&s))).unwrap_or_else(|| "-".into())).collect();
                    *snap3.lock().unwrap() = format!("{}/{}/{}/{}/{}/{}", out, h(reg3.len() as u64), present, by.join(","), al.join(","), kf.join(","));
                });
                let r = reg.alias(PeerId(p(t[1])), ReKey { key: key(p(t[2])), during: during2 });
                outs.push(snap.lock().unwrap().clone());
                outs.push(observe(&reg, &format!("b{}", r as u8)));
                continue;
            }
            let out = match t[0] {
                "I" => { let id = p(t[1]); reg.insert(PeerHandle::new(PeerId(id), sink_of(id))); "u".to_string() }
                "X" => { let id = p(t[1]); format!("b{}", reg.remove(PeerId(id)).is_some() as u8) }
                "L" => { format!("b{}", reg.alias(PeerId(p(t[1])), key(p(t[2]))) as u8) }
                "B" => {
                    bcount += 1;
                    for s in &sinks { s.got.lock().unwrap().clear(); }
                    let path = format!("/bc/{bcount}"); let body = format!("payload-{bcount}").into_bytes();
                    let (fmt, res) = match bcount % 3 {
                        0 => (BodyFormat::Utf8 as u16, reg.broadcast_notify_utf8(&path, std::str::from_utf8(&body).unwrap())),
                        1 => (BodyFormat::RawBinary as u16, reg.broadcast_notify_raw(&path, BodyFormat::RawBinary, &body)),
                        _ => (BodyFormat::Json as u16, reg.broadcast_notify_raw(&path, BodyFormat::Json, &body)),
                    };
                    let mut results: Vec<u64> = res.iter().filter(|(_, r)| r.is_ok()).map(|(k, _)| k.0).collect(); results.sort();
                    let mut delivered = Vec::new(); let mut bad = Vec::new();
                    for (i, s) in sinks.iter().enumerate() {
                        let g = s.got.lock().unwrap();
                        if g.len() == 1 && g[0].0 == path && g[0].1 == body && g[0].2 == fmt { delivered.push(ids[i]); }
                        else if !g.is_empty() { bad.push(ids[i]); }
                    }
                    delivered.sort();
                    if bad.is_empty() && delivered == results && res.len() == results.len() { format!("ids{}", list(&delivered)) }
                    else { format!("idsBAD[delivered={};results={};bad={}]", list(&delivered), list(&results), list(&bad)) }
                }
                _ => panic!("bad op"),
            };
            outs.push(observe(&reg, &out));
        }
        format!("steps={}", if outs.is_empty() { "-".into() } else { outs.join("|") })
    });
    r.unwrap_or_else(|_| "crash=panic".into())
}

fn h_(v: &u64) -> String { h(*v) }

fn gen_cases(seed: u64, thorough: bool) -> Vec<String> {
    let mut cases = Vec::new();
    let mut alpha: Vec<String> = Vec::new();
    for i in 0..3 { alpha.push(format!("I:{i}")); alpha.push(format!("X:{i}")); for k in 0..3 { alpha.push(format!("L:{i}:{k}")); } }
    alpha.push("B".into());
    // alias calls whose key conversion performs a removal / insertion / alias of the same or another peer
    let mut kalpha: Vec<String> = Vec::new();
    for i in 0..2 { for k in 0..2 { for inner in ["X:0", "X:1", "I:0", "I:1", "L:0:0", "L:1:0", "L:0:1"] { kalpha.push(format!("K:{i}:{k}:{inner}")); } } }
    let depth = if thorough { 5 } else { 4 };
    let n = alpha.len(); let total = n.pow(depth as u32);
    for idx in 0..total {
        let mut k = idx; let mut ops = Vec::with_capacity(depth);
        for _ in 0..depth { ops.push(alpha[k % n].clone()); k /= n; }
        cases.push(format!("ids=0.1.2 keys=0.1.2 ops={}", ops.join(";")));
    }
    // directed prefixes that reach the interesting region (aliases attached) before the exhaustive tail
    let prefix = "I:0;I:1;I:2;L:0:0;L:1:1;L:0:2";
    let d2 = if thorough { 4 } else { 3 };
    for idx in 0..n.pow(d2 as u32) {
        let mut k = idx; let mut ops = Vec::new();
        for _ in 0..d2 { ops.push(alpha[k % n].clone()); k /= n; }
        cases.push(format!("ids=0.1.2 keys=0.1.2 ops={};{}", prefix, ops.join(";")));
    }
    // every re-entrant alias after every history of length <= 2 (quick) / 3 (thorough), followed by one more op
    let dk = if thorough { 3 } else { 2 };
    for len in 0..=dk {
        for idx in 0..n.pow(len as u32) {
            let mut k = idx; let mut pre = Vec::new();
            for _ in 0..len { pre.push(alpha[k % n].clone()); k /= n; }
            for ko in &kalpha {
                let mut ops = pre.clone(); ops.push(ko.clone()); ops.push("B".into());
                cases.push(format!("ids=0.1.2 keys=0.1.2 ops={}", ops.join(";")));
            }
        }
    }
    let mut rng = Rng::new(seed);
    let nrand = if thorough { 20000 } else { 2000 };
    for _ in 0..nrand {
        let ni = rng.range(1, 6); let nk = rng.range(1, 6);
        let len = rng.range(1, if thorough { 300 } else { 80 });
        let mut ops = Vec::new();
        for _ in 0..len {
            match rng.below(10) {
                0 | 1 => ops.push(format!("I:{}", h(rng.below(ni)))),
                2 | 3 => ops.push(format!("X:{}", h(rng.below(ni)))),
                4 => { if rng.chance(1, 2) { ops.push("B".into()) } else {
                    let inner = match rng.below(3) { 0 => format!("X:{}", h(rng.below(ni))), 1 => format!("I:{}", h(rng.below(ni))), _ => format!("L:{}:{}", h(rng.below(ni)), h(rng.below(nk))) };
                    ops.push(format!("K:{}:{}:{}", h(rng.below(ni)), h(rng.below(nk)), inner)); } }
                _ => ops.push(format!("L:{}:{}", h(rng.below(ni)), h(rng.below(nk)))),
            }
        }
        let ids: Vec<u64> = (0..ni).collect(); let keys: Vec<u64> = (0..nk).collect();
        cases.push(format!("ids={} keys={} ops={}", ids.iter().map(h_).collect::<Vec<_>>().join("."), keys.iter().map(h_).collect::<Vec<_>>().join("."), ops.join(";")));
    }
    cases.into_iter().enumerate().map(|(i, c)| format!("i={i} {c}")).collect()
}

fn main() {
    let cases = if no_gen() { vec![] } else { gen_cases(seed(), is_thorough()) };
    isolated_main(cases, run_case, Duration::from_secs(20));
}
