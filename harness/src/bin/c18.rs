//! C18 correspondence: histories of PeerRegistry operations.
use repe::{BodyFormat, NotifyBody, PeerHandle, PeerId, PeerRegistry, PeerSendError, PeerSink};
use repe_verif_harness::*;
use std::sync::{Arc, Mutex};
use std::time::Duration;

#[derive(Default)]
struct Capture { got: Mutex<Vec<(String, Vec<u8>, u16)>> }
impl PeerSink for Capture {
    fn send_notify(&self, method: &str, body: NotifyBody) -> Result<(), PeerSendError> {
        let f = body.body_format() as u16;
        self.got.lock().unwrap().push((method.to_string(), body.as_bytes().to_vec(), f));
        Ok(())
    }
    fn is_connected(&self) -> bool { true }
}

fn h(v: u64) -> String { format!("{v:x}") }
fn p(s: &str) -> u64 { u64::from_str_radix(s, 16).unwrap() }
fn list(v: &[u64]) -> String { if v.is_empty() { "-".into() } else { v.iter().map(|x| h(*x)).collect::<Vec<_>>().join(".") } }
fn key(k: u64) -> String { format!("key-{k}") }
fn unkey(s: &str) -> u64 { s.strip_prefix("key-").unwrap().parse().unwrap() }

fn run_case(line: &str) -> String {
    let f = fields(line);
    let ids: Vec<u64> = f["ids"].split('.').map(p).collect();
    let keys: Vec<u64> = f["keys"].split('.').map(p).collect();
    let ops: Vec<String> = if f["ops"] == "-" { vec![] } else { f["ops"].split(';').map(|s| s.to_string()).collect() };
    let r = guard(move || {
        let reg = PeerRegistry::new();
        let sinks: Vec<Arc<Capture>> = ids.iter().map(|_| Arc::new(Capture::default())).collect();
        let sink_of = |id: u64| -> Arc<Capture> { sinks[ids.iter().position(|x| *x == id).unwrap()].clone() };
        let mut outs = Vec::new();
        let mut bcount = 0u32;
        for op in &ops {
            let t: Vec<&str> = op.split(':').collect();
            let out = match t[0] {
                "I" => { let id = p(t[1]); reg.insert(PeerHandle::new(PeerId(id), sink_of(id))); "u".to_string() }
                "X" => { let id = p(t[1]); format!("b{}", reg.remove(PeerId(id)).is_some() as u8) }
                "L" => { format!("b{}", reg.alias(PeerId(p(t[1])), key(p(t[2]))) as u8) }
                "B" => {
                    bcount += 1;
                    for s in &sinks { s.got.lock().unwrap().clear(); }
                    let path = format!("/bc/{bcount}"); let body = format!("payload-{bcount}").into_bytes();
                    let (fmt, res) = match bcount % 3 {
                        0 => (BodyFormat::Utf8 as u16, reg.broadcast_notify_utf8(&path, std::str::from_utf8(&body).unwrap())),
                        1 => (BodyFormat::RawBinary as u16, reg.broadcast_notify_raw(&path, BodyFormat::RawBinary, &body)),
                        _ => (BodyFormat::Json as u16, reg.broadcast_notify_raw(&path, BodyFormat::Json, &body)),
                    };
                    let mut results: Vec<u64> = res.iter().filter(|(_, r)| r.is_ok()).map(|(k, _)| k.0).collect(); results.sort();
                    let mut delivered = Vec::new(); let mut bad = Vec::new();
                    for (i, s) in sinks.iter().enumerate() {
                        let g = s.got.lock().unwrap();
                        if g.len() == 1 && g[0].0 == path && g[0].1 == body && g[0].2 == fmt { delivered.push(ids[i]); }
                        else if !g.is_empty() { bad.push(ids[i]); }
                    }
                    delivered.sort();
                    if bad.is_empty() && delivered == results && res.len() == results.len() { format!("ids{}", list(&delivered)) }
                    else { format!("idsBAD[delivered={};results={};bad={}]", list(&delivered), list(&results), list(&bad)) }
                }
                _ => panic!("bad op"),
            };
            // observable state
            let present: String = ids.iter().map(|id| if reg.get(PeerId(*id)).map(|h| h.peer_id().0 == *id).unwrap_or(false) { '1' } else { '0' }).collect();
            let by: Vec<String> = keys.iter().map(|k| reg.get_by(key(*k).as_str()).map(|ph| h(ph.peer_id().0)).unwrap_or_else(|| "-".into())).collect();
            let al: Vec<String> = ids.iter().map(|id| list(&reg.aliases_for(PeerId(*id)).iter().map(|s| unkey(s)).collect::<Vec<_>>())).collect();
            let kf: Vec<String> = ids.iter().map(|id| reg.key_for(PeerId(*id)).map(|s| h(unkey(&s))).unwrap_or_else(|| "-".into())).collect();
            outs.push(format!("{}/{}/{}/{}/{}/{}", out, h(reg.len() as u64), present, by.join(","), al.join(","), kf.join(",")));
        }
        format!("steps={}", if outs.is_empty() { "-".into() } else { outs.join("|") })
    });
    r.unwrap_or_else(|_| "crash=panic".into())
}

fn h_(v: &u64) -> String { h(*v) }

fn gen_cases(seed: u64, thorough: bool) -> Vec<String> {
    let mut cases = Vec::new();
    let mut alpha: Vec<String> = Vec::new();
    for i in 0..3 { alpha.push(format!("I:{i}")); alpha.push(format!("X:{i}")); for k in 0..3 { alpha.push(format!("L:{i}:{k}")); } }
    alpha.push("B".into());
    let depth = if thorough { 5 } else { 4 };
    let n = alpha.len(); let total = n.pow(depth as u32);
    for idx in 0..total {
        let mut k = idx; let mut ops = Vec::with_capacity(depth);
        for _ in 0..depth { ops.push(alpha[k % n].clone()); k /= n; }
        cases.push(format!("ids=0.1.2 keys=0.1.2 ops={}", ops.join(";")));
    }
    // directed prefixes that reach the interesting region (aliases attached) before the exhaustive tail
    let prefix = "I:0;I:1;I:2;L:0:0;L:1:1;L:0:2";
    let d2 = if thorough { 4 } else { 3 };
    for idx in 0..n.pow(d2 as u32) {
        let mut k = idx; let mut ops = Vec::new();
        for _ in 0..d2 { ops.push(alpha[k % n].clone()); k /= n; }
        cases.push(format!("ids=0.1.2 keys=0.1.2 ops={};{}", prefix, ops.join(";")));
    }
    let mut rng = Rng::new(seed);
    let nrand = if thorough { 20000 } else { 2000 };
    for _ in 0..nrand {
        let ni = rng.range(1, 6); let nk = rng.range(1, 6);
        let len = rng.range(1, if thorough { 300 } else { 80 });
        let mut ops = Vec::new();
        for _ in 0..len {
            match rng.below(10) {
                0 | 1 => ops.push(format!("I:{}", h(rng.below(ni)))),
                2 | 3 => ops.push(format!("X:{}", h(rng.below(ni)))),
                4 => ops.push("B".into()),
                _ => ops.push(format!("L:{}:{}", h(rng.below(ni)), h(rng.below(nk)))),
            }
        }
        let ids: Vec<u64> = (0..ni).collect(); let keys: Vec<u64> = (0..nk).collect();
        cases.push(format!("ids={} keys={} ops={}", ids.iter().map(h_).collect::<Vec<_>>().join("."), keys.iter().map(h_).collect::<Vec<_>>().join("."), ops.join(";")));
    }
    cases.into_iter().enumerate().map(|(i, c)| format!("i={i} {c}")).collect()
}

fn main() {
    let cases = if no_gen() { vec![] } else { gen_cases(seed(), is_thorough()) };
    isolated_main(cases, run_case, Duration::from_secs(20));
}
