//! C18 correspondence: histories of PeerRegistry operations.
use repe::{BodyFormat, NotifyBody, PeerHandle, PeerId, PeerRegistry, PeerSendError, PeerSink};
use repe_verif_harness::*;
use std::sync::atomic::{AtomicU64, AtomicUsize, Ordering};
use std::sync::{Arc, Barrier, Mutex};
use std::time::{Duration, Instant};

#[derive(Default)]
struct Capture { got: Mutex<Vec<(String, Vec<u8>, u16)>>, reports_closed: std::sync::atomic::AtomicBool }
/// what every sink does when it is handed a notification (sequential cases only): `R:<b>` makes
/// it remove peer b from the registry, from inside the broadcast that is delivering to it
type OnNotify = Box<dyn Fn() + Send>;
static ON_NOTIFY: Mutex<Option<OnNotify>> = Mutex::new(None);
impl PeerSink for Capture {
    fn send_notify(&self, method: &str, body: NotifyBody) -> Result<(), PeerSendError> {
        let f = body.body_format() as u16;
        self.got.lock().unwrap().push((method.to_string(), body.as_bytes().to_vec(), f));
        if let Some(cb) = ON_NOTIFY.lock().unwrap().as_ref() { cb(); }
        Ok(())
    }
    // a registered peer is a present peer whatever its transport says about itself: a broadcast
    // still addresses it (and reports the result of the send)
    fn is_connected(&self) -> bool { !self.reports_closed.load(std::sync::atomic::Ordering::SeqCst) }
}

/// A key whose conversion to `String` (which `alias` performs on the caller's side of the
/// registry lock) runs another registry operation: a deterministic way to land an operation
/// between an `alias` call's entry and its critical section.
struct ReKey { key: String, during: Box<dyn FnOnce()> }
impl From<ReKey> for String { fn from(k: ReKey) -> String { (k.during)(); k.key } }

/// A key whose conversion to `String` takes a few microseconds: `alias` converts the key on the
/// caller's side of the registry lock, so this stretches whatever lies around the conversion.
struct SlowKey(String);
impl From<SlowKey> for String { fn from(k: SlowKey) -> String { for _ in 0..3000 { std::hint::spin_loop(); } k.0 } }

fn h(v: u64) -> String { format!("{v:x}") }
fn p(s: &str) -> u64 { u64::from_str_radix(s, 16).unwrap() }
fn list(v: &[u64]) -> String { if v.is_empty() { "-".into() } else { v.iter().map(|x| h(*x)).collect::<Vec<_>>().join(".") } }
fn key(k: u64) -> String { format!("key-{k}") }
fn unkey(s: &str) -> u64 { s.strip_prefix("key-").unwrap().parse().unwrap() }

/// the full observable state, in the format of the sequential cases' steps
fn observe_state(reg: &PeerRegistry, ids: &[u64], keys: &[u64], out: &str) -> String {
    let present: String = ids.iter().map(|id| if reg.get(PeerId(*id)).map(|h| h.peer_id().0 == *id).unwrap_or(false) { '1' } else { '0' }).collect();
    let by: Vec<String> = keys.iter().map(|k| reg.get_by(key(*k).as_str()).map(|ph| h(ph.peer_id().0)).unwrap_or_else(|| "-".into())).collect();
    let al: Vec<String> = ids.iter().map(|id| list(&reg.aliases_for(PeerId(*id)).iter().map(|s| unkey(s)).collect::<Vec<_>>())).collect();
    let kf: Vec<String> = ids.iter().map(|id| reg.key_for(PeerId(*id)).map(|s| h(unkey(&s))).unwrap_or_else(|| "-".into())).collect();
    format!("{}/{}/{}/{}/{}/{}", out, h(reg.len() as u64), present, by.join(","), al.join(","), kf.join(","))
}

/// one operation of a concurrent history (mutators and queries); `tag` makes a broadcast's
/// path unique so that its deliveries can be told apart from other threads' broadcasts.
/// Returns (result text, work to do after the response timestamp that completes the result).
fn conc_op(reg: &PeerRegistry, sinks: &[Arc<Capture>], ids: &[u64], op: &str, tag: &str) -> (String, Option<(String, Vec<u8>, u16, Vec<u64>, usize)>) {
    let t: Vec<&str> = op.split(':').collect();
    let opt = |o: Option<u64>| o.map(h).unwrap_or_else(|| "-".into());
    match t[0] {
        "I" => { let id = p(t[1]); let s = sinks[ids.iter().position(|x| *x == id).unwrap()].clone(); reg.insert(PeerHandle::new(PeerId(id), s)); ("u".into(), None) }
        "X" => (format!("b{}", reg.remove(PeerId(p(t[1]))).is_some() as u8), None),
        "L" => (format!("b{}", reg.alias(PeerId(p(t[1])), key(p(t[2]))) as u8), None),
        "S" => (format!("b{}", reg.alias(PeerId(p(t[1])), SlowKey(key(p(t[2])))) as u8), None),
        "G" => (format!("g{}", reg.get(PeerId(p(t[1]))).is_some() as u8), None),
        "Y" => (format!("y{}", opt(reg.get_by(key(p(t[1])).as_str()).map(|ph| ph.peer_id().0))), None),
        "A" => (format!("a{}", list(&reg.aliases_for(PeerId(p(t[1]))).iter().map(|s| unkey(s)).collect::<Vec<_>>())), None),
        "F" => (format!("f{}", opt(reg.key_for(PeerId(p(t[1]))).map(|s| unkey(&s)))), None),
        "N" => (format!("n{}", h(reg.len() as u64)), None),
        "B" => {
            let path = format!("/bc/{tag}"); let body = format!("payload-{tag}").into_bytes();
            let sel = tag.bytes().map(|b| b as usize).sum::<usize>() % 3;
            let (fmt, res) = match sel {
                0 => (BodyFormat::Utf8 as u16, reg.broadcast_notify_utf8(&path, std::str::from_utf8(&body).unwrap())),
                1 => (BodyFormat::RawBinary as u16, reg.broadcast_notify_raw(&path, BodyFormat::RawBinary, &body)),
                _ => (BodyFormat::Json as u16, reg.broadcast_notify_raw(&path, BodyFormat::Json, &body)),
            };
            let mut results: Vec<u64> = res.iter().filter(|(_, r)| r.is_ok()).map(|(k, _)| k.0).collect(); results.sort();
            (String::new(), Some((path, body, fmt, results, res.len())))
        }
        _ => panic!("bad op"),
    }
}

fn finish_broadcast(sinks: &[Arc<Capture>], ids: &[u64], b: (String, Vec<u8>, u16, Vec<u64>, usize)) -> String {
    let (path, body, fmt, results, nres) = b;
    let mut delivered = Vec::new(); let mut bad = Vec::new();
    for (i, s) in sinks.iter().enumerate() {
        let g = s.got.lock().unwrap();
        let mine: Vec<&(String, Vec<u8>, u16)> = g.iter().filter(|e| e.0 == path).collect();
        if mine.len() == 1 && mine[0].1 == body && mine[0].2 == fmt { delivered.push(ids[i]); }
        else if !mine.is_empty() { bad.push(ids[i]); }
    }
    delivered.sort();
    if bad.is_empty() && delivered == results && nres == results.len() { format!("ids{}", list(&delivered)) }
    else { format!("idsBAD[delivered={};results={};bad={}]", list(&delivered), list(&results), list(&bad)) }
}

/// `k=conc ids= keys= pre=<ops> sync=<0|1> th=<ops>!<ops>...`: apply `pre`, then run the
/// threads on clones of one registry; every operation is stamped with a global logical clock
/// at invocation and at response. With sync=1 the j-th operations of all threads are released
/// together (spin barrier), otherwise only the first ones are.
fn run_conc(f: &std::collections::HashMap<String, String>) -> String {
    let ids: Vec<u64> = f["ids"].split('.').map(p).collect();
    let keys: Vec<u64> = f["keys"].split('.').map(p).collect();
    let reg = PeerRegistry::new();
    let sinks: Vec<Arc<Capture>> = ids.iter().map(|id| { let c = Capture::default(); c.reports_closed.store(id % 3 == 2, std::sync::atomic::Ordering::SeqCst); Arc::new(c) }).collect();
    if f["pre"] != "-" { for (j, op) in f["pre"].split(';').enumerate() { let (_, b) = conc_op(&reg, &sinks, &ids, op, &format!("pre/{j}")); drop(b); } }
    let init = observe_state(&reg, &ids, &keys, "u");
    let threads: Vec<Vec<String>> = f["th"].split('!').map(|t| if t == "-" { vec![] } else { t.split(';').map(|s| s.to_string()).collect() }).collect();
    let n = threads.len();
    let rounds = threads.iter().map(|t| t.len()).max().unwrap_or(0);
    let sync = f.get("sync").map(|s| s == "1").unwrap_or(false);
    let clock = Arc::new(AtomicU64::new(1));
    let start = Arc::new(Barrier::new(n));
    let arrived: Arc<Vec<AtomicUsize>> = Arc::new((0..rounds).map(|_| AtomicUsize::new(0)).collect());
    let mut handles = Vec::new();
    for (ti, ops) in threads.into_iter().enumerate() {
        let (reg, sinks, ids, clock, start, arrived) = (reg.clone(), sinks.clone(), ids.clone(), Arc::clone(&clock), Arc::clone(&start), Arc::clone(&arrived));
        handles.push(std::thread::spawn(move || -> Result<Vec<String>, ()> {
            let mut res = Vec::new();
            start.wait();
            for j in 0..rounds {
                if sync || j == 0 {
                    arrived[j].fetch_add(1, Ordering::SeqCst);
                    let t0 = Instant::now();
                    while arrived[j].load(Ordering::SeqCst) < n {
                        std::hint::spin_loop();
                        if t0.elapsed() > Duration::from_secs(5) { return Err(()); }
                    }
                }
                if j >= ops.len() { continue; }
                let s = clock.fetch_add(1, Ordering::SeqCst);
                let (o, b) = conc_op(&reg, &sinks, &ids, &ops[j], &format!("t{ti}/{j}"));
                let e = clock.fetch_add(1, Ordering::SeqCst);
                let o = match b { Some(b) => finish_broadcast(&sinks, &ids, b), None => o };
                res.push(format!("{:x}.{:x}.{}", s, e, o));
            }
            Ok(res)
        }));
    }
    let mut per = Vec::new();
    for hd in handles {
        match hd.join() {
            Ok(Ok(r)) => per.push(if r.is_empty() { "-".to_string() } else { r.join(";") }),
            Ok(Err(())) => return "crash=hang".into(),
            Err(_) => return "crash=panic".into(),
        }
    }
    format!("init={} res={} final={}", init, per.join("!"), observe_state(&reg, &ids, &keys, "u"))
}

/// `k=conc rounds=<n> ids= keys= pre=<ops> sync=<0|1> th=<ops>!<ops>...`: the same history `n`
/// times, every round on a fresh registry (with fresh sinks) brought to the same state by
/// `pre`.  The threads are started once and released together at a spinning gate before every
/// round (tight overlap of the first operations; with sync=1 before every operation); inside a
/// round they run freely.  Every round has its own logical clock; rounds are separated by `@`
/// in `res=` and `final=`.  Every round is an ordinary concurrent history of the model.
fn run_conc_rounds(f: &std::collections::HashMap<String, String>) -> String {
    struct St { reg: PeerRegistry, sinks: Vec<Arc<Capture>>, clock: AtomicU64 }
    let ids: Vec<u64> = f["ids"].split('.').map(p).collect();
    let keys: Vec<u64> = f["keys"].split('.').map(p).collect();
    let nrounds = usize::from_str_radix(&f["rounds"], 16).unwrap();
    let sync = f.get("sync").map(|s| s == "1").unwrap_or(false);
    let mut inits = Vec::new();
    let states: Arc<Vec<St>> = Arc::new((0..nrounds).map(|r| {
        let reg = PeerRegistry::new();
        let sinks: Vec<Arc<Capture>> = ids.iter().map(|id| { let c = Capture::default(); c.reports_closed.store(id % 3 == 2, std::sync::atomic::Ordering::SeqCst); Arc::new(c) }).collect();
        if f["pre"] != "-" { for (j, op) in f["pre"].split(';').enumerate() { let (_, b) = conc_op(&reg, &sinks, &ids, op, &format!("pre/{r}/{j}")); drop(b); } }
        inits.push(observe_state(&reg, &ids, &keys, "u"));
        St { reg, sinks, clock: AtomicU64::new(1) }
    }).collect());
    // one prefix, one state: every round starts where the first one does
    // (two fresh registries taken through the same sequential prefix cannot both be in the state the model gives)
    if inits.iter().any(|i| *i != inits[0]) { return "crash=prefix-states-differ".into(); }
    let threads: Vec<Vec<String>> = f["th"].split('!').map(|t| if t == "-" { vec![] } else { t.split(';').map(|s| s.to_string()).collect() }).collect();
    let n = threads.len();
    let maxops = threads.iter().map(|t| t.len()).max().unwrap_or(0);
    // gates are passed by all threads in the same order: the g-th gate opens when g*n arrivals were counted
    let arrived = Arc::new(AtomicUsize::new(0));
    let mut handles = Vec::new();
    for (ti, ops) in threads.into_iter().enumerate() {
        let (states, ids, arrived) = (Arc::clone(&states), ids.clone(), Arc::clone(&arrived));
        handles.push(std::thread::spawn(move || -> Result<Vec<String>, ()> {
            let mut all = Vec::with_capacity(states.len());
            let mut gates = 0usize;
            for (r, st) in states.iter().enumerate() {
                let mut res = Vec::with_capacity(ops.len());
                for j in 0..maxops {
                    if sync || j == 0 {
                        gates += 1;
                        arrived.fetch_add(1, Ordering::SeqCst);
                        let t0 = Instant::now(); let mut spins = 0u32;
                        while arrived.load(Ordering::SeqCst) < gates * n {
                            spins = spins.wrapping_add(1);
                            if spins % 4096 == 0 { std::thread::yield_now(); if t0.elapsed() > Duration::from_secs(10) { return Err(()); } } else { std::hint::spin_loop(); }
                        }
                    }
                    if j >= ops.len() { if sync { continue } else { break } }
                    let s = st.clock.fetch_add(1, Ordering::SeqCst);
                    let (o, b) = conc_op(&st.reg, &st.sinks, &ids, &ops[j], &format!("r{r}/t{ti}/{j}"));
                    let e = st.clock.fetch_add(1, Ordering::SeqCst);
                    let o = match b { Some(b) => finish_broadcast(&st.sinks, &ids, b), None => o };
                    res.push(format!("{:x}.{:x}.{}", s, e, o));
                }
                all.push(if res.is_empty() { "-".to_string() } else { res.join(";") });
            }
            Ok(all)
        }));
    }
    let mut per: Vec<Vec<String>> = Vec::new();
    let mut crash = None;
    for hd in handles {
        match hd.join() {
            Ok(Ok(r)) => per.push(r),
            Ok(Err(())) => crash = crash.or(Some("crash=hang")),
            Err(_) => crash = crash.or(Some("crash=panic")),
        }
    }
    if let Some(c) = crash { return c.into(); }
    let res: Vec<String> = (0..nrounds).map(|r| per.iter().map(|t| t[r].clone()).collect::<Vec<_>>().join("!")).collect();
    let finals: Vec<String> = states.iter().map(|st| observe_state(&st.reg, &ids, &keys, "u")).collect();
    format!("init={} res={} final={}", inits[0], res.join("@"), finals.join("@"))
}

fn run_case(line: &str) -> String {
    let f = fields(line);
    if f.get("k").map(|k| k == "conc").unwrap_or(false) {
        return guard(move || if f.contains_key("rounds") { run_conc_rounds(&f) } else { run_conc(&f) }).unwrap_or_else(|_| "crash=panic".into());
    }
    let ids: Vec<u64> = f["ids"].split('.').map(p).collect();
    let keys: Vec<u64> = f["keys"].split('.').map(p).collect();
    let ops: Vec<String> = if f["ops"] == "-" { vec![] } else { f["ops"].split(';').map(|s| s.to_string()).collect() };
    let r = guard(move || {
        let reg = PeerRegistry::new();
        let sinks: Vec<Arc<Capture>> = ids.iter().map(|id| { let c = Capture::default(); c.reports_closed.store(id % 3 == 2, std::sync::atomic::Ordering::SeqCst); Arc::new(c) }).collect();
        let sink_of = |id: u64| -> Arc<Capture> { sinks[ids.iter().position(|x| *x == id).unwrap()].clone() };
        let mut outs = Vec::new();
        let mut bcount = 0u32;
        let observe = |reg: &PeerRegistry, out: &str| -> String {
            let present: String = ids.iter().map(|id| if reg.get(PeerId(*id)).map(|h| h.peer_id().0 == *id).unwrap_or(false) { '1' } else { '0' }).collect();
            let by: Vec<String> = keys.iter().map(|k| reg.get_by(key(*k).as_str()).map(|ph| h(ph.peer_id().0)).unwrap_or_else(|| "-".into())).collect();
            let al: Vec<String> = ids.iter().map(|id| list(&reg.aliases_for(PeerId(*id)).iter().map(|s| unkey(s)).collect::<Vec<_>>())).collect();
            let kf: Vec<String> = ids.iter().map(|id| reg.key_for(PeerId(*id)).map(|s| h(unkey(&s))).unwrap_or_else(|| "-".into())).collect();
            format!("{}/{}/{}/{}/{}/{}", out, h(reg.len() as u64), present, by.join(","), al.join(","), kf.join(","))
        };
        for op in &ops {
            let t: Vec<&str> = op.split(':').collect();
            if t[0] == "K" {
                // K:<id>:<key>:<inner op...>: alias whose key conversion performs the inner op
                let inner: Vec<String> = t[3..].iter().map(|s| s.to_string()).collect();
                let inner_obs = Arc::new(Mutex::new(String::new()));
                let (reg2, io2, sinks2, ids2) = (reg.clone(), inner_obs.clone(), sinks.clone(), ids.clone());
                let during = Box::new(move || {
                    let out = match inner[0].as_str() {
                        "I" => { let id = p(&inner[1]); let s = sinks2[ids2.iter().position(|x| *x == id).unwrap()].clone(); reg2.insert(PeerHandle::new(PeerId(id), s)); "u".to_string() }
                        "X" => format!("b{}", reg2.remove(PeerId(p(&inner[1]))).is_some() as u8),
                        "L" => format!("b{}", reg2.alias(PeerId(p(&inner[1])), key(p(&inner[2]))) as u8),
                        _ => panic!("bad inner op"),
                    };
                    *io2.lock().unwrap() = out;
                });
                // the state right after the inner op is sampled from inside the conversion too
                let snap = Arc::new(Mutex::new(String::new()));
                let (reg3, snap3, io3) = (reg.clone(), snap.clone(), inner_obs.clone());
                let ids3 = ids.clone(); let keys3 = keys.clone();
                let during2 = Box::new(move || {
                    during();
                    let out = io3.lock().unwrap().clone();
                    let present: String = ids3.iter().map(|id| if reg3.get(PeerId(*id)).is_some() { '1' } else { '0' }).collect();
                    let by: Vec<String> = keys3.iter().map(|k| reg3.get_by(key(*k).as_str()).map(|ph| h(ph.peer_id().0)).unwrap_or_else(|| "-".into())).collect();
                    let al: Vec<String> = ids3.iter().map(|id| list(&reg3.aliases_for(PeerId(*id)).iter().map(|s| unkey(s)).collect::<Vec<_>>())).collect();
                    let kf: Vec<String> = ids3.iter().map(|id| reg3.key_for(PeerId(*id)).map(|s| h(unkey(&s))).unwrap_or_else(|| "-".into())).collect();
                    *snap3.lock().unwrap() = format!("{}/{}/{}/{}/{}/{}", out, h(reg3.len() as u64), present, by.join(","), al.join(","), kf.join(","));
                });
                let r = reg.alias(PeerId(p(t[1])), ReKey { key: key(p(t[2])), during: during2 });
                outs.push(snap.lock().unwrap().clone());
                outs.push(observe(&reg, &format!("b{}", r as u8)));
                continue;
            }
            let out = match t[0] {
                "I" => { let id = p(t[1]); reg.insert(PeerHandle::new(PeerId(id), sink_of(id))); "u".to_string() }
                "X" => { let id = p(t[1]); format!("b{}", reg.remove(PeerId(id)).is_some() as u8) }
                "L" => { format!("b{}", reg.alias(PeerId(p(t[1])), key(p(t[2]))) as u8) }
                "B" | "R" => {
                    bcount += 1;
                    for s in &sinks { s.got.lock().unwrap().clear(); }
                    let path = format!("/bc/{bcount}"); let mut body = format!("payload-{bcount}").into_bytes();
                    // R:<b>: every sink that is handed the notification removes peer b.  The peers
                    // addressed are those present at the moment of the call: b included.
                    let removed = Arc::new(std::sync::atomic::AtomicBool::new(false));
                    let before = if t[0] == "R" {
                        let (reg2, rm2, b) = (reg.clone(), removed.clone(), p(t[1]));
                        *ON_NOTIFY.lock().unwrap() = Some(Box::new(move || { if reg2.remove(PeerId(b)).is_some() { rm2.store(true, std::sync::atomic::Ordering::SeqCst); } }));
                        Some(observe(&reg, "?"))
                    } else { None };
                    let (fmt, res) = match bcount % 5 {
                        0 => (BodyFormat::Utf8 as u16, reg.broadcast_notify_utf8(&path, std::str::from_utf8(&body).unwrap())),
                        1 => (BodyFormat::RawBinary as u16, reg.broadcast_notify_raw(&path, BodyFormat::RawBinary, &body)),
                        // raw bytes go out verbatim whatever the tag says: not valid UTF-8 under the Utf8 tag, not JSON under the Json tag
                        2 => { body.extend_from_slice(&[0xff, 0xfe, 0x80, b'x', 0xc3]); (BodyFormat::Utf8 as u16, reg.broadcast_notify_raw(&path, BodyFormat::Utf8, &body)) }
                        3 => { body.extend_from_slice(&[0x00, 0xff, b'{']); (BodyFormat::Json as u16, reg.broadcast_notify_raw(&path, BodyFormat::Json, &body)) }
                        _ => (BodyFormat::Json as u16, reg.broadcast_notify_raw(&path, BodyFormat::Json, &body)),
                    };
                    *ON_NOTIFY.lock().unwrap() = None;
                    let mut results: Vec<u64> = res.iter().filter(|(_, r)| r.is_ok()).map(|(k, _)| k.0).collect(); results.sort();
                    let mut delivered = Vec::new(); let mut bad = Vec::new();
                    for (i, s) in sinks.iter().enumerate() {
                        let g = s.got.lock().unwrap();
                        if g.len() == 1 && g[0].0 == path && g[0].1 == body && g[0].2 == fmt { delivered.push(ids[i]); }
                        else if !g.is_empty() { bad.push(ids[i]); }
                    }
                    delivered.sort();
                    let out = if bad.is_empty() && delivered == results && res.len() == results.len() { format!("ids{}", list(&delivered)) }
                    else { format!("idsBAD[delivered={};results={};bad={}]", list(&delivered), list(&results), list(&bad)) };
                    if let Some(b4) = before {
                        // two observations, as the model sees it: the broadcast over the state at the
                        // call, then the removal
                        outs.push(b4.replacen('?', &out, 1));
                        outs.push(observe(&reg, &format!("b{}", removed.load(std::sync::atomic::Ordering::SeqCst) as u8)));
                        continue;
                    }
                    out
                }
                _ => panic!("bad op"),
            };
            outs.push(observe(&reg, &out));
        }
        format!("steps={}", if outs.is_empty() { "-".into() } else { outs.join("|") })
    });
    r.unwrap_or_else(|_| "crash=panic".into())
}

fn h_(v: &u64) -> String { h(*v) }

fn gen_cases(seed: u64, thorough: bool) -> Vec<String> {
    let mut cases = Vec::new();
    let mut alpha: Vec<String> = Vec::new();
    for i in 0..3 { alpha.push(format!("I:{i}")); alpha.push(format!("X:{i}")); for k in 0..3 { alpha.push(format!("L:{i}:{k}")); } }
    alpha.push("B".into());
    // alias calls whose key conversion performs a removal / insertion / alias of the same or another peer
    let mut kalpha: Vec<String> = Vec::new();
    for i in 0..2 { for k in 0..2 { for inner in ["X:0", "X:1", "I:0", "I:1", "L:0:0", "L:1:0", "L:0:1"] { kalpha.push(format!("K:{i}:{k}:{inner}")); } } }
    let depth = if thorough { 5 } else { 4 };
    let n = alpha.len(); let total = n.pow(depth as u32);
    for idx in 0..total {
        let mut k = idx; let mut ops = Vec::with_capacity(depth);
        for _ in 0..depth { ops.push(alpha[k % n].clone()); k /= n; }
        cases.push(format!("ids=0.1.2 keys=0.1.2 ops={}", ops.join(";")));
    }
    // directed prefixes that reach the interesting region (aliases attached) before the exhaustive tail
    let prefix = "I:0;I:1;I:2;L:0:0;L:1:1;L:0:2";
    let d2 = if thorough { 4 } else { 3 };
    for idx in 0..n.pow(d2 as u32) {
        let mut k = idx; let mut ops = Vec::new();
        for _ in 0..d2 { ops.push(alpha[k % n].clone()); k /= n; }
        cases.push(format!("ids=0.1.2 keys=0.1.2 ops={};{}", prefix, ops.join(";")));
    }
    // every re-entrant alias after every history of length <= 2 (quick) / 3 (thorough), followed by one more op
    let dk = if thorough { 3 } else { 2 };
    for len in 0..=dk {
        for idx in 0..n.pow(len as u32) {
            let mut k = idx; let mut pre = Vec::new();
            for _ in 0..len { pre.push(alpha[k % n].clone()); k /= n; }
            for ko in &kalpha {
                let mut ops = pre.clone(); ops.push(ko.clone()); ops.push("B".into());
                cases.push(format!("ids=0.1.2 keys=0.1.2 ops={}", ops.join(";")));
            }
        }
    }
    // a broadcast whose sinks remove a peer while it is being delivered, after every history of
    // length <= 2 (quick) / 3 (thorough) and after the directed prefix
    for len in 0..=dk {
        for idx in 0..n.pow(len as u32) {
            let mut k = idx; let mut pre = Vec::new();
            for _ in 0..len { pre.push(alpha[k % n].clone()); k /= n; }
            for b in 0..3 {
                let mut ops = pre.clone(); ops.push(format!("R:{b}")); ops.push("B".into());
                cases.push(format!("ids=0.1.2 keys=0.1.2 ops={}", ops.join(";")));
                let mut ops = vec![prefix.to_string()]; ops.extend(pre.iter().cloned()); ops.push(format!("R:{b}")); ops.push("B".into());
                cases.push(format!("ids=0.1.2 keys=0.1.2 ops={}", ops.join(";")));
            }
        }
    }
    let mut rng = Rng::new(seed);
    let nrand = if thorough { 20000 } else { 2000 };
    for _ in 0..nrand {
        let ni = rng.range(1, 6); let nk = rng.range(1, 6);
        let len = rng.range(1, if thorough { 300 } else { 80 });
        let mut ops = Vec::new();
        for _ in 0..len {
            match rng.below(10) {
                0 | 1 => ops.push(format!("I:{}", h(rng.below(ni)))),
                2 | 3 => ops.push(format!("X:{}", h(rng.below(ni)))),
                4 => { if rng.chance(1, 2) { ops.push("B".into()) } else if rng.chance(1, 4) { ops.push(format!("R:{}", h(rng.below(ni)))) } else {
                    let inner = match rng.below(3) { 0 => format!("X:{}", h(rng.below(ni))), 1 => format!("I:{}", h(rng.below(ni))), _ => format!("L:{}:{}", h(rng.below(ni)), h(rng.below(nk))) };
                    ops.push(format!("K:{}:{}:{}", h(rng.below(ni)), h(rng.below(nk)), inner)); } }
                _ => ops.push(format!("L:{}:{}", h(rng.below(ni)), h(rng.below(nk)))),
            }
        }
        let ids: Vec<u64> = (0..ni).collect(); let keys: Vec<u64> = (0..nk).collect();
        cases.push(format!("ids={} keys={} ops={}", ids.iter().map(h_).collect::<Vec<_>>().join("."), keys.iter().map(h_).collect::<Vec<_>>().join("."), ops.join(";")));
    }

    // concurrent histories: 2-4 threads x 1-4 operations (mutators and queries) on one shared
    // registry, few ids and keys so that threads contend: alias/remove of the same peer from
    // different threads, re-pointing a key while its owner is removed, broadcast racing remove
    let nconc = if thorough { 2500 } else { 250 };
    // directed duels, operations released round by round: one thread keeps aliasing the hot peer
    // while another removes and re-inserts it, a third re-points the same keys to another peer,
    // a fourth queries; in half of them the aliasing thread's key conversion is slow
    for ci in 0..2 * nconc {
        let nk = rng.range(1, 3);
        let l = if ci % 2 == 0 { "L" } else { "S" };
        let pre = match rng.below(3) { 0 => "I:0;I:1".to_string(), 1 => format!("I:0;I:1;L:0:{:x}", rng.below(nk)), _ => format!("I:0;I:1;L:1:{:x}", rng.below(nk)) };
        let t1: Vec<String> = (0..4).map(|_| format!("{l}:0:{:x}", rng.below(nk))).collect();
        let first_remove = rng.chance(2, 3);
        let t2: Vec<String> = (0..4).map(|j| if (j % 2 == 0) == first_remove { "X:0".to_string() } else { "I:0".to_string() }).collect();
        let mut ths = vec![t1.join(";"), t2.join(";")];
        if rng.chance(1, 2) { ths.push((0..rng.range(1, 4)).map(|_| match rng.below(3) { 0 => format!("L:1:{:x}", rng.below(nk)), 1 => "X:1".to_string(), _ => "B".to_string() }).collect::<Vec<_>>().join(";")); }
        if rng.chance(1, 2) { ths.push((0..rng.range(1, 4)).map(|_| match rng.below(5) { 0 => format!("Y:{:x}", rng.below(nk)), 1 => "A:0".to_string(), 2 => "F:0".to_string(), 3 => "G:0".to_string(), _ => "N".to_string() }).collect::<Vec<_>>().join(";")); }
        let keys: Vec<u64> = (0..nk).collect();
        cases.push(format!("k=conc ids=0.1 keys={} sync=1 pre={} th={}", keys.iter().map(h_).collect::<Vec<_>>().join("."), pre, ths.join("!")));
    }
    // get_by against a key that always addresses a present peer: the key is moved to the other peer
    // and its previous owner removed while readers look it up (never "nobody")
    for ci in 0..2 * nconc {
        let (a, b) = if ci % 2 == 0 { (0, 1) } else { (1, 0) };
        let t1 = format!("L:{b}:0;X:{a};I:{a};L:{a}:0");
        let rd = "Y:0;Y:0;Y:0;Y:0";
        let mut ths = vec![t1, rd.to_string()];
        if ci % 3 != 0 { ths.push(rd.to_string()); }
        if ci % 4 == 0 { ths.push(rd.to_string()); }
        cases.push(format!("k=conc ids=0.1 keys=0 sync={} pre=I:0;I:1;L:{a}:0 th={}", ci % 2, ths.join("!")));
    }
    for ci in 0..nconc {
        let ni = rng.range(1, 3); let nk = rng.range(1, 3);
        let mut pre: Vec<String> = Vec::new();
        for i in 0..ni { if rng.chance(4, 5) { pre.push(format!("I:{i:x}")); } }
        for _ in 0..rng.below(4) { pre.push(format!("L:{:x}:{:x}", rng.below(ni), rng.below(nk))); }
        let nth = rng.range(2, 4);
        let hot_id = rng.below(ni); let hot_key = rng.below(nk);
        let mut ths = Vec::new();
        for _ in 0..nth {
            let nops = rng.range(1, 4);
            let ops: Vec<String> = (0..nops).map(|_| {
                let id = if rng.chance(2, 3) { hot_id } else { rng.below(ni) };
                let k = if rng.chance(2, 3) { hot_key } else { rng.below(nk) };
                match rng.below(20) {
                    0..=5 => format!("L:{id:x}:{k:x}"),
                    6..=8 => format!("X:{id:x}"),
                    9 | 10 => format!("I:{id:x}"),
                    11 => "B".to_string(),
                    12 | 13 => format!("Y:{k:x}"),
                    14 | 15 => format!("A:{id:x}"),
                    16 => format!("F:{id:x}"),
                    17 => format!("G:{id:x}"),
                    18 => "N".to_string(),
                    _ => format!("L:{:x}:{k:x}", rng.below(ni)),
                }
            }).collect();
            ths.push(ops.join(";"));
        }
        let ids: Vec<u64> = (0..ni).collect(); let keys: Vec<u64> = (0..nk).collect();
        cases.push(format!("k=conc ids={} keys={} sync={} pre={} th={}", ids.iter().map(h_).collect::<Vec<_>>().join("."), keys.iter().map(h_).collect::<Vec<_>>().join("."),
            ci % 2, if pre.is_empty() { "-".to_string() } else { pre.join(";") }, ths.join("!")));
    }
    // the same short history many times (rounds=), every round on a fresh registry, the threads
    // released together by a spinning gate: several callers doing the same thing to the same peer
    // at the same instant (a peer that is inserted once is removed once, whoever asks), alias and
    // re-pointing against remove, queries and a broadcast beside them
    let duel_rounds = if thorough { 1000 } else { 400 };
    for (keys, pre, sync, th) in [
        ("0", "I:0;I:1;L:0:0", 0, "X:0!X:0"),
        ("0", "I:0;I:1;L:0:0", 0, "X:0!X:0!X:0"),
        ("0.1", "I:0;I:1;L:0:0;L:0:1", 0, "X:0!X:0!X:0"),
        ("0", "I:0;I:1", 0, "X:0!X:0!X:0!X:0"),
        ("0", "I:0;I:1;L:0:0", 0, "X:0!X:0!G:0;N"),
        ("0.1", "I:0;I:1;L:0:0;L:1:1", 0, "X:0!X:0!Y:0;A:0!F:0;Y:1"),
        ("0", "I:0;I:1;L:0:0", 0, "X:0!X:0!B"),
        ("0", "I:0;I:1;L:0:0", 1, "X:0;I:0;X:0;I:0!X:0;X:0;X:0;X:0"),
        ("0", "I:0;I:1;L:0:0", 1, "X:0;I:0;X:0;I:0!X:0;X:0;X:0;X:0!X:0;X:0;X:0;X:0"),
        ("0.1", "I:0;I:1;L:0:0", 0, "X:0!L:0:1"),
        ("0.1", "I:0;I:1;L:0:0", 0, "X:0!S:0:1!X:0"),
        ("0", "I:0;I:1", 0, "L:0:0!L:0:0!L:1:0"),
        ("0", "I:0;I:1;L:0:0", 0, "L:1:0!X:0!Y:0!X:0"),
    ] {
        cases.push(format!("k=conc rounds={:x} ids=0.1 keys={} sync={} pre={} th={}", duel_rounds, keys, sync, pre, th));
    }
    // a session key migrating between two present peers, running freely: one thread keeps moving
    // the key to the other peer, removing and re-inserting its previous owner and moving the key
    // back, while 3-5 readers look the key up as fast as they can; at every moment the key
    // addresses a present peer, so no lookup may find nobody
    let mig_rounds = if thorough { 150 } else { 60 };
    for (ci, nreaders) in [4usize, 4, 3, 5].into_iter().enumerate() {
        let (a, b) = if ci % 2 == 0 { (0, 1) } else { (1, 0) };
        let mover = vec![format!("L:{b}:0;X:{a};I:{a};L:{a}:0"); 16].join(";");
        let reader = vec!["Y:0"; 64].join(";");
        let mut ths = vec![mover];
        for _ in 0..nreaders { ths.push(reader.clone()); }
        cases.push(format!("k=conc rounds={:x} ids=0.1 keys=0 sync=0 pre=I:0;I:1;L:{a}:0 th={}", mig_rounds, ths.join("!")));
    }
    cases.into_iter().enumerate().map(|(i, c)| format!("i={i} {c}")).collect()
}

fn main() {
    let cases = if no_gen() { vec![] } else { gen_cases(seed(), is_thorough()) };
    isolated_main(cases, run_case, Duration::from_secs(20));
}
