//! C08 correspondence: bulk / generic / aligned numeric bodies, the streaming
//! writers, the borrowing route at chosen buffer misalignments, wrong element
//! type / body format requests, and live calls over TCP.
//!
//! Elements travel as the hex of their little-endian bytes (bit patterns:
//! `from_le_bytes` / `to_le_bytes`, never a numeric conversion).  In an
//! observation `=` stands for "identical to the reference value" (the bulk body
//! for `gen`, the streamed frame for `frame`, the input elements for `ok:=`).
use half::{bf16, f16};
use repe::server::HandlerErased;
use repe::{
    AsyncClient, CallContext, Client, Complex, Header, Message, MessageView, RepeError,
    Router, TypedResponse, write_message, write_message_complex_slice, write_message_typed_slice,
};
use repe_verif_harness::*;
use serde::{Serialize, de::DeserializeOwned};
use std::collections::HashMap;
use std::sync::{Arc, Mutex, OnceLock};
use std::time::Duration;

trait El: beve::BeveTypedSlice + Serialize + DeserializeOwned + Copy + Send + Sync + 'static {
    const W: usize;
    fn from_le(b: &[u8]) -> Self;
    fn put_le(&self, out: &mut Vec<u8>);
}
macro_rules! el {
    ($($t:ty),*) => {$(
        impl El for $t {
            const W: usize = std::mem::size_of::<$t>();
            fn from_le(b: &[u8]) -> Self { <$t>::from_le_bytes(b.try_into().unwrap()) }
            fn put_le(&self, out: &mut Vec<u8>) { out.extend_from_slice(&self.to_le_bytes()); }
        }
    )*};
}
el!(u8, u16, u32, u64, i8, i16, i32, i64, f32, f64, f16, bf16);

const TYPES: &[&str] = &["u8", "u16", "u32", "u64", "i8", "i16", "i32", "i64", "bf16", "f16", "f32", "f64"];
fn tindex(t: &str) -> usize { TYPES.iter().position(|x| *x == t).expect("type") }
fn twidth(t: &str) -> usize { match t { "u8" | "i8" => 1, "u16" | "i16" | "bf16" | "f16" => 2, "u32" | "i32" | "f32" => 4, _ => 8 } }

macro_rules! dispatch {
    ($name:expr, $f:ident ( $($a:expr),* )) => {
        match $name {
            "u8" => $f::<u8>($($a),*), "u16" => $f::<u16>($($a),*), "u32" => $f::<u32>($($a),*), "u64" => $f::<u64>($($a),*),
            "i8" => $f::<i8>($($a),*), "i16" => $f::<i16>($($a),*), "i32" => $f::<i32>($($a),*), "i64" => $f::<i64>($($a),*),
            "bf16" => $f::<bf16>($($a),*), "f16" => $f::<f16>($($a),*), "f32" => $f::<f32>($($a),*), "f64" => $f::<f64>($($a),*),
            other => panic!("unknown element type {other}"),
        }
    };
}

fn ph(s: &str) -> u64 { u64::from_str_radix(s, 16).unwrap() }
fn elems<T: El>(b: &[u8]) -> Vec<T> { b.chunks(T::W).map(T::from_le).collect() }
fn le_bytes<T: El>(xs: &[T]) -> Vec<u8> { let mut v = Vec::with_capacity(xs.len() * T::W); for x in xs { x.put_le(&mut v); } v }

fn ekind(e: &RepeError) -> &'static str {
    match e {
        RepeError::Beve(b) => match b {
            beve::Error::Eof => "eof",
            beve::Error::InvalidType(_) => "itype",
            beve::Error::Mismatch(_) => "mismatch",
            beve::Error::InvalidSize => "isize",
            beve::Error::Unsupported(_) => "unsup",
            _ => "other",
        },
        RepeError::UnexpectedBodyFormat { .. } => "format",
        RepeError::ServerError { .. } => "remote",
        _ => "other",
    }
}
/// `ok:=` when the decoded bit patterns are the reference ones
fn res_s<T: El>(r: Result<Vec<T>, RepeError>, reference: Option<&[u8]>) -> String {
    match r {
        Ok(v) => { let b = le_bytes(&v); if reference == Some(&b[..]) { "ok:=".into() } else { format!("ok:{}", hex(&b)) } }
        Err(e) => format!("err:{}", ekind(&e)),
    }
}
fn same_or_hex(v: &[u8], reference: &[u8]) -> String { if v == reference { "=".into() } else { hex(v) } }

// ---------------------------------------------------------------- KEnc
fn run_enc<T: El>(f: &HashMap<String, String>) -> String {
    let xb = unhex(&f["xs"]); let xs: Vec<T> = elems(&xb);
    let q = unhex(&f["q"]); let id = ph(&f["id"]);
    // the bulk setter replaces whatever body an earlier setter left in the builder (id selects the
    // variant: none, a text body first, the bulk setter twice)
    let b0 = Message::builder().id(id).query_bytes(q.clone());
    let mb = match id % 4 { 1 => b0.body_utf8("stale body").body_typed_slice(&xs).build(), 2 => b0.body_typed_slice(&xs[..xs.len().min(1)]).body_typed_slice(&xs).build(), _ => b0.body_typed_slice(&xs).build() };
    let mg = Message::builder().id(id).query_bytes(q.clone()).body_beve(&xs).expect("serde encode").build();
    let mut stream = Vec::new();
    // the streaming writer stamps the lengths and the BEVE body format whatever the header it is
    // handed already says
    let mut h = Header::new(); h.id = id;
    if id % 3 == 1 { h.body_format = [2u16, 3, 0x100][(id % 9 / 3) as usize]; h.length = 7; h.body_length = 11; }
    write_message_typed_slice(&mut stream, h, &q, &xs).expect("stream");
    let mut frame = Vec::new();
    write_message(&mut frame, &mb).expect("frame");
    let r1 = res_s(mb.decode_typed_slice::<T>(), Some(&xb));
    let r2 = res_s(mg.decode_typed_slice::<T>(), Some(&xb));
    let r3 = res_s(mb.beve_body::<Vec<T>>(), Some(&xb));
    let r4 = res_s(mg.beve_body::<Vec<T>>(), Some(&xb));
    format!("bulk={} gen={} stream={} frame={} r1={r1} r2={r2} r3={r3} r4={r4}",
        hex(&mb.body), same_or_hex(&mg.body, &mb.body), hex(&stream), same_or_hex(&frame, &stream))
}

// ---------------------------------------------------------------- KCplx
fn cplx<T: El>(b: &[u8]) -> Vec<Complex<T>> { b.chunks(2 * T::W).map(|c| Complex { re: T::from_le(&c[..T::W]), im: T::from_le(&c[T::W..]) }).collect() }
fn cplx_bytes<T: El>(zs: &[Complex<T>]) -> Vec<u8> { let mut v = Vec::new(); for z in zs { z.re.put_le(&mut v); z.im.put_le(&mut v); } v }
fn cres_s<T: El>(r: Result<Vec<Complex<T>>, RepeError>, reference: &[u8]) -> String {
    match r {
        Ok(v) => { let b = cplx_bytes(&v); if b == reference { "ok:=".into() } else { format!("ok:{}", hex(&b)) } }
        Err(e) => format!("err:{}", ekind(&e)),
    }
}
fn run_cplx<T: El, U: El>(f: &HashMap<String, String>) -> String
where Complex<T>: Serialize + DeserializeOwned {
    let zb = unhex(&f["zs"]); let zs: Vec<Complex<T>> = cplx(&zb);
    let q = unhex(&f["q"]); let id = ph(&f["id"]);
    let b0 = Message::builder().id(id).query_bytes(q.clone());
    let mb = match id % 4 { 1 => b0.body_utf8("stale body").body_complex_slice(&zs).build(), 2 => b0.body_complex_slice(&zs[..zs.len().min(1)]).body_complex_slice(&zs).build(), _ => b0.body_complex_slice(&zs).build() };
    let mg = Message::builder().id(id).query_bytes(q.clone()).body_beve(&zs).expect("serde encode").build();
    let mut stream = Vec::new();
    let mut h = Header::new(); h.id = id;
    if id % 3 == 1 { h.body_format = [2u16, 3, 0x100][(id % 9 / 3) as usize]; h.length = 7; h.body_length = 11; }
    write_message_complex_slice(&mut stream, h, &q, &zs).expect("stream");
    let mut frame = Vec::new();
    write_message(&mut frame, &mb).expect("frame");
    let r1 = cres_s(mb.decode_complex_slice::<T>(), &zb);
    let r2 = cres_s(mg.decode_complex_slice::<T>(), &zb);
    let r3 = cres_s(mb.beve_body::<Vec<Complex<T>>>(), &zb);
    let r4 = cres_s(mg.beve_body::<Vec<Complex<T>>>(), &zb);
    let r5 = res_s(mb.decode_typed_slice::<T>(), None);
    let r6 = match mb.decode_complex_slice::<U>() { Ok(v) => format!("ok:{}", hex(&cplx_bytes(&v))), Err(e) => format!("err:{}", ekind(&e)) };
    format!("bulk={} gen={} stream={} frame={} r1={r1} r2={r2} r3={r3} r4={r4} r5={r5} r6={r6}",
        hex(&mb.body), same_or_hex(&mg.body, &mb.body), hex(&stream), same_or_hex(&frame, &stream))
}

// ---------------------------------------------------------------- routes through handle_view
/// what the borrowing handler saw: address of the slice, its elements
type Seen = Arc<Mutex<Option<(usize, Vec<u8>)>>>;

fn ref_route<T: El>(seen: Seen) -> Arc<dyn HandlerErased> {
    Router::new().with_typed_slice_ref::<T, T, _>("/r", move |xs: &[T]| {
        *seen.lock().unwrap() = Some((xs.as_ptr() as usize, le_bytes(xs)));
        Ok(xs.to_vec())
    }).get("/r").expect("route")
}
fn slice_route<T: El>() -> Arc<dyn HandlerErased> {
    Router::new().with_typed_slice::<T, T, _>("/s", |xs: Vec<T>| Ok(xs)).get("/s").expect("route")
}

/// `frame` copied `m` bytes after an 8-aligned address; returns the backing store and the byte range
struct Placed { backing: Vec<u64>, m: usize, len: usize }
impl Placed {
    fn new(frame: &[u8], m: usize) -> Self {
        let mut backing = vec![0u64; (m + frame.len()) / 8 + 2];
        assert_eq!(backing.as_ptr() as usize % 8, 0);
        // SAFETY: the Vec<u64> owns (m + len)/8 + 2 words, viewed as bytes
        let bytes = unsafe { std::slice::from_raw_parts_mut(backing.as_mut_ptr() as *mut u8, backing.len() * 8) };
        bytes[m..m + frame.len()].copy_from_slice(frame);
        Placed { backing, m, len: frame.len() }
    }
    fn bytes(&self) -> &[u8] {
        // SAFETY: as above
        let all = unsafe { std::slice::from_raw_parts(self.backing.as_ptr() as *const u8, self.backing.len() * 8) };
        &all[self.m..self.m + self.len]
    }
}

/// response of a bulk route: elements, an error response, or an error value
fn route_result<T: El>(r: Result<Message, RepeError>, reference: Option<&[u8]>) -> String {
    match r {
        Ok(resp) if resp.header.ec == 0 => res_s(resp.decode_typed_slice::<T>(), reference),
        Ok(_) => "err:remote".into(),
        Err(e) => format!("err:{}", ekind(&e)),
    }
}

fn query_of(ql: usize) -> Vec<u8> { (0..ql).map(|i| if i == 0 { b'/' } else { b'a' + (i % 26) as u8 }).collect() }

fn build_src<T: El>(src: &str, q: &[u8], xs: &[T]) -> Message {
    let b = Message::builder().id(7).query_bytes(q.to_vec());
    match src {
        "a" => b.body_aligned_typed_slice(xs).build(),
        "b" => b.body_typed_slice(xs).build(),
        "s" => b.body_beve(&xs.to_vec()).expect("serde encode").build(),
        _ => panic!("bad src"),
    }
}

// ---------------------------------------------------------------- KRef
fn run_ref<T: El>(f: &HashMap<String, String>) -> String {
    let xb = unhex(&f["xs"]); let xs: Vec<T> = elems(&xb);
    let ql = ph(&f["ql"]) as usize; let m = ph(&f["m"]) as usize;
    let msg = build_src::<T>(&f["src"], &query_of(ql), &xs);
    let frame = msg.to_vec();
    let placed = Placed::new(&frame, m);
    let buf = placed.bytes();
    let seen: Seen = Arc::new(Mutex::new(None));
    let h = ref_route::<T>(seen.clone());
    let view = MessageView::from_slice(buf).expect("view");
    let ctx = CallContext::detached("/r");
    let r = h.handle_view(&view, &ctx);
    let lo = buf.as_ptr() as usize; let hi = lo + buf.len();
    let s = seen.lock().unwrap().take();
    let (r1, bor) = match (&r, s) {
        (Ok(resp), Some((p, bytes))) if resp.header.ec == 0 => (if bytes == xb { "ok:=".to_string() } else { format!("ok:{}", hex(&bytes)) }, (lo <= p && p <= hi) as u8),
        (Ok(resp), None) if resp.header.ec == 0 => ("err:other".to_string(), 0),
        (Ok(_), _) => ("err:remote".to_string(), 0),
        (Err(e), _) => (format!("err:{}", ekind(e)), 0),
    };
    let r2 = route_result::<T>(r, Some(&xb));
    format!("body={} r1={r1} r2={r2} bor={bor}", hex(&msg.body))
}

// ---------------------------------------------------------------- KWrongType
fn wt_bodies<T: El>(xb: &[u8], ql: usize) -> (Message, Message, Message) {
    let xs: Vec<T> = elems(xb); let q = query_of(ql);
    (build_src::<T>("b", &q, &xs), build_src::<T>("s", &q, &xs), build_src::<T>("a", &q, &xs))
}
fn wt_decode<U: El>(mb: &Message, mg: &Message, ma: &Message, m: usize) -> String {
    let r1 = res_s(mb.decode_typed_slice::<U>(), None);
    let r2 = res_s(mg.decode_typed_slice::<U>(), None);
    let ctx = CallContext::detached("/x");
    let via = |h: &Arc<dyn HandlerErased>, msg: &Message| -> String {
        let placed = Placed::new(&msg.to_vec(), m);
        let view = MessageView::from_slice(placed.bytes()).expect("view");
        route_result::<U>(h.handle_view(&view, &ctx), None)
    };
    let hs = slice_route::<U>();
    let hr = ref_route::<U>(Arc::new(Mutex::new(None)));
    let r3 = via(&hs, mb); let r4 = via(&hr, ma); let r5 = via(&hr, mb);
    format!("r1={r1} r2={r2} r3={r3} r4={r4} r5={r5}")
}
fn run_wt(f: &HashMap<String, String>) -> String {
    let xb = unhex(&f["xs"]); let ql = ph(&f["ql"]) as usize; let m = ph(&f["m"]) as usize;
    let (mb, mg, ma) = dispatch!(f["t"].as_str(), wt_bodies(&xb, ql));
    dispatch!(f["u"].as_str(), wt_decode(&mb, &mg, &ma, m))
}

// ---------------------------------------------------------------- KWrongFmt
fn run_wf<T: El>(f: &HashMap<String, String>) -> String {
    let xb = unhex(&f["xs"]); let xs: Vec<T> = elems(&xb); let bf = ph(&f["bf"]) as u16;
    // g=1: the generic (serde) encoding of the same elements, relabelled
    let b = Message::builder().id(1);
    let msg = if f.get("g").map(|g| g == "1").unwrap_or(false) { b.body_beve(&xs).expect("serde encode").body_format_code(bf).build() }
              else { b.body_typed_slice(&xs).body_format_code(bf).build() };
    let r1 = res_s(msg.decode_typed_slice::<T>(), None);
    let r2 = match msg.decode_complex_slice::<T>() { Ok(v) => format!("ok:{}", hex(&cplx_bytes(&v))), Err(e) => format!("err:{}", ekind(&e)) };
    let ctx = CallContext::detached("/x");
    let frame = msg.to_vec();
    let placed = Placed::new(&frame, 0);
    let view = MessageView::from_slice(placed.bytes()).expect("view");
    let r3 = route_result::<T>(slice_route::<T>().handle_view(&view, &ctx), None);
    let r4 = route_result::<T>(ref_route::<T>(Arc::new(Mutex::new(None))).handle_view(&view, &ctx), None);
    format!("r1={r1} r2={r2} r3={r3} r4={r4}")
}

// ---------------------------------------------------------------- KNet
const NET_QL_MAX: usize = 19;
fn net_path(rk: &str, ti: usize, ql: usize) -> String {
    let mut p = format!("/{rk}{ti:x}");
    assert!(ql >= p.len() && ql <= NET_QL_MAX);
    while p.len() < ql { p.push('p'); }
    p
}
fn reg<T: El>(mut r: Router, ti: usize) -> Router {
    for ql in 3..=NET_QL_MAX {
        r = r.with_typed_slice::<T, T, _>(&net_path("s", ti, ql), |xs: Vec<T>| Ok(xs));
        r = r.with_typed_slice_ref::<T, T, _>(&net_path("r", ti, ql), |xs: &[T]| Ok(xs.to_vec()));
        r = r.with_typed::<Vec<T>, Vec<T>, _>(&net_path("t", ti, ql), |xs: Vec<T>| Ok(TypedResponse::beve(xs)));
    }
    r
}
struct Net { sync: Mutex<Client>, asy: AsyncClient }
static NET: OnceLock<Net> = OnceLock::new();
fn netw() -> &'static Net {
    NET.get_or_init(|| {
        let mut r = Router::new();
        for (ti, t) in TYPES.iter().enumerate() { r = dispatch!(*t, reg(r, ti)); }
        let s = net::start_servers(r);
        let sync = Client::connect(s.tcp).expect("connect");
        let asy = net::runtime().block_on(AsyncClient::connect(s.atcp)).expect("connect");
        Net { sync: Mutex::new(sync), asy }
    })
}
const CALL_TIMEOUT: Duration = Duration::from_secs(10);
fn run_net<T: El>(f: &HashMap<String, String>) -> String {
    let xb = unhex(&f["xs"]); let xs: Vec<T> = elems(&xb);
    let ql = ph(&f["ql"]) as usize;
    let path = net_path(&f["rk"], tindex(&f["t"]), ql);
    let n = netw();
    let r1 = {
        let c = n.sync.lock().unwrap();
        match f["ck"].as_str() {
            "b" => c.call_typed_slice_with_timeout::<_, T, T>(&path, &xs, CALL_TIMEOUT),
            "a" => c.call_typed_slice_aligned_with_timeout::<_, T, T>(&path, &xs, CALL_TIMEOUT),
            "s" => c.call_typed_beve_with_timeout::<_, Vec<T>, Vec<T>>(&path, &xs, CALL_TIMEOUT),
            _ => panic!("bad ck"),
        }
    };
    let r2 = net::runtime().block_on(async {
        match f["ck"].as_str() {
            "b" => n.asy.call_typed_slice_with_timeout::<_, T, T>(&path, &xs, CALL_TIMEOUT).await,
            "a" => n.asy.call_typed_slice_aligned_with_timeout::<_, T, T>(&path, &xs, CALL_TIMEOUT).await,
            "s" => n.asy.call_typed_beve_with_timeout::<_, Vec<T>, Vec<T>>(&path, &xs, CALL_TIMEOUT).await,
            _ => panic!("bad ck"),
        }
    });
    format!("r1={} r2={}", res_s(r1, Some(&xb)), res_s(r2, Some(&xb)))
}

fn run_cplx_any(f: &HashMap<String, String>) -> String {
    match (f["t"].as_str(), f["u"].as_str()) {
        ("f32", "f64") => run_cplx::<f32, f64>(f),
        ("f64", "f32") => run_cplx::<f64, f32>(f),
        ("f32", "i32") => run_cplx::<f32, i32>(f),
        ("f64", "u64") => run_cplx::<f64, u64>(f),
        ("i16", "u16") => run_cplx::<i16, u16>(f),
        (t, u) => panic!("complex pair {t}/{u} not instantiated"),
    }
}

fn run_case(line: &str) -> String {
    let f = fields(line);
    let r = guard(move || {
        let t = f.get("t").map(|s| s.as_str()).unwrap_or("");
        match f["k"].as_str() {
            "enc" => dispatch!(t, run_enc(&f)),
            "cplx" => run_cplx_any(&f),
            "ref" => dispatch!(t, run_ref(&f)),
            "wt" => run_wt(&f),
            "wf" => dispatch!(t, run_wf(&f)),
            "net" => dispatch!(t, run_net(&f)),
            k => panic!("bad kind {k}"),
        }
    });
    r.unwrap_or_else(|_| "crash=panic".into())
}

// ---------------------------------------------------------------- generation
/// (exponent bits, mantissa bits) of a float type
fn float_fmt(t: &str) -> Option<(u32, u32)> {
    match t { "f16" => Some((5, 10)), "bf16" => Some((8, 7)), "f32" => Some((8, 23)), "f64" => Some((11, 52)), _ => None }
}
/// one element as a bit pattern: boundary classes of the type and random bits
fn gen_elem(rng: &mut Rng, t: &str) -> u64 {
    let bits = 8 * twidth(t) as u32;
    let mask = if bits == 64 { u64::MAX } else { (1u64 << bits) - 1 };
    if let Some((e, m)) = float_fmt(t) {
        let sign = 1u64 << (bits - 1);
        let inf = ((1u64 << e) - 1) << m;
        let v = match rng.below(14) {
            0 => 0, 1 => sign, 2 => inf, 3 => inf | sign,
            4 => inf | (1u64 << (m - 1)),                       // quiet NaN
            5 => inf | 1,                                       // signalling NaN, smallest payload
            6 => inf | sign | (rng.next() & ((1u64 << m) - 1)).max(1), // NaN, random payload
            7 => inf - 1,                                       // largest finite
            8 => 1,                                             // smallest subnormal
            9 => (1u64 << m) - 1,                               // largest subnormal
            10 => 1u64 << m,                                    // smallest normal
            _ => rng.next(),
        };
        v & mask
    } else {
        rng.boundary(bits)
    }
}
fn gen_xs(rng: &mut Rng, t: &str, n: usize) -> String {
    let w = twidth(t);
    let mut b = Vec::with_capacity(n * w);
    for _ in 0..n { let v = gen_elem(rng, t).to_le_bytes(); b.extend_from_slice(&v[..w]); }
    hex(&b)
}

fn gen_cases(seed: u64, thorough: bool) -> Vec<String> {
    let mut rng = Rng::new(seed);
    let mut cases: Vec<String> = Vec::new();
    let small: Vec<usize> = (0..=33).chain(62..=66).collect();
    let big: Vec<usize> = vec![255, 256, 257, 4095, 4096, 16383, 16384];

    // encoders / decoders / streaming writer
    for t in TYPES {
        let mut lens: Vec<usize> = small.iter().chain(big.iter()).cloned().collect();
        if thorough { for _ in 0..40 { lens.push(rng.range(0, 5000) as usize); } if twidth(t) <= 2 { lens.push(100_000); } }
        for n in lens {
            let ql = rng.below(17) as usize;
            let q = hex(&rng.bytes(ql));
            cases.push(format!("k=enc t={t} xs={} q={q} id={:x}", gen_xs(&mut rng, t, n), rng.boundary(64)));
        }
    }
    // complex slices (n pairs)
    for (t, u) in [("f32", "f64"), ("f64", "f32"), ("f32", "i32"), ("f64", "u64"), ("i16", "u16")] {
        let mut lens: Vec<usize> = small.clone(); lens.extend([255, 256, 4096, 8191, 8192]);
        if thorough { lens.extend([16383, 16384]); for _ in 0..40 { lens.push(rng.range(0, 3000) as usize); } }
        for n in lens {
            let ql = rng.below(17) as usize;
            let q = hex(&rng.bytes(ql));
            cases.push(format!("k=cplx t={t} u={u} zs={} q={q} id={:x}", gen_xs(&mut rng, t, 2 * n), rng.boundary(64)));
        }
    }
    // the borrowing route: every element type x lengths over every SIZE width
    // x every query length 0..16 x every misalignment 0..7
    let ref_lens: Vec<usize> = if thorough { (0..=33).chain([63, 64, 65]).collect() } else { vec![0, 1, 2, 3, 5, 8, 13, 33, 63, 64, 65] };
    for t in TYPES {
        for &n in &ref_lens {
            for ql in 0..=16usize {
                for m in 0..8usize {
                    cases.push(format!("k=ref t={t} xs={} ql={ql:x} m={m:x} src=a", gen_xs(&mut rng, t, n)));
                }
            }
        }
        // longer slices, and the 4-byte SIZE form, at sampled (query length, misalignment)
        let long: &[usize] = if thorough { &[255, 256, 4096, 16383, 16384] } else { &[16383, 16384] };
        for &n in long {
            let k = if thorough { if n >= 16383 { 4 } else { 16 } } else { 3 };
            let combos: Vec<(usize, usize)> = (0..k).map(|_| (rng.below(17) as usize, rng.below(8) as usize)).collect();
            for (ql, m) in combos {
                cases.push(format!("k=ref t={t} xs={} ql={ql:x} m={m:x} src=a", gen_xs(&mut rng, t, n)));
            }
        }
        // regular and serde bodies through the same route (always copied)
        for &n in &[0usize, 1, 2, 7, 64] {
            for ql in [0usize, 1, 5, 8, 11] {
                for m in 0..8usize {
                    for src in ["b", "s"] {
                        cases.push(format!("k=ref t={t} xs={} ql={ql:x} m={m:x} src={src}", gen_xs(&mut rng, t, n)));
                    }
                }
            }
        }
    }
    // wrong element type: every ordered pair of distinct types
    for t in TYPES {
        for u in TYPES {
            if t == u { continue; }
            for &n in &[0usize, 1, 3, 8] {
                let reps = if thorough { 4 } else { 1 };
                for _ in 0..reps {
                    // a length whose byte count also fits u exactly, and one that does not, both occur over the pairs
                    cases.push(format!("k=wt t={t} u={u} xs={} ql={:x} m={:x}", gen_xs(&mut rng, t, n), rng.below(17), rng.below(8)));
                }
            }
        }
    }
    // wrong body format
    for t in TYPES {
        for bf in [0u16, 2, 3, 4, 0x100, 0xffff] {
            for &n in &[0usize, 2, 9] {
                cases.push(format!("k=wf t={t} xs={} bf={bf:x} g=0", gen_xs(&mut rng, t, n)));
                // the generic encoding under another format (for n = 0 the body `05 00` that the
                // BEVE-format decoders accept for every element type)
                cases.push(format!("k=wf t={t} xs={} bf={bf:x} g=1", gen_xs(&mut rng, t, n)));
            }
        }
    }
    // live calls
    let net_lens: Vec<usize> = if thorough { vec![0, 1, 2, 3, 7, 33, 63, 64, 65, 300, 4096, 16384] } else { vec![0, 1, 2, 7, 64, 300] };
    let qls: Vec<usize> = if thorough { (4..=NET_QL_MAX).collect() } else { (4..=11).collect() };
    for t in TYPES {
        for (rk, ck) in [("s", "b"), ("s", "s"), ("s", "a"), ("r", "b"), ("r", "s"), ("r", "a"), ("t", "b"), ("t", "s")] {
            for &n in &net_lens {
                if n >= 16384 && twidth(t) > 2 && !(rk == "r" && ck == "a") { continue; }
                for &ql in &qls {
                    // long slices: every route/client pair at two query lengths, the aligned pair at every residue modulo 8
                    if n > 300 && !(ql == 5 || ql == 8 || (rk == "r" && ck == "a" && ql < 12 && n < 16384)) { continue; }
                    cases.push(format!("k=net rk={rk} ck={ck} t={t} xs={} ql={ql:x}", gen_xs(&mut rng, t, n)));
                }
            }
        }
    }
    // payloads just above 64 KiB through the bulk client calls (both tiers)
    for (t, n) in [("f64", 8200usize), ("u64", 8193)] {
        if !TYPES.contains(&t) { continue; }
        for (rk, ck) in [("s", "b"), ("t", "b"), ("r", "b")] {
            cases.push(format!("k=net rk={rk} ck={ck} t={t} xs={} ql={:x}", gen_xs(&mut rng, t, n), 5));
        }
    }
    cases.into_iter().enumerate().map(|(i, c)| format!("i={i} {c}")).collect()
}

fn main() {
    let cases = if no_gen() { vec![] } else { gen_cases(seed(), is_thorough()) };
    isolated_main(cases, run_case, Duration::from_secs(60));
}
