//! C05 correspondence: what each of the six endpoints puts on a connection,
//! observed by a scripted raw peer whose frame analyser shares no code with
//! repe.  Concurrent writers, stalled peers (SO_RCVBUF shrunk before
//! listen/connect), write timeouts and cancelled calls.
//!
//! Every frame carries its writer tag and sequence number (in the query for
//! requests and pushed notifies, in the id for responses, and again in the
//! body), a position-dependent body pattern keyed by (tag, seq) and a body
//! checksum, so any cut, splice, interleaving or duplication is located to the
//! byte.
use futures_util::{SinkExt, StreamExt};
use repe::server::HandlerErased;
use repe::tokio_tungstenite as tt;
use repe::{AsyncClient, AsyncServer, BodyFormat, Client, Execution, Message, NotifyBody, PeerHandle, PeerSendError, QueryFormat, RepeError, Router, Server, WebSocketClient, WebSocketLimits, WebSocketServer};
use repe_verif_harness::*;
use socket2::{Domain, Socket, Type};
use std::collections::{HashMap, HashSet};
use std::io::{Read, Write};
use std::net::{SocketAddr, TcpListener, TcpStream};
use std::sync::atomic::{AtomicBool, AtomicU64, Ordering};
use std::sync::{Arc, Mutex, OnceLock};
use std::time::{Duration, Instant};
use tt::tungstenite::Message as WsMsg;
use tt::tungstenite::protocol::WebSocketConfig;

const T_CASE: Duration = Duration::from_secs(90);
const T_JOIN: Duration = Duration::from_secs(40);
const IDLE_CLIENT: Duration = Duration::from_millis(2000);
const IDLE_SERVER: Duration = Duration::from_secs(4);
const RAW_MAX: usize = 1500;

fn hx(v: u64) -> String { format!("{v:x}") }
fn ph(s: &str) -> u64 { u64::from_str_radix(s, 16).unwrap() }
fn le64(b: &[u8]) -> u64 { let mut x = [0u8; 8]; x.copy_from_slice(&b[..8]); u64::from_le_bytes(x) }
fn le16(b: &[u8]) -> u16 { u16::from_le_bytes([b[0], b[1]]) }
fn clean(s: impl AsRef<str>) -> String { s.as_ref().chars().map(|c| if c.is_whitespace() || c == '=' { '_' } else { c }).collect() }

// ------------------------------------------------------------------ frame content

fn mix(z0: u64) -> u64 {
    let mut z = z0.wrapping_add(0x9E37_79B9_7F4A_7C15);
    z = (z ^ (z >> 30)).wrapping_mul(0xBF58_476D_1CE4_E5B9);
    z = (z ^ (z >> 27)).wrapping_mul(0x94D0_49BB_1331_11EB);
    z ^ (z >> 31)
}
fn checksum(b: &[u8]) -> u64 {
    let mut h = 0xcbf2_9ce4_8422_2325u64;
    let mut it = b.chunks_exact(8);
    for c in &mut it { h = (h ^ le64(c)).wrapping_mul(0x0000_0100_0000_01b3); h ^= h >> 29; }
    for x in it.remainder() { h = (h ^ *x as u64).wrapping_mul(0x0000_0100_0000_01b3); }
    h
}
/// body of frame (tag, seq): pattern keyed by (tag, seq) and the byte position;
/// bytes 0..16 = tag, seq, length when it is at least 24 bytes long; the last 8
/// bytes = checksum of what precedes when it is at least 8 bytes long
fn body_for(tag: u32, seq: u32, blen: usize) -> Vec<u8> {
    let key = mix(((tag as u64) << 32 | seq as u64) ^ 0xC05C_05C0_5C05_C05C);
    let mut v = Vec::with_capacity(blen);
    let mut i = 0u64;
    while v.len() < blen {
        let w = mix(key.wrapping_add(i.wrapping_mul(0x2545_F491_4F6C_DD1D))).to_le_bytes();
        let k = (blen - v.len()).min(8);
        v.extend_from_slice(&w[..k]);
        i += 1;
    }
    if blen >= 24 {
        v[0..4].copy_from_slice(&tag.to_le_bytes());
        v[4..8].copy_from_slice(&seq.to_le_bytes());
        v[8..16].copy_from_slice(&(blen as u64).to_le_bytes());
    }
    if blen >= 8 {
        let h = checksum(&v[..blen - 8]);
        v[blen - 8..].copy_from_slice(&h.to_le_bytes());
    }
    v
}

/// a REPE header assembled by hand (layout of the specification, not of repe)
fn header(total: u64, notify: u8, id: u64, ql: u64, bl: u64, qf: u16, bf: u16, ec: u32) -> [u8; 48] {
    let mut h = [0u8; 48];
    h[0..8].copy_from_slice(&total.to_le_bytes());
    h[8..10].copy_from_slice(&0x1507u16.to_le_bytes());
    h[10] = 1;
    h[11] = notify;
    h[16..24].copy_from_slice(&id.to_le_bytes());
    h[24..32].copy_from_slice(&ql.to_le_bytes());
    h[32..40].copy_from_slice(&bl.to_le_bytes());
    h[40..42].copy_from_slice(&qf.to_le_bytes());
    h[42..44].copy_from_slice(&bf.to_le_bytes());
    h[44..48].copy_from_slice(&ec.to_le_bytes());
    h
}

/// one frame a writer intends to put on the connection
#[derive(Clone)]
struct Intent { tag: u32, seq: u32, query: Vec<u8>, notify: u8, id: Option<u64>, body: Arc<Vec<u8>> }
impl Intent {
    fn total(&self) -> usize { 48 + self.query.len() + self.body.len() }
    /// length of the longest prefix of `got` that agrees with this frame (the
    /// id bytes are free when the id is assigned by the endpoint)
    fn common_prefix(&self, got: &[u8]) -> usize {
        let h = header(self.total() as u64, self.notify, self.id.unwrap_or(0), self.query.len() as u64, self.body.len() as u64, 1, 0, 0);
        let n = got.len().min(self.total());
        for i in 0..n.min(48) {
            if self.id.is_none() && (16..24).contains(&i) { continue; }
            if got[i] != h[i] { return i; }
        }
        if n <= 48 { return n; }
        let q = &self.query;
        let qn = (n - 48).min(q.len());
        for i in 0..qn { if got[48 + i] != q[i] { return 48 + i; } }
        let boff = 48 + q.len();
        if n <= boff { return n; }
        let bn = n - boff;
        let (a, b) = (&got[boff..boff + bn], &self.body[..bn]);
        let mut off = 0;
        for (ca, cb) in a.chunks(4096).zip(b.chunks(4096)) {
            if ca != cb { return boff + off + ca.iter().zip(cb).position(|(x, y)| x != y).unwrap(); }
            off += ca.len();
        }
        n
    }
}

// ------------------------------------------------------------------ the independent analyser

#[derive(Clone, Debug, PartialEq)]
struct Tok { whole: bool, tag: u32, seq: u32, len: usize, k: usize }
type Intents = HashMap<(u32, u32), Intent>;

fn parse_w_path(q: &[u8]) -> Option<(u32, u32)> {
    let s = std::str::from_utf8(q).ok()?;
    let mut it = s.strip_prefix("/w/")?.split('/');
    let t = u32::from_str_radix(it.next()?, 16).ok()?;
    let i = u32::from_str_radix(it.next()?, 16).ok()?;
    if it.next().is_some() { return None; }
    Some((t, i))
}

/// which intended frame starts here?  From the header and the query when they
/// are there; for a shorter tail, the first unused frame it is a prefix of.
fn identify<'a>(rem: &[u8], intents: &'a Intents, used: &HashSet<(u32, u32)>, strict: bool) -> Option<&'a Intent> {
    if rem.len() >= 48 {
        let (length, spec, ver, ql, bl) = (le64(&rem[0..8]), le16(&rem[8..10]), rem[10], le64(&rem[24..32]), le64(&rem[32..40]));
        if spec != 0x1507 || ver != 1 || ql > 256 || Some(length) != 48u64.checked_add(ql).and_then(|x| x.checked_add(bl)) { return None; }
        let ql = ql as usize;
        if rem.len() >= 48 + ql {
            let q = &rem[48..48 + ql];
            let key = if q == b"/gen" || q == b"/gin" { let id = le64(&rem[16..24]); Some(((id >> 32) as u32, id as u32)) } else { parse_w_path(q) };
            return key.and_then(|k| intents.get(&k));
        }
    }
    if strict { return None; }
    let mut keys: Vec<&(u32, u32)> = intents.keys().filter(|k| !used.contains(*k)).collect();
    keys.sort();
    for k in keys {
        let it = &intents[k];
        if rem.len() < it.total() && it.common_prefix(rem) == rem.len() { return Some(it); }
    }
    None
}

/// skip bytes that cannot be attributed, up to the next place where a whole
/// header of an intended frame starts
fn resync(s: &[u8], from: usize, intents: &Intents, used: &HashSet<(u32, u32)>, garbage: &mut u64) -> usize {
    let mut p = from + 1;
    while p + 48 <= s.len() {
        if s[p + 8] == 0x07 && s[p + 9] == 0x15 && identify(&s[p..], intents, used, true).is_some() { break; }
        p += 1;
    }
    if p + 48 > s.len() { p = s.len(); }
    *garbage += (p - from) as u64;
    p
}

fn analyse(s: &[u8], intents: &Intents, used: &mut HashSet<(u32, u32)>, toks: &mut Vec<Tok>, garbage: &mut u64) {
    let mut o = 0usize;
    while o < s.len() {
        let rem = &s[o..];
        match identify(rem, intents, used, false) {
            Some(it) => {
                let m = it.common_prefix(rem);
                let total = it.total();
                if m == total {
                    toks.push(Tok { whole: true, tag: it.tag, seq: it.seq, len: total, k: total });
                    used.insert((it.tag, it.seq));
                    o += total;
                } else if m == 0 {
                    o = resync(s, o, intents, used, garbage);
                } else {
                    toks.push(Tok { whole: false, tag: it.tag, seq: it.seq, len: total, k: m });
                    used.insert((it.tag, it.seq));
                    o += m;
                }
            }
            None => { o = resync(s, o, intents, used, garbage); }
        }
    }
}

fn toks_str(t: &[Tok]) -> String {
    if t.is_empty() { return "-".into(); }
    t.iter().map(|t| if t.whole { format!("W:{:x}:{:x}:{:x}", t.tag, t.seq, t.len) } else { format!("T:{:x}:{:x}:{:x}:{:x}", t.tag, t.seq, t.len, t.k) }).collect::<Vec<_>>().join(",")
}

// ------------------------------------------------------------------ case

#[derive(Clone)]
struct Spec {
    ep: String, sc: String, nw: usize, blens: Vec<Vec<usize>>, kinds: Vec<char>,
    wt: u64, rcv: usize, stall: u64, victim: Option<usize>, abort_us: u64, vdelay: u64, seed: u64,
}
impl Spec {
    fn parse(line: &str) -> Spec {
        let f = fields(line);
        let blens: Vec<Vec<usize>> = f["blens"].split(',').map(|w| w.split('.').map(|x| ph(x) as usize).collect()).collect();
        Spec {
            ep: f["ep"].clone(), sc: f["sc"].clone(), nw: blens.len(), blens, kinds: f["kinds"].chars().collect(),
            wt: ph(&f["wt"]), rcv: ph(&f["rcv"]) as usize, stall: ph(&f["stall"]),
            victim: if f["victim"] == "-" { None } else { Some(ph(&f["victim"]) as usize) },
            abort_us: ph(&f["abort"]), vdelay: ph(&f["vdelay"]), seed: ph(&f["seed"]),
        }
    }
    fn is_client(&self) -> bool { matches!(self.ep.as_str(), "client" | "aclient" | "wsclient") }
}
const PROBE_BLEN: usize = 10;

fn w_path(tag: u32, seq: u32) -> String { format!("/w/{tag:x}/{seq:x}") }
/// query length of a frame of writer `tag` of kind `kind`
fn qlen(kind: char, tag: usize, seq: usize) -> usize { if kind == 'r' || kind == 'i' { 4 } else { w_path(tag as u32, seq as u32).len() } }

/// kinds of the two probe writers (tags nw and nw+1)
fn probe_kinds(ep: &str) -> [char; 2] {
    match ep { "client" | "aclient" | "wsclient" => ['n', 'c'], "wsserver" => ['r', 'p'], _ => ['r', 'r'] }
}

fn build_intents(sp: &Spec) -> Intents {
    let mut m = HashMap::new();
    let pk = probe_kinds(&sp.ep);
    let mut add = |tag: usize, seq: usize, kind: char, blen: usize| {
        let (tag, seq) = (tag as u32, seq as u32);
        let body = Arc::new(body_for(tag, seq, blen));
        let rid = (tag as u64) << 32 | seq as u64;
        let it = match kind {
            'n' => Intent { tag, seq, query: w_path(tag, seq).into_bytes(), notify: 1, id: None, body },
            'c' => Intent { tag, seq, query: w_path(tag, seq).into_bytes(), notify: 0, id: None, body },
            'p' => Intent { tag, seq, query: w_path(tag, seq).into_bytes(), notify: 1, id: Some(0), body },
            'r' => Intent { tag, seq, query: b"/gen".to_vec(), notify: 0, id: Some(rid), body },
            'i' => Intent { tag, seq, query: b"/gin".to_vec(), notify: 0, id: Some(rid), body },
            _ => panic!("kind"),
        };
        m.insert((tag, seq), it);
    };
    for (t, fr) in sp.blens.iter().enumerate() { for (i, b) in fr.iter().enumerate() { add(t, i, sp.kinds[t], *b); } }
    add(sp.nw, 0, pk[0], PROBE_BLEN);
    add(sp.nw + 1, 0, pk[1], PROBE_BLEN);
    m
}

struct Obs { toks: Vec<Tok>, garbage: u64, res: Vec<(u32, u32, &'static str)>, eof: bool, raw: Option<Vec<u8>>, diag: Vec<String>,
             /// servers: what the wire held when the server had gone idle, before any further request was sent
             idle: Option<&'static str>,
             /// calls whose request was written whole and that only ended by their own 20 s timeout
             hung: Vec<(u32, u32)> }
impl Obs {
    fn render(&self) -> String {
        let res = if self.res.is_empty() { "-".to_string() } else { self.res.iter().map(|(t, i, s)| format!("{t:x}:{i:x}:{s}")).collect::<Vec<_>>().join(",") };
        format!("wire={} garbage={} res={} eof={} raw={} diag={}{}", toks_str(&self.toks), hx(self.garbage), res, self.eof as u8,
            self.raw.as_ref().map(|r| hex(r)).unwrap_or_else(|| "-".into()), if self.diag.is_empty() { "-".to_string() } else { clean(self.diag.join(";")) },
            self.idle.map(|i| format!(" idle={i}")).unwrap_or_default()) + &(if self.hung.is_empty() { String::new() } else { format!(" hung={}", self.hung.iter().map(|(t, i)| format!("{t:x}:{i:x}")).collect::<Vec<_>>().join(",")) })
    }
}

// ------------------------------------------------------------------ raw TCP peer

struct Ctl { phase: AtomicU64, received: AtomicU64, eof: AtomicBool, resumed: AtomicBool, last_ms: AtomicU64, empty_ms: AtomicU64, idle_limit: u64, closing: AtomicBool, start: Instant }
impl Ctl {
    /// `idle_limit`: how long the reading peer must have found nothing to read
    /// (counted by the reader itself, in empty reads, so that a starved reader
    /// thread does not count) before the stream is taken to be drained although
    /// neither the expected byte count nor the end of the stream was seen.
    /// Short when every write has already returned (clients), long when the
    /// sender may still be computing (servers).
    fn new(idle_limit: Duration) -> Arc<Ctl> { Arc::new(Ctl { phase: AtomicU64::new(0), received: AtomicU64::new(0), eof: AtomicBool::new(false), resumed: AtomicBool::new(false), last_ms: AtomicU64::new(0), empty_ms: AtomicU64::new(0), idle_limit: idle_limit.as_millis() as u64, closing: AtomicBool::new(false), start: Instant::now() }) }
    fn now_ms(&self) -> u64 { self.start.elapsed().as_millis() as u64 }
    fn touch(&self) { self.last_ms.store(self.now_ms(), Ordering::SeqCst); self.empty_ms.store(0, Ordering::SeqCst); }
    fn empty_read(&self, ms: u64) { self.empty_ms.fetch_add(ms, Ordering::SeqCst); }
    fn idle_for(&self) -> Duration { Duration::from_millis(self.now_ms().saturating_sub(self.last_ms.load(Ordering::SeqCst))) }
    /// the peer has everything the endpoint will send for now: end of stream,
    /// or the expected byte count, or (after the stall) nothing to read for a while
    fn drained(&self, expected: u64) -> bool {
        self.eof.load(Ordering::SeqCst) || self.received.load(Ordering::SeqCst) >= expected
            || (self.resumed.load(Ordering::SeqCst) && self.empty_ms.load(Ordering::SeqCst) > self.idle_limit)
    }
}
fn wait_drained(ctl: &Ctl, expected: u64) {
    let t0 = Instant::now();
    while !ctl.drained(expected) && t0.elapsed() < T_JOIN { std::thread::sleep(Duration::from_millis(2)); }
}
async fn wait_drained_async(ctl: &Ctl, expected: u64) {
    let t0 = Instant::now();
    while !ctl.drained(expected) && t0.elapsed() < T_JOIN { tokio::time::sleep(Duration::from_millis(2)).await; }
}

fn small_rcvbuf_socket(rcv: usize) -> std::io::Result<Socket> {
    let s = Socket::new(Domain::IPV4, Type::STREAM, None)?;
    if rcv > 0 { s.set_recv_buffer_size(rcv)?; }
    Ok(s)
}
/// listener whose accepted sockets inherit a shrunken receive buffer (set
/// before listen, so the advertised window is small from the first segment)
fn raw_listener(rcv: usize) -> std::io::Result<TcpListener> {
    let s = small_rcvbuf_socket(rcv)?;
    s.set_reuse_address(true)?;
    s.bind(&"127.0.0.1:0".parse::<SocketAddr>().unwrap().into())?;
    s.listen(16)?;
    Ok(s.into())
}
fn raw_connect(addr: SocketAddr, rcv: usize) -> std::io::Result<TcpStream> {
    let s = small_rcvbuf_socket(rcv)?;
    s.connect_timeout(&addr.into(), Duration::from_secs(5))?;
    let s: TcpStream = s.into();
    s.set_nodelay(true)?;
    Ok(s)
}

/// larger receive buffer and window clamp on an established socket
fn reopen_window(sock: &Socket) {
    use std::os::fd::AsRawFd;
    let _ = sock.set_recv_buffer_size(4 << 20);
    let clamp: libc::c_int = 1 << 20;
    unsafe { libc::setsockopt(sock.as_raw_fd(), libc::IPPROTO_TCP, libc::TCP_WINDOW_CLAMP, &clamp as *const _ as *const libc::c_void, std::mem::size_of::<libc::c_int>() as libc::socklen_t); }
}

/// stall, then read everything until end of stream (or reset); answers calls
/// (notify = 0 frames, found by declared lengths only) with a header-only response
fn reader_loop(mut s: TcpStream, ctl: Arc<Ctl>, stall: Duration, respond: bool, cap: usize) -> Vec<u8> {
    let _ = s.set_read_timeout(Some(Duration::from_millis(20)));
    let _ = s.set_write_timeout(Some(Duration::from_secs(2)));
    ctl.phase.store(1, Ordering::SeqCst);
    std::thread::sleep(stall);
    // the stall is over: reopen the receive window.  With a 4 KiB buffer the
    // kernel sometimes falls back to persist-timer pacing (a few KiB per 200 ms)
    // when the machine is loaded, which says nothing about the endpoint.
    if !stall.is_zero() { reopen_window(&socket2::SockRef::from(&s)); }
    ctl.phase.store(2, Ordering::SeqCst);
    ctl.touch();
    ctl.resumed.store(true, Ordering::SeqCst);
    let mut data: Vec<u8> = Vec::with_capacity(cap.min(80 << 20));
    let mut buf = vec![0u8; 256 * 1024];
    let (mut ppos, mut respond) = (0usize, respond);
    loop {
        if ctl.start.elapsed() > T_CASE { break; }
        ctl.phase.store(3, Ordering::SeqCst);
        let r = s.read(&mut buf);
        ctl.phase.store(4, Ordering::SeqCst);
        match r {
            Ok(0) => { ctl.eof.store(true, Ordering::SeqCst); break; }
            Ok(n) => {
                data.extend_from_slice(&buf[..n]);
                ctl.received.fetch_add(n as u64, Ordering::SeqCst);
                ctl.touch();
                while respond && data.len() - ppos >= 48 {
                    let h = &data[ppos..ppos + 48];
                    let total = 48u64.checked_add(le64(&h[24..32])).and_then(|x| x.checked_add(le64(&h[32..40])));
                    let total = match total { Some(t) if le16(&h[8..10]) == 0x1507 && t < (1 << 31) => t as usize, _ => { respond = false; break; } };
                    if data.len() - ppos < total { break; }
                    if h[11] == 0 {
                        let r = header(48, 0, le64(&h[16..24]), 0, 0, 0, 0, 0);
                        if s.write_all(&r).is_err() { respond = false; }
                    }
                    ppos += total;
                }
            }
            Err(e) if matches!(e.kind(), std::io::ErrorKind::WouldBlock | std::io::ErrorKind::TimedOut) => {
                ctl.empty_read(20);
                if ctl.closing.load(Ordering::SeqCst) && ctl.idle_for() > Duration::from_millis(1500) { break; }
            }
            Err(e) if e.kind() == std::io::ErrorKind::Interrupted => {}
            Err(_) => { ctl.eof.store(true, Ordering::SeqCst); break; } // reset: the endpoint closed with unread input
        }
    }
    data
}

fn accept_with_deadline(l: &TcpListener) -> std::io::Result<TcpStream> {
    l.set_nonblocking(true)?;
    let t0 = Instant::now();
    loop {
        match l.accept() {
            Ok((s, _)) => { s.set_nonblocking(false)?; s.set_nodelay(true)?; return Ok(s); }
            Err(e) if e.kind() == std::io::ErrorKind::WouldBlock => {
                if t0.elapsed() > Duration::from_secs(10) { return Err(std::io::Error::other("accept timeout")); }
                std::thread::sleep(Duration::from_millis(1));
            }
            Err(e) => return Err(e),
        }
    }
}

fn join_reader(h: std::thread::JoinHandle<Vec<u8>>, ctl: &Ctl) -> Result<Vec<u8>, String> {
    let t0 = Instant::now();
    while !h.is_finished() {
        if t0.elapsed() > T_JOIN {
            return Err(format!("reader-join-timeout[phase:{},received:{},eof:{},resumed:{},empty_ms:{},idle_ms:{},elapsed_ms:{}]", ctl.phase.load(Ordering::SeqCst), ctl.received.load(Ordering::SeqCst),
                ctl.eof.load(Ordering::SeqCst), ctl.resumed.load(Ordering::SeqCst), ctl.empty_ms.load(Ordering::SeqCst), ctl.idle_for().as_millis(), ctl.now_ms()));
        }
        std::thread::sleep(Duration::from_millis(2));
    }
    h.join().map_err(|_| "reader-panic".to_string())
}

fn expected_total(sp: &Spec, intents: &Intents, with_probes: bool) -> u64 {
    intents.values().filter(|it| with_probes || (it.tag as usize) < sp.nw).map(|it| it.total() as u64).sum()
}

fn status_of(r: &Result<(), RepeError>, is_call: bool) -> (&'static str, String) {
    match r {
        Ok(()) => ("ok", String::new()),
        Err(RepeError::Io(e)) => {
            let k = e.kind();
            let int = k == std::io::ErrorKind::WouldBlock || (k == std::io::ErrorKind::TimedOut && !is_call);
            (if int { "int" } else { "err" }, format!("{k:?}"))
        }
        Err(e) => ("err", clean(e.to_string()).chars().take(40).collect()),
    }
}

fn finish_stream(sp: &Spec, intents: &Intents, data: &[u8], res: Vec<(u32, u32, &'static str)>, eof: bool, diag: Vec<String>) -> Obs {
    let (mut toks, mut garbage, mut used) = (vec![], 0u64, HashSet::new());
    analyse(data, intents, &mut used, &mut toks, &mut garbage);
    // `res` is about the frame WRITE.  A call (kind 'c') can also fail after its request went out
    // whole (the connection was failed while it waited for the response): that is a successful
    // write; if it only ended by its own timeout it is reported separately as hung.
    let whole: HashSet<(u32, u32)> = toks.iter().filter(|t| t.whole).map(|t| (t.tag, t.seq)).collect();
    let is_call = |t: u32| (t as usize) < sp.kinds.len() && sp.kinds[t as usize] == 'c';
    let mut hung = vec![];
    let res: Vec<(u32, u32, &'static str)> = res.into_iter().map(|(t, i, st)| {
        if st == "hang" { if whole.contains(&(t, i)) { hung.push((t, i)); } }
        if is_call(t) && (st == "err" || st == "hang") && whole.contains(&(t, i)) { (t, i, "ok") } else if st == "hang" { (t, i, "err") } else { (t, i, st) }
    }).collect();
    Obs { toks, garbage, res, eof, raw: if data.len() <= RAW_MAX && !data.is_empty() { Some(data.to_vec()) } else { None }, diag, idle: None, hung }
}

// ------------------------------------------------------------------ blocking client

fn run_client(sp: &Spec) -> Result<Obs, String> {
    let intents = build_intents(sp);
    let l = raw_listener(sp.rcv).map_err(|e| format!("listen:{e}"))?;
    let addr = l.local_addr().map_err(|e| e.to_string())?;
    let ctl = Ctl::new(IDLE_CLIENT);
    let (c2, stall, cap) = (ctl.clone(), Duration::from_millis(sp.stall), expected_total(sp, &intents, true) as usize + 4096);
    let reader = std::thread::spawn(move || match accept_with_deadline(&l) { Ok(s) => reader_loop(s, c2, stall, true, cap), Err(_) => vec![] });
    let client = Client::connect(addr).map_err(|e| format!("connect:{e}"))?;
    if sp.wt > 0 { client.set_write_timeout(Some(Duration::from_millis(sp.wt))).map_err(|e| format!("set_write_timeout:{e}"))?; }
    let (tx, rx) = std::sync::mpsc::channel::<(u32, u32, &'static str, String)>();
    let barrier = Arc::new(std::sync::Barrier::new(sp.nw));
    let mut ncalls = 0;
    for t in 0..sp.nw {
        let (cl, tx, barrier, kind) = (client.clone(), tx.clone(), barrier.clone(), sp.kinds[t]);
        let frames: Vec<Arc<Vec<u8>>> = (0..sp.blens[t].len()).map(|i| intents[&(t as u32, i as u32)].body.clone()).collect();
        ncalls += frames.len();
        let delay = if sp.victim == Some(t) { sp.vdelay } else { 0 };
        std::thread::spawn(move || {
            barrier.wait();
            if delay > 0 { std::thread::sleep(Duration::from_millis(delay)); }
            for (i, body) in frames.iter().enumerate() {
                let path = w_path(t as u32, i as u32);
                let r = if kind == 'n' { cl.notify_with_formats(&path, QueryFormat::JsonPointer as u16, Some(body), BodyFormat::RawBinary as u16) }
                        else { cl.call_with_formats_and_timeout(&path, QueryFormat::JsonPointer as u16, Some(body), BodyFormat::RawBinary as u16, Duration::from_secs(20)).map(|_| ()) };
                let (st, d) = status_of(&r, kind == 'c');
                let _ = tx.send((t as u32, i as u32, st, d));
            }
        });
    }
    drop(tx);
    let (mut res, mut diag) = (vec![], vec![]);
    for _ in 0..ncalls {
        match rx.recv_timeout(T_JOIN) {
            Ok((t, i, st, d)) => { if !d.is_empty() { diag.push(format!("{t:x}.{i:x}:{d}")); } res.push((t, i, st)); }
            Err(_) => return Err("writers-watchdog".into()),
        }
    }
    // probes: issued after every other call has returned
    let pb = intents[&(sp.nw as u32, 0)].body.clone();
    let r = client.notify_with_formats(&w_path(sp.nw as u32, 0), QueryFormat::JsonPointer as u16, Some(&pb), BodyFormat::RawBinary as u16);
    let (st, d) = status_of(&r, false); if !d.is_empty() { diag.push(format!("p0:{d}")); } res.push((sp.nw as u32, 0, st));
    let pb = intents[&(sp.nw as u32 + 1, 0)].body.clone();
    let r = client.call_with_formats_and_timeout(&w_path(sp.nw as u32 + 1, 0), QueryFormat::JsonPointer as u16, Some(&pb), BodyFormat::RawBinary as u16, Duration::from_secs(10)).map(|_| ());
    let (st, d) = status_of(&r, true); if !d.is_empty() { diag.push(format!("p1:{d}")); } res.push((sp.nw as u32 + 1, 0, st));
    wait_drained(&ctl, expected_total(sp, &intents, true));
    let eof = ctl.eof.load(Ordering::SeqCst);
    drop(client);
    ctl.closing.store(true, Ordering::SeqCst);
    let data = join_reader(reader, &ctl)?;
    if !ctl.eof.load(Ordering::SeqCst) { diag.push("no-eof-after-drop".into()); }
    diag.push(format!("ms:{}", ctl.now_ms()));
    res.sort();
    Ok(finish_stream(sp, &intents, &data, res, eof, diag))
}

// ------------------------------------------------------------------ async client

async fn to<F: std::future::Future>(what: &str, f: F) -> Result<F::Output, String> {
    tokio::time::timeout(T_JOIN, f).await.map_err(|_| format!("timeout:{what}"))
}

fn run_aclient(sp: &Spec) -> Result<Obs, String> {
    let intents = Arc::new(build_intents(sp));
    let l = raw_listener(sp.rcv).map_err(|e| format!("listen:{e}"))?;
    let addr = l.local_addr().map_err(|e| e.to_string())?;
    let ctl = Ctl::new(IDLE_CLIENT);
    let (c2, stall, cap) = (ctl.clone(), Duration::from_millis(sp.stall), expected_total(sp, &intents, true) as usize + 4096);
    let reader = std::thread::spawn(move || match accept_with_deadline(&l) { Ok(s) => reader_loop(s, c2, stall, true, cap), Err(_) => vec![] });
    let (sp2, in2, ctl2) = (sp.clone(), intents.clone(), ctl.clone());
    let out: Result<(Vec<(u32, u32, &'static str)>, Vec<String>, bool), String> = net::runtime().block_on(async move {
        let sp = sp2; let intents = in2; let ctl = ctl2;
        let client = to("connect", AsyncClient::connect(addr)).await?.map_err(|e| format!("connect:{e}"))?;
        let mut handles = vec![];
        for t in 0..sp.nw {
            let (cl, kind) = (client.clone(), sp.kinds[t]);
            let frames: Vec<Arc<Vec<u8>>> = (0..sp.blens[t].len()).map(|i| intents[&(t as u32, i as u32)].body.clone()).collect();
            let is_victim = sp.victim == Some(t) && sp.sc.starts_with("cancel");
            // "cancelq": the other writers arrive while the victim is stuck inside its frame
            // write, so they are queued on the writer when the victim is abandoned
            let (abort_us, by_timeout, vdelay) = (sp.abort_us, sp.seed % 2 == 1, if sp.victim == Some(t) { sp.vdelay } else if sp.sc == "cancelq" { 40 + 7 * t as u64 } else { 0 });
            let h = tokio::spawn(async move {
                if vdelay > 0 { tokio::time::sleep(Duration::from_millis(vdelay)).await; }
                let mut out = vec![];
                for (i, body) in frames.iter().enumerate() {
                    let path = w_path(t as u32, i as u32);
                    let fut = async {
                        if kind == 'n' { cl.notify_with_formats(&path, QueryFormat::JsonPointer as u16, Some(body), BodyFormat::RawBinary as u16).await }
                        else { cl.call_with_formats_and_timeout(&path, QueryFormat::JsonPointer as u16, Some(body), BodyFormat::RawBinary as u16, Duration::from_secs(20)).await.map(|_| ()) }
                    };
                    if is_victim && by_timeout {
                        match tokio::time::timeout(Duration::from_micros(abort_us), fut).await {
                            Ok(r) => { let (st, d) = status_of(&r, kind == 'c'); out.push((t as u32, i as u32, st, d)); }
                            Err(_) => out.push((t as u32, i as u32, "abort", "elapsed".to_string())),
                        }
                    } else {
                        let t0 = Instant::now();
                        let r = fut.await;
                        let (st, d) = status_of(&r, kind == 'c');
                        // a call that only ends by its own 20 s timeout was left hanging on a connection
                        // that had been failed long before (every peer stall in these cases is under 2 s)
                        let st = if kind == 'c' && r.is_err() && t0.elapsed() > Duration::from_secs(10) { "hang" } else { st };
                        out.push((t as u32, i as u32, st, d));
                    }
                }
                out
            });
            handles.push((t, is_victim && !by_timeout, h));
        }
        let (mut res, mut diag) = (vec![], vec![]);
        // the victim whose task is aborted
        for (_, abort, h) in handles.iter() {
            if *abort { tokio::time::sleep(Duration::from_micros(sp.abort_us + sp.vdelay * 1000)).await; h.abort(); }
        }
        for (t, _, h) in handles {
            match to("writer", h).await? {
                Ok(v) => for (t, i, st, d) in v { if !d.is_empty() { diag.push(format!("{t:x}.{i:x}:{d}")); } res.push((t, i, st)); },
                Err(e) if e.is_cancelled() => { res.push((t as u32, 0, "abort")); diag.push(format!("{t:x}.0:aborted")); }
                Err(_) => return Err("writer-panic".to_string()),
            }
        }
        let pb = intents[&(sp.nw as u32, 0)].body.clone();
        let r = to("probe0", client.notify_with_formats(&w_path(sp.nw as u32, 0), QueryFormat::JsonPointer as u16, Some(&pb), BodyFormat::RawBinary as u16)).await?;
        let (st, d) = status_of(&r, false); if !d.is_empty() { diag.push(format!("p0:{d}")); } res.push((sp.nw as u32, 0, st));
        let pb = intents[&(sp.nw as u32 + 1, 0)].body.clone();
        let r = to("probe1", client.call_with_formats_and_timeout(&w_path(sp.nw as u32 + 1, 0), QueryFormat::JsonPointer as u16, Some(&pb), BodyFormat::RawBinary as u16, Duration::from_secs(10))).await?.map(|_| ());
        let (st, d) = status_of(&r, true); if !d.is_empty() { diag.push(format!("p1:{d}")); } res.push((sp.nw as u32 + 1, 0, st));
        wait_drained_async(&ctl, expected_total(&sp, &intents, true)).await;
        let eof = ctl.eof.load(Ordering::SeqCst);
        drop(client);
        Ok((res, diag, eof))
    });
    let (mut res, mut diag, eof) = out?;
    ctl.closing.store(true, Ordering::SeqCst);
    let data = join_reader(reader, &ctl)?;
    if !ctl.eof.load(Ordering::SeqCst) { diag.push("no-eof-after-drop".into()); }
    res.sort();
    Ok(finish_stream(sp, &intents, &data, res, eof, diag))
}

// ------------------------------------------------------------------ WebSocket pieces

fn big_cfg() -> WebSocketConfig {
    let mut c = WebSocketConfig::default();
    c.max_message_size = None;
    c.max_frame_size = None;
    c
}

/// analyse one binary message: it must be exactly one whole intended frame
fn analyse_ws(msgs: &[Vec<u8>], intents: &Intents) -> (Vec<Tok>, u64) {
    let (mut toks, mut garbage, mut used) = (vec![], 0u64, HashSet::new());
    for m in msgs {
        let (mut t, mut g) = (vec![], 0u64);
        analyse(m, intents, &mut used, &mut t, &mut g);
        if !(t.len() == 1 && t[0].whole && g == 0) { g += m.len() as u64; }
        toks.extend(t);
        garbage += g;
    }
    (toks, garbage)
}

fn finish_ws(intents: &Intents, msgs: &[Vec<u8>], res: Vec<(u32, u32, &'static str)>, eof: bool, diag: Vec<String>) -> Obs {
    let (toks, garbage) = analyse_ws(msgs, intents);
    let total: usize = msgs.iter().map(|m| m.len()).sum();
    let raw = if total <= RAW_MAX && total > 0 { Some(msgs.concat()) } else { None };
    Obs { toks, garbage, res, eof, raw, diag, idle: None, hung: vec![] }
}

/// raw WebSocket peer loop over any tungstenite stream: stall, then collect
/// binary messages until the endpoint closes; answers calls when `respond`
async fn ws_reader<S>(mut ws: S, ctl: Arc<Ctl>, stall: Duration, respond: bool, reopen: Option<Socket>) -> Vec<Vec<u8>>
where S: futures_util::Stream<Item = Result<WsMsg, tt::tungstenite::Error>> + futures_util::Sink<WsMsg> + Unpin {
    tokio::time::sleep(stall).await;
    // reopen the receive window after the stall (see reader_loop)
    if let (false, Some(sock)) = (stall.is_zero(), &reopen) { reopen_window(sock); }
    ctl.touch();
    ctl.resumed.store(true, Ordering::SeqCst);
    let mut msgs = vec![];
    loop {
        if ctl.start.elapsed() > T_CASE { break; }
        match tokio::time::timeout(Duration::from_millis(20), ws.next()).await {
            Err(_) => { ctl.empty_read(20); if ctl.closing.load(Ordering::SeqCst) && ctl.idle_for() > Duration::from_millis(1500) { break; } }
            Ok(None) | Ok(Some(Err(_))) | Ok(Some(Ok(WsMsg::Close(_)))) => { ctl.eof.store(true, Ordering::SeqCst); break; }
            Ok(Some(Ok(WsMsg::Binary(b)))) => {
                let b: Vec<u8> = b.into();
                ctl.received.fetch_add(b.len() as u64, Ordering::SeqCst);
                ctl.touch();
                if respond && b.len() >= 48 && b[11] == 0 {
                    let r = header(48, 0, le64(&b[16..24]), 0, 0, 0, 0, 0);
                    let _ = tokio::time::timeout(Duration::from_secs(2), ws.send(WsMsg::Binary(r.to_vec()))).await;
                }
                msgs.push(b);
            }
            Ok(Some(Ok(_))) => {}
        }
    }
    msgs
}

fn big_limits() -> WebSocketLimits {
    WebSocketLimits::default().with_max_incoming_frame_size(Some(256 << 20)).with_max_incoming_message_size(Some(256 << 20)).with_assumed_peer_frame_limit(Some(256 << 20))
}

fn run_wsclient(sp: &Spec) -> Result<Obs, String> {
    let intents = Arc::new(build_intents(sp));
    let l = raw_listener(sp.rcv).map_err(|e| format!("listen:{e}"))?;
    let addr = l.local_addr().map_err(|e| e.to_string())?;
    l.set_nonblocking(true).map_err(|e| e.to_string())?;
    let ctl = Ctl::new(IDLE_CLIENT);
    let (sp2, in2, ctl2) = (sp.clone(), intents.clone(), ctl.clone());
    let out: Result<(Vec<(u32, u32, &'static str)>, Vec<String>, bool, Vec<Vec<u8>>), String> = net::runtime().block_on(async move {
        let sp = sp2; let intents = in2; let ctl = ctl2;
        let l = tokio::net::TcpListener::from_std(l).map_err(|e| e.to_string())?;
        let (c3, stall) = (ctl.clone(), Duration::from_millis(sp.stall));
        let reader = tokio::spawn(async move {
            let (s, _) = match tokio::time::timeout(Duration::from_secs(10), l.accept()).await { Ok(Ok(x)) => x, _ => return vec![] };
            let _ = s.set_nodelay(true);
            let dup = socket2::SockRef::from(&s).try_clone().ok();
            match tt::accept_async_with_config(s, Some(big_cfg())).await { Ok(ws) => ws_reader(ws, c3, stall, true, dup).await, Err(_) => vec![] }
        });
        let client = to("connect", WebSocketClient::connect_with_limits(&format!("ws://{addr}/repe"), big_limits())).await?.map_err(|e| format!("connect:{e}"))?;
        let mut handles = vec![];
        for t in 0..sp.nw {
            let (cl, kind) = (client.clone(), sp.kinds[t]);
            let frames: Vec<Arc<Vec<u8>>> = (0..sp.blens[t].len()).map(|i| intents[&(t as u32, i as u32)].body.clone()).collect();
            let is_victim = sp.victim == Some(t) && sp.sc.starts_with("cancel");
            // "cancelq": the other writers arrive while the victim is stuck inside its frame
            // write, so they are queued on the writer when the victim is abandoned
            let (abort_us, by_timeout, vdelay) = (sp.abort_us, sp.seed % 2 == 1, if sp.victim == Some(t) { sp.vdelay } else if sp.sc == "cancelq" { 40 + 7 * t as u64 } else { 0 });
            let h = tokio::spawn(async move {
                if vdelay > 0 { tokio::time::sleep(Duration::from_millis(vdelay)).await; }
                let mut out = vec![];
                for (i, body) in frames.iter().enumerate() {
                    let path = w_path(t as u32, i as u32);
                    let fut = async {
                        if kind == 'n' { cl.notify_with_formats(&path, QueryFormat::JsonPointer as u16, Some(body), BodyFormat::RawBinary as u16).await }
                        else { cl.call_with_formats_and_timeout(&path, QueryFormat::JsonPointer as u16, Some(body), BodyFormat::RawBinary as u16, Duration::from_secs(20)).await.map(|_| ()) }
                    };
                    if is_victim && by_timeout {
                        match tokio::time::timeout(Duration::from_micros(abort_us), fut).await {
                            Ok(r) => { let (st, d) = status_of(&r, kind == 'c'); out.push((t as u32, i as u32, st, d)); }
                            Err(_) => out.push((t as u32, i as u32, "abort", "elapsed".to_string())),
                        }
                    } else {
                        let t0 = Instant::now();
                        let r = fut.await;
                        let (st, d) = status_of(&r, kind == 'c');
                        // a call that only ends by its own 20 s timeout was left hanging on a connection
                        // that had been failed long before (every peer stall in these cases is under 2 s)
                        let st = if kind == 'c' && r.is_err() && t0.elapsed() > Duration::from_secs(10) { "hang" } else { st };
                        out.push((t as u32, i as u32, st, d));
                    }
                }
                out
            });
            handles.push((t, is_victim && !by_timeout, h));
        }
        let (mut res, mut diag) = (vec![], vec![]);
        for (_, abort, h) in handles.iter() {
            if *abort { tokio::time::sleep(Duration::from_micros(sp.abort_us + sp.vdelay * 1000)).await; h.abort(); }
        }
        for (t, _, h) in handles {
            match to("writer", h).await? {
                Ok(v) => for (t, i, st, d) in v { if !d.is_empty() { diag.push(format!("{t:x}.{i:x}:{d}")); } res.push((t, i, st)); },
                Err(e) if e.is_cancelled() => { res.push((t as u32, 0, "abort")); diag.push(format!("{t:x}.0:aborted")); }
                Err(_) => return Err("writer-panic".to_string()),
            }
        }
        let pb = intents[&(sp.nw as u32, 0)].body.clone();
        let r = to("probe0", client.notify_with_formats(&w_path(sp.nw as u32, 0), QueryFormat::JsonPointer as u16, Some(&pb), BodyFormat::RawBinary as u16)).await?;
        let (st, d) = status_of(&r, false); if !d.is_empty() { diag.push(format!("p0:{d}")); } res.push((sp.nw as u32, 0, st));
        let pb = intents[&(sp.nw as u32 + 1, 0)].body.clone();
        let r = to("probe1", client.call_with_formats_and_timeout(&w_path(sp.nw as u32 + 1, 0), QueryFormat::JsonPointer as u16, Some(&pb), BodyFormat::RawBinary as u16, Duration::from_secs(20))).await?.map(|_| ());
        let (st, d) = status_of(&r, true); if !d.is_empty() { diag.push(format!("p1:{d}")); } res.push((sp.nw as u32 + 1, 0, st));
        wait_drained_async(&ctl, expected_total(&sp, &intents, true)).await;
        let eof = ctl.eof.load(Ordering::SeqCst);
        drop(client);
        ctl.closing.store(true, Ordering::SeqCst);
        let msgs = to("ws-reader", reader).await?.map_err(|_| "ws-reader-panic".to_string())?;
        Ok((res, diag, eof, msgs))
    });
    let (mut res, diag, eof, msgs) = out?;
    res.sort();
    Ok(finish_ws(&intents, &msgs, res, eof, diag))
}

// ------------------------------------------------------------------ servers

/// generates the response body from (tag, seq) in the id and the length in the request body
struct Gen { off_reader: bool }
impl HandlerErased for Gen {
    fn handle(&self, req: &Message) -> Result<Message, RepeError> {
        let id = req.header.id;
        let blen = if req.body.len() >= 8 { le64(&req.body[..8]) as usize } else { 0 };
        let body = body_for((id >> 32) as u32, id as u32, blen);
        Ok(Message::builder().id(id).query_format(QueryFormat::JsonPointer).body_bytes(body).body_format_code(BodyFormat::RawBinary as u16).build())
    }
    fn execution(&self) -> Execution { if self.off_reader { Execution::OffReader } else { Execution::Inline } }
}
fn router() -> Router {
    Router::new().with_erased_handler("/gen", Arc::new(Gen { off_reader: true })).with_erased_handler("/gin", Arc::new(Gen { off_reader: false }))
}

static SERVERS: OnceLock<Mutex<HashMap<(String, u64), SocketAddr>>> = OnceLock::new();
static LAST_PEER: OnceLock<Mutex<Option<PeerHandle>>> = OnceLock::new();
fn last_peer() -> &'static Mutex<Option<PeerHandle>> { LAST_PEER.get_or_init(|| Mutex::new(None)) }

fn server_addr(kind: &str, wt: u64) -> Result<SocketAddr, String> {
    let map = SERVERS.get_or_init(|| Mutex::new(HashMap::new()));
    let mut map = map.lock().unwrap();
    if let Some(a) = map.get(&(kind.to_string(), wt)) { return Ok(*a); }
    let wto = if wt > 0 { Some(Duration::from_millis(wt)) } else { None };
    let addr = match kind {
        "server" => {
            let srv = Server::new(router()).write_timeout(wto);
            let l = srv.listen("127.0.0.1:0").map_err(|e| e.to_string())?;
            let a = l.local_addr().map_err(|e| e.to_string())?;
            std::thread::spawn(move || { let _ = srv.serve(l); });
            a
        }
        "aserver" => net::runtime().block_on(async {
            let l = AsyncServer::listen("127.0.0.1:0").await.map_err(|e| e.to_string())?;
            let a = l.local_addr().map_err(|e| e.to_string())?;
            let srv = AsyncServer::new(router()).write_timeout(wto);
            tokio::spawn(async move { let _ = srv.serve(l).await; });
            Ok::<_, String>(a)
        })?,
        "wsserver" => net::runtime().block_on(async {
            let l = WebSocketServer::listen("127.0.0.1:0").await.map_err(|e| e.to_string())?;
            let a = l.local_addr().map_err(|e| e.to_string())?;
            let srv = WebSocketServer::new(router()).with_limits(big_limits()).with_offreader_limit(0)
                .on_peer_connect(|p| { *last_peer().lock().unwrap() = Some(p); });
            tokio::spawn(async move { let _ = srv.serve_listener(l, "/repe").await; });
            Ok::<_, String>(a)
        })?,
        _ => return Err("server kind".into()),
    };
    map.insert((kind.to_string(), wt), addr);
    Ok(addr)
}

fn request(kind: char, tag: u32, seq: u32, blen: usize) -> Vec<u8> {
    let q: &[u8] = if kind == 'i' { b"/gin" } else { b"/gen" };
    let mut f = header(48 + 4 + 8, 0, (tag as u64) << 32 | seq as u64, 4, 8, 1, 0, 0).to_vec();
    f.extend_from_slice(q);
    f.extend_from_slice(&(blen as u64).to_le_bytes());
    f
}

/// the order in which the peer issues the requests: a seeded interleaving of
/// the writers, each writer's frames in its own order; the victim after `vpos`
/// other requests
fn request_order(sp: &Spec) -> Vec<(usize, usize)> {
    let mut rng = Rng::new(sp.seed ^ 0x5eed);
    let mut next: Vec<usize> = vec![0; sp.nw];
    let mut out = vec![];
    loop {
        let live: Vec<usize> = (0..sp.nw).filter(|t| next[*t] < sp.blens[*t].len() && sp.kinds[*t] != 'p').collect();
        if live.is_empty() { break; }
        let t = *rng.pick(&live);
        out.push((t, next[t]));
        next[t] += 1;
    }
    if let Some(v) = sp.victim {
        if let Some(p) = out.iter().position(|(t, _)| *t == v) {
            let e = out.remove(p);
            let at = (sp.vdelay as usize).min(out.len());
            out.insert(at, e);
        }
    }
    out
}

/// results of response writers, read off what arrived: a response is `ok` iff
/// it arrived whole; the first that did not is the interrupted one when the
/// server then ended the stream by itself
fn response_results(order: &[(u32, u32)], toks: &[Tok], eof: bool) -> Vec<(u32, u32, &'static str)> {
    let whole: HashSet<(u32, u32)> = toks.iter().filter(|t| t.whole).map(|t| (t.tag, t.seq)).collect();
    let mut first = true;
    order.iter().map(|(t, i)| {
        if whole.contains(&(*t, *i)) { (*t, *i, "ok") }
        else if first && eof { first = false; (*t, *i, "int") }
        else { first = false; (*t, *i, "err") }
    }).collect()
}

fn run_tcp_server(sp: &Spec) -> Result<Obs, String> {
    let intents = build_intents(sp);
    let addr = server_addr(&sp.ep, sp.wt)?;
    let mut s = raw_connect(addr, sp.rcv).map_err(|e| format!("connect:{e}"))?;
    s.set_write_timeout(Some(Duration::from_secs(5))).map_err(|e| e.to_string())?;
    let ctl = Ctl::new(IDLE_SERVER);
    let (c2, stall, cap) = (ctl.clone(), Duration::from_millis(sp.stall), expected_total(sp, &intents, true) as usize + 4096);
    let rs = s.try_clone().map_err(|e| e.to_string())?;
    let reader = std::thread::spawn(move || reader_loop(rs, c2, stall, false, cap));
    let order = request_order(sp);
    let mut diag = vec![];
    for (t, i) in &order {
        if let Err(e) = s.write_all(&request(sp.kinds[*t], *t as u32, *i as u32, sp.blens[*t][*i])) { diag.push(format!("req{t:x}.{i:x}:{:?}", e.kind())); break; }
    }
    wait_drained(&ctl, expected_total(sp, &intents, false));
    // probes: two more requests once everything else has been answered (or the stream ended)
    let before = ctl.received.load(Ordering::SeqCst);
    let eof_before = ctl.eof.load(Ordering::SeqCst);
    for p in 0..2u32 {
        if let Err(e) = s.write_all(&request('r', sp.nw as u32 + p, 0, PROBE_BLEN)) { diag.push(format!("probe{p}:{:?}", e.kind())); }
    }
    ctl.touch();
    wait_drained(&ctl, before + 2 * (48 + 4 + PROBE_BLEN) as u64);
    let eof = ctl.eof.load(Ordering::SeqCst);
    let _ = s.shutdown(std::net::Shutdown::Write);
    ctl.closing.store(true, Ordering::SeqCst);
    let data = join_reader(reader, &ctl)?;
    if !ctl.eof.load(Ordering::SeqCst) { diag.push("no-eof-after-close".into()); }
    let mut ord: Vec<(u32, u32)> = order.iter().map(|(t, i)| (*t as u32, *i as u32)).collect();
    ord.push((sp.nw as u32, 0)); ord.push((sp.nw as u32 + 1, 0));
    let mut obs = finish_stream(sp, &intents, &data, vec![], eof, diag);
    // with nothing more to answer and the connection still open, the wire must not end inside a frame
    // (a response whose tail is only pushed out by a later request was not put on the connection whole)
    obs.idle = Some(if eof_before { "closed" } else {
        let (mut t, mut g, mut u) = (vec![], 0u64, HashSet::new());
        analyse(&data[..(before as usize).min(data.len())], &intents, &mut u, &mut t, &mut g);
        if t.last().map(|x| !x.whole).unwrap_or(false) { "torn" } else { "whole" }
    });
    obs.res = response_results(&ord, &obs.toks, eof);
    obs.res.sort();
    Ok(obs)
}

fn push_with_retry(p: &PeerHandle, path: &str, body: Vec<u8>) -> Result<(), String> {
    let t0 = Instant::now();
    loop {
        match p.send_notify(path, NotifyBody::Raw(body.clone(), BodyFormat::RawBinary)) {
            Ok(()) => return Ok(()),
            Err(PeerSendError::Full) if t0.elapsed() < T_JOIN => std::thread::sleep(Duration::from_millis(1)),
            Err(e) => return Err(clean(format!("{e:?}"))),
        }
    }
}

fn run_wsserver(sp: &Spec) -> Result<Obs, String> {
    let intents = Arc::new(build_intents(sp));
    let addr = server_addr("wsserver", 0)?;
    let ctl = Ctl::new(IDLE_SERVER);
    *last_peer().lock().unwrap() = None;
    let s = raw_connect(addr, sp.rcv).map_err(|e| format!("connect:{e}"))?;
    s.set_nonblocking(true).map_err(|e| e.to_string())?;
    let dup = socket2::SockRef::from(&s).try_clone().ok();
    let (sp2, in2, ctl2) = (sp.clone(), intents.clone(), ctl.clone());
    let out: Result<(Vec<(u32, u32, &'static str)>, Vec<String>, bool, Vec<Vec<u8>>, Vec<(u32, u32)>), String> = net::runtime().block_on(async move {
        let sp = sp2; let intents = in2; let ctl = ctl2;
        let s = tokio::net::TcpStream::from_std(s).map_err(|e| e.to_string())?;
        let (ws, _) = to("ws-handshake", tt::client_async_with_config(format!("ws://{addr}/repe"), s, Some(big_cfg()))).await?.map_err(|e| format!("handshake:{e}"))?;
        let (mut sink, stream) = ws.split();
        // the reading half stalls; requests go out through the other half
        struct Half<S>(S);
        impl<S: futures_util::Stream + Unpin> futures_util::Stream for Half<S> {
            type Item = S::Item;
            fn poll_next(mut self: std::pin::Pin<&mut Self>, cx: &mut std::task::Context<'_>) -> std::task::Poll<Option<S::Item>> { std::pin::Pin::new(&mut self.0).poll_next(cx) }
        }
        impl<S: Unpin> futures_util::Sink<WsMsg> for Half<S> {
            type Error = tt::tungstenite::Error;
            fn poll_ready(self: std::pin::Pin<&mut Self>, _: &mut std::task::Context<'_>) -> std::task::Poll<Result<(), Self::Error>> { std::task::Poll::Ready(Ok(())) }
            fn start_send(self: std::pin::Pin<&mut Self>, _: WsMsg) -> Result<(), Self::Error> { Ok(()) }
            fn poll_flush(self: std::pin::Pin<&mut Self>, _: &mut std::task::Context<'_>) -> std::task::Poll<Result<(), Self::Error>> { std::task::Poll::Ready(Ok(())) }
            fn poll_close(self: std::pin::Pin<&mut Self>, _: &mut std::task::Context<'_>) -> std::task::Poll<Result<(), Self::Error>> { std::task::Poll::Ready(Ok(())) }
        }
        let (c3, stall) = (ctl.clone(), Duration::from_millis(sp.stall));
        let reader = tokio::spawn(ws_reader(Half(stream), c3, stall, false, dup));
        // the peer handle of this connection (set by the connect hook before any traffic)
        let t0 = Instant::now();
        let peer = loop {
            if let Some(p) = last_peer().lock().unwrap().clone() { break p; }
            if t0.elapsed() > Duration::from_secs(10) { return Err("no-peer-handle".to_string()); }
            tokio::time::sleep(Duration::from_millis(1)).await;
        };
        let (mut res, mut diag) = (vec![], vec![]);
        // pushing writers: blocking threads, concurrent with the responses
        let mut pushers = vec![];
        for t in 0..sp.nw {
            if sp.kinds[t] != 'p' { continue; }
            let (p, intents, n) = (peer.clone(), intents.clone(), sp.blens[t].len());
            pushers.push(tokio::task::spawn_blocking(move || {
                (0..n).map(|i| {
                    let body = (*intents[&(t as u32, i as u32)].body).clone();
                    let r = push_with_retry(&p, &w_path(t as u32, i as u32), body);
                    (t as u32, i as u32, if r.is_ok() { "ok" } else { "err" }, r.err().unwrap_or_default())
                }).collect::<Vec<_>>()
            }));
        }
        let order = request_order(&sp);
        for (t, i) in &order {
            let rq = request(sp.kinds[*t], *t as u32, *i as u32, sp.blens[*t][*i]);
            if let Err(e) = to("send-request", sink.send(WsMsg::Binary(rq))).await? { diag.push(format!("req{t:x}.{i:x}:{}", clean(e.to_string()))); break; }
        }
        for h in pushers {
            for (t, i, st, d) in to("pusher", h).await?.map_err(|_| "pusher-panic".to_string())? { if !d.is_empty() { diag.push(format!("{t:x}.{i:x}:{d}")); } res.push((t, i, st)); }
        }
        wait_drained_async(&ctl, expected_total(&sp, &intents, false)).await;
        // probes: one more request and one more push
        let before = ctl.received.load(Ordering::SeqCst);
        if let Err(e) = to("send-probe", sink.send(WsMsg::Binary(request('r', sp.nw as u32, 0, PROBE_BLEN)))).await? { diag.push(format!("probe0:{}", clean(e.to_string()))); }
        let (p2, body) = (peer.clone(), (*intents[&(sp.nw as u32 + 1, 0)].body).clone());
        let path = w_path(sp.nw as u32 + 1, 0);
        let r = to("probe-push", tokio::task::spawn_blocking(move || push_with_retry(&p2, &path, body))).await?.map_err(|_| "probe-push-panic".to_string())?;
        res.push((sp.nw as u32 + 1, 0, if r.is_ok() { "ok" } else { "err" }));
        ctl.touch();
        let probes_total = intents[&(sp.nw as u32, 0)].total() + intents[&(sp.nw as u32 + 1, 0)].total();
        wait_drained_async(&ctl, before + probes_total as u64).await;
        let eof = ctl.eof.load(Ordering::SeqCst);
        drop(peer);
        let _ = tokio::time::timeout(Duration::from_secs(2), sink.close()).await;
        ctl.closing.store(true, Ordering::SeqCst);
        let msgs = to("ws-reader", reader).await?.map_err(|_| "ws-reader-panic".to_string())?;
        let mut ord: Vec<(u32, u32)> = order.iter().map(|(t, i)| (*t as u32, *i as u32)).collect();
        ord.push((sp.nw as u32, 0));
        Ok((res, diag, eof, msgs, ord))
    });
    let (mut res, diag, eof, msgs, ord) = out?;
    let mut obs = finish_ws(&intents, &msgs, vec![], eof, diag);
    res.extend(response_results(&ord, &obs.toks, eof));
    res.sort();
    obs.res = res;
    Ok(obs)
}

// ------------------------------------------------------------------ driver

fn run_case(line: &str) -> String {
    let line = line.to_string();
    let r = guard(move || {
        let sp = Spec::parse(&line);
        let r = match sp.ep.as_str() {
            "client" => run_client(&sp),
            "aclient" => run_aclient(&sp),
            "wsclient" => run_wsclient(&sp),
            "server" | "aserver" => run_tcp_server(&sp),
            "wsserver" => run_wsserver(&sp),
            _ => Err("endpoint".into()),
        };
        let _ = sp.is_client();
        match r { Ok(o) => o.render(), Err(e) => format!("crash=harness:{}", clean(e)) }
    });
    r.unwrap_or_else(|_| "crash=panic".into())
}

// ------------------------------------------------------------------ generation

const KIB: usize = 1024;
const MIB: usize = 1024 * 1024;

/// a frame size straddling the internal buffer sizes: `(n, false)` = total
/// frame length n, `(n, true)` = body length n (the BufWriter threshold applies
/// to the single body write)
fn pick_total(rng: &mut Rng, big_left: &mut u32, huge_left: &mut u32, thorough: bool, ws: bool) -> (usize, bool) {
    let around = |rng: &mut Rng, c: usize| -> usize { let d = match rng.below(4) { 0 => 0i64, 1 => -1, 2 => 1, _ => rng.below(200) as i64 - 100 }; (c as i64 + d).max(48) as usize };
    let of_body = rng.chance(1, 3);
    let v = match rng.below(100) {
        0..=39 => return (48 + rng.below(400) as usize, false),
        40..=54 => around(rng, 8 * KIB),
        55..=64 => around(rng, 16 * KIB),
        65..=72 => around(rng, 64 * KIB),
        73..=80 => around(rng, 212_992),
        _ if *big_left == 0 => return (48 + rng.below(3000) as usize, false),
        81..=89 => { *big_left -= 1; around(rng, MIB) }
        _ => {
            *big_left -= 1;
            let c = if thorough && *huge_left > 0 { *huge_left -= 1; *rng.pick(if ws { &[4 * MIB, 16 * MIB][..] } else { &[4 * MIB, 16 * MIB, 32 * MIB][..] }) } else { 4 * MIB };
            around(rng, c)
        }
    };
    (v, of_body)
}

fn case_line(i: usize, ep: &str, sc: &str, totals: &[Vec<usize>], kinds: &[char], wt: u64, rcv: usize, stall: u64, victim: Option<usize>, abort: u64, vdelay: u64, seed: u64) -> String {
    // body lengths from the total frame lengths
    let blens: Vec<Vec<usize>> = totals.iter().enumerate().map(|(t, fr)| fr.iter().enumerate().map(|(s, tot)| tot.saturating_sub(48 + qlen(kinds[t], t, s))).collect()).collect();
    let nw = totals.len();
    let pk = probe_kinds(ep);
    let mut flens: Vec<Vec<usize>> = blens.iter().enumerate().map(|(t, fr)| fr.iter().enumerate().map(|(s, b)| 48 + qlen(kinds[t], t, s) + b).collect()).collect();
    flens.push(vec![48 + qlen(pk[0], nw, 0) + PROBE_BLEN]);
    flens.push(vec![48 + qlen(pk[1], nw + 1, 0) + PROBE_BLEN]);
    let j = |v: &Vec<Vec<usize>>| v.iter().map(|w| w.iter().map(|x| hx(*x as u64)).collect::<Vec<_>>().join(".")).collect::<Vec<_>>().join(",");
    format!("i={i} ep={ep} sc={sc} nw={} blens={} kinds={} wt={} rcv={} stall={} victim={} abort={} vdelay={} seed={} flens={} pf={}",
        hx(nw as u64), j(&blens), kinds.iter().collect::<String>(), hx(wt), hx(rcv as u64), hx(stall),
        victim.map(|v| hx(v as u64)).unwrap_or_else(|| "-".into()), hx(abort), hx(vdelay), hx(seed), j(&flens), hx(nw as u64))
}

/// an off-reader response handler runs concurrently with the next one: two
/// responses of one connection are then two concurrent writers, so such a
/// writer has a single frame (per-writer order is only defined for a writer
/// that issues its frames one after the other)
fn nframes(ep: &str, kind: char, n: usize) -> usize { if ep == "wsserver" && kind == 'r' { 1 } else { n } }

fn kinds_for(rng: &mut Rng, ep: &str, nw: usize) -> Vec<char> {
    (0..nw).map(|_| match ep {
        "client" | "aclient" | "wsclient" => if rng.chance(3, 10) { 'c' } else { 'n' },
        "wsserver" => *rng.pick(&['r', 'i', 'p', 'p']),
        _ => 'r',
    }).collect()
}

fn gen_cases(seed: u64, thorough: bool) -> Vec<String> {
    let mut rng = Rng::new(seed);
    let mut out: Vec<String> = vec![];
    let eps = ["client", "aclient", "wsclient", "server", "aserver", "wsserver"];
    let reps = if thorough { 10 } else { 1 };
    for rep in 0..reps {
        // (1) concurrent writers, sizes straddling the buffer sizes
        for ep in eps {
            let ws = ep.starts_with("ws");
            for j in 0..5 {
                let nw = match j { 0 => 32, 1 => 16, 2 => *rng.pick(&[1usize, 2, 3]), _ => rng.range(2, 12) as usize };
                let kinds = kinds_for(&mut rng, ep, nw);
                let (mut big_left, mut huge_left) = (if thorough { 3 } else { 2 }, if rep % 2 == 1 { 1 } else { 0 });
                let totals: Vec<Vec<usize>> = (0..nw).map(|t| {
                    let n = nframes(ep, kinds[t], if nw >= 16 { rng.range(1, 2) } else { rng.range(1, 3) } as usize);
                    (0..n).map(|i| { let (v, of_body) = pick_total(&mut rng, &mut big_left, &mut huge_left, thorough, ws); if of_body { 48 + qlen(kinds[t], t, i) + v } else { v } }).collect()
                }).collect();
                let rcv = if rng.chance(1, 4) { 65536 } else { 0 }; // a slower reader; no stall
                out.push(case_line(0, ep, "conc", &totals, &kinds, 0, rcv, 0, None, 0, 0, rng.next() & 0xffff_ffff));
            }
        }
        // (1') tiny cases: the raw stream is short enough to be handed to the Coq reader as well
        for ep in eps {
            let nw = rng.range(1, 3) as usize;
            let kinds = kinds_for(&mut rng, ep, nw);
            let totals: Vec<Vec<usize>> = (0..nw).map(|t| (0..nframes(ep, kinds[t], rng.range(1, 2) as usize)).map(|i| 48 + qlen(kinds[t], t, i) + rng.below(60) as usize).collect()).collect();
            out.push(case_line(0, ep, "conc", &totals, &kinds, 0, 0, 0, None, 0, 0, rng.next() & 0xffff_ffff));
        }
        // (2) stalled peer with a configured write timeout: the victim's frame is cut
        for ep in ["client", "server", "aserver"] {
            for j in 0..4 {
                let nw = rng.range(3, 5) as usize;
                let mut kinds = kinds_for(&mut rng, ep, nw);
                for k in kinds.iter_mut() { if *k == 'c' { *k = 'n'; } }
                let vsize = if thorough { *rng.pick(&[8 * MIB, 12 * MIB, 24 * MIB, 32 * MIB]) } else { *rng.pick(&[8 * MIB, 10 * MIB]) } + rng.below(5000) as usize;
                let totals: Vec<Vec<usize>> = (0..nw).map(|t| if t == 0 { vec![vsize] } else { (0..rng.range(1, 3)).map(|_| 48 + 16 + rng.below(1500) as usize).collect() }).collect();
                // client: the victim starts a little after the others; servers: its position among the requests
                // servers: the interrupted response is sometimes the LAST of the pipeline (0xff: nothing
                // is pending behind it, so only the probes sent after the stall can land behind a torn frame)
                let vdelay = if ep == "client" { [0, 3, 10, 30][j] } else if j == 3 { 0xff } else { rng.below(5) };
                out.push(case_line(0, ep, "stall", &totals, &kinds, 200, 4096, 900, Some(0), 0, vdelay, rng.next() & 0xffff_ffff));
            }
        }
        // (2'') blocking client, stalled peer, write timeout, hundreds of frames that each fit the
        // 8 KiB write buffer: the timeout fires in a flush (or with a frame half queued), not inside
        // one large body
        for _ in 0..(if thorough { 2 } else { 1 }) {
            let kinds = vec!['n'];
            let totals: Vec<Vec<usize>> = vec![(0..520).map(|_| match rng.below(4) { 0 => 8192, 1 => 8191, _ => 7800 + rng.below(392) as usize }).collect()];
            out.push(case_line(0, "client", "stall", &totals, &kinds, 150, 4096, 1200, None, 0, 0, rng.next() & 0xffff_ffff));
        }
        // (1b) servers: the last response of the pipeline has a frame of 8192..8240 bytes (at least the
        // write buffer) with a body just below it
        for ep in ["server", "aserver"] {
            for last in [8192usize, 8193, 8200, 8239] {
                let kinds = vec!['r', 'r'];
                let totals: Vec<Vec<usize>> = vec![vec![48 + 16 + rng.below(900) as usize], vec![last]];
                // vdelay 0xff with victim 1: writer 1's response is the last of the pipeline
                out.push(case_line(0, ep, "conc", &totals, &kinds, 0, 0, 0, Some(1), 0, 0xff, rng.next() & 0xffff_ffff));
            }
        }
        // (2b) WebSocket server, stalled peer, a backlog of hundreds of queued pushes: when the
        // peer resumes, every binary message must still be exactly one frame
        {
            let kinds = vec!['p', 'p', 'p', 'p'];
            let totals: Vec<Vec<usize>> = (0..4).map(|_| (0..50).map(|_| 18_000 + rng.below(6000) as usize).collect()).collect();
            out.push(case_line(0, "wsserver", "stall", &totals, &kinds, 0, 4096, 500, None, 0, 0, rng.next() & 0xffff_ffff));
        }
        // (2') stalled peer, no write timeout: the write just waits
        for ep in eps {
            let nw = 3;
            let mut kinds = kinds_for(&mut rng, ep, nw);
            if ep == "wsserver" { kinds[0] = 'r'; }
            let vsize = 6 * MIB + rng.below(5000) as usize;
            let totals: Vec<Vec<usize>> = (0..nw).map(|t| if t == 0 { vec![vsize] } else { (0..nframes(ep, kinds[t], 2)).map(|_| 48 + 16 + rng.below(1500) as usize).collect() }).collect();
            out.push(case_line(0, ep, "stall", &totals, &kinds, 0, 4096, 400, Some(0), 0, rng.below(3), rng.next() & 0xffff_ffff));
        }
        // (3) a call abandoned while its request is being written to a stalled peer
        for ep in ["aclient", "wsclient"] {
            for j in 0..6 {
                let nw = rng.range(2, 4) as usize;
                let mut kinds = kinds_for(&mut rng, ep, nw);
                // writer 1 is sometimes a call: written (and unanswered: the peer is stalled) before the
                // victim starts, so it is in flight when the victim's frame write is abandoned
                for (t, k) in kinds.iter_mut().enumerate() { if t > 0 { *k = if t == 1 && j >= 3 { 'c' } else { 'n' }; } }
                let vsize = if thorough { *rng.pick(&[8 * MIB, 16 * MIB]) } else { 8 * MIB } + rng.below(5000) as usize;
                let totals: Vec<Vec<usize>> = (0..nw).map(|t| if t == 0 { vec![vsize] } else { (0..rng.range(1, 2)).map(|_| 48 + 16 + rng.below(1500) as usize).collect() }).collect();
                let abort = match j { 0 => 0, 1 => 300, 2 => 2_000, 3 => 20_000, 4 => 80_000, _ => rng.below(200_000) };
                out.push(case_line(0, ep, "cancel", &totals, &kinds, 0, 4096, 700, Some(0), abort, if j >= 3 { 5 + rng.below(4) } else { rng.below(4) }, rng.next() & 0xffff_ffff));
            }
            // (3') the same, with the other writers already queued behind the victim
            for j in 0..3 {
                let nw = rng.range(2, 4) as usize;
                let mut kinds = kinds_for(&mut rng, ep, nw);
                for (t, k) in kinds.iter_mut().enumerate() { if t > 0 && j == 0 { *k = 'n'; } }
                let vsize = 8 * MIB + rng.below(5000) as usize;
                let totals: Vec<Vec<usize>> = (0..nw).map(|t| if t == 0 { vec![vsize] } else { (0..rng.range(1, 2)).map(|_| 48 + 16 + rng.below(1500) as usize).collect() }).collect();
                let abort = 150_000 + rng.below(250_000);
                out.push(case_line(0, ep, "cancelq", &totals, &kinds, 0, 4096, 700, Some(0), abort, 0, rng.next() & 0xffff_ffff));
            }
        }
        // (2t) stalled peer with a write timeout, the stall a small multiple of the timeout (1.2x .. 2.5x;
        // (2) has 4.5x): the peer is reading again shortly after the timeout cut the victim's frame in
        // mid-body, so whatever the endpoint still writes on that connection within about one more
        // timeout period reaches the peer behind the torn frame.  Async server: 400 ms (a deadline for
        // the whole response); blocking endpoints: 200 ms (SO_SNDTIMEO runs between two moments of
        // progress, and zero-window probes keep a 400 ms one from ever firing).  A stall so short
        // that the write still completes in time is an ordinary case as well (all frames whole).
        // Own generator: the cases above stay what they were.
        let mut r2 = Rng::new(seed ^ 0x2757_a11e_d000_0000 ^ rep as u64);
        for ep in ["client", "server", "aserver"] {
            let tenths: &[u64] = if ep == "aserver" { &[12, 14, 16, 18, 25] } else { &[12, 16, 25] };
            for (j, x) in tenths.iter().enumerate() {
                let wt = if ep == "aserver" { 400u64 } else { 200 };
                let nw = r2.range(3, 5) as usize;
                let mut kinds = kinds_for(&mut r2, ep, nw);
                for k in kinds.iter_mut() { if *k == 'c' { *k = 'n'; } }
                let vsize = if thorough { *r2.pick(&[8 * MIB, 12 * MIB, 24 * MIB, 32 * MIB]) } else { *r2.pick(&[8 * MIB, 10 * MIB]) } + r2.below(5000) as usize;
                let totals: Vec<Vec<usize>> = (0..nw).map(|t| if t == 0 { vec![vsize] } else { (0..r2.range(1, 3)).map(|_| 48 + 16 + r2.below(1500) as usize).collect() }).collect();
                // as in (2): client: the victim starts a little after the others; servers: its position
                // among the requests, 0xff = last of the pipeline.  The middle stall lengths have it last:
                // a server that ends the connection with requests still unread resets it, and the reset
                // discards what the peer had not yet taken - the interrupted response and anything behind it
                let vdelay = if ep == "client" { [0, 3, 10][j] } else if j >= 1 && j + 1 < tenths.len() { 0xff } else { r2.below(3) };
                out.push(case_line(0, ep, "stall", &totals, &kinds, wt, 4096, wt * x / 10, Some(0), 0, vdelay, r2.next() & 0xffff_ffff));
            }
        }
    }
    out.into_iter().enumerate().map(|(i, c)| c.replacen("i=0 ", &format!("i={i:x} "), 1)).collect()
}

fn main() {
    let cases = if no_gen() { vec![] } else { gen_cases(seed(), is_thorough()) };
    isolated_main(cases, run_case, T_CASE + Duration::from_secs(10));
}
