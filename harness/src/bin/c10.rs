//! C10 correspondence: the SVS pull-to-file commit path under producer
//! failures, connection cuts, rejecting verifiers, over-long trailers and
//! process kills.  One pull per case; the observation is the call's result
//! class, the destination's content afterwards and whether `<name>.svspart`
//! exists.
//!
//! Fault injection, all outside the crate:
//! * producer failure: a `with_writer_stream` closure that writes the first k
//!   bytes and returns an `io::Error`;
//! * connection cut: a TCP proxy (REPE frames or WebSocket frames are only
//!   delimited and counted, never interpreted) that closes both sides after the
//!   open response and j `next` responses have been forwarded;
//! * kill: the pull runs in a freshly spawned process (`--child-pull`) whose
//!   `verif_hooks` callback aborts at the n-th hit of a probe point; the parent
//!   then inspects the directory.
use repe::value_stream::{AsyncSvsClient, Compression, RouterValueStreamExt, StreamOpts};
use repe::{
    AsyncClient, BodyFormat, Client, QueryFormat, RepeError, Router, Server, WebSocketClient, WebSocketServer, pull_to_beve_file,
    pull_to_beve_zst_file, pull_to_file, pull_to_file_async, pull_to_file_trailer_verified,
    pull_to_file_trailer_verified_async, pull_to_file_verified_async, pull_value, pull_value_async,
};
use repe_verif_harness::net::{read_raw_frame, runtime};
use repe_verif_harness::*;
use serde::{Deserialize, Serialize};
use std::collections::HashMap;
use std::io::{Read, Write};
use std::net::{Shutdown, SocketAddr, TcpListener, TcpStream};
use std::path::{Path, PathBuf};
use std::sync::atomic::{AtomicU64, Ordering};
use std::sync::{Arc, Mutex, OnceLock};
use std::time::{Duration, Instant};

fn h(v: u64) -> String { format!("{v:x}") }
fn p(s: &str) -> u64 { u64::from_str_radix(s, 16).unwrap() }

// ---- producer side ------------------------------------------------------------

/// resource key -> (logical stream, fail after k bytes; by a panic of the body writer instead of an error)
fn streams() -> &'static Mutex<HashMap<String, (Arc<Vec<u8>>, Option<(usize, bool)>)>> {
    static S: OnceLock<Mutex<HashMap<String, (Arc<Vec<u8>>, Option<(usize, bool)>)>>> = OnceLock::new();
    S.get_or_init(|| Mutex::new(HashMap::new()))
}
fn register(data: &[u8], fail: Option<(usize, bool)>) -> String {
    static N: AtomicU64 = AtomicU64::new(0);
    let key = format!("r{}", N.fetch_add(1, Ordering::Relaxed));
    streams().lock().unwrap().insert(key.clone(), (Arc::new(data.to_vec()), fail));
    key
}
fn unregister(key: &str) { streams().lock().unwrap().remove(key); }

/// a producer that stalls: 0 = running, 1 = parked after its first k bytes, 2 = let go
type Stall = Arc<(Mutex<u8>, std::sync::Condvar)>;
/// resource key -> (stall after k bytes, its gate): `fault=drop:k`
fn stalls() -> &'static Mutex<HashMap<String, (usize, Stall)>> {
    static S: OnceLock<Mutex<HashMap<String, (usize, Stall)>>> = OnceLock::new();
    S.get_or_init(|| Mutex::new(HashMap::new()))
}
fn stall_set(g: &Stall, v: u8) { let (m, cv) = &**g; *m.lock().unwrap_or_else(|e| e.into_inner()) = v; cv.notify_all(); }
/// wait until the gate's state is at least `want`; false when `limit` went by first
fn stall_wait(g: &Stall, want: u8, limit: Duration) -> bool {
    let (m, cv) = &**g;
    let mut s = m.lock().unwrap_or_else(|e| e.into_inner());
    let t0 = Instant::now();
    while *s < want { if t0.elapsed() >= limit { return false; } s = cv.wait_timeout(s, Duration::from_millis(50)).unwrap_or_else(|e| e.into_inner()).0; }
    true
}

fn router(chunk: usize, comp: bool) -> Router {
    Router::new().with_writer_stream(
        BodyFormat::Beve,
        move |res: &str| {
            let (data, fail) = streams().lock().unwrap().get(res).cloned()?;
            let stall = stalls().lock().unwrap().get(res).cloned();
            Some(move |w: &mut dyn Write| -> std::io::Result<()> {
                if let Some((k, gate)) = stall {
                    // the first k bytes, then nothing until the case is over; the stream never ends cleanly
                    w.write_all(&data[..k.min(data.len())])?; w.flush()?;
                    stall_set(&gate, 1);
                    stall_wait(&gate, 2, Duration::from_secs(30));
                    return Err(std::io::Error::other("verif: the stalled producer is let go"));
                }
                match fail {
                    Some((k, false)) => { w.write_all(&data[..k.min(data.len())])?; Err(std::io::Error::other("verif: producer fails here")) }
                    Some((k, true)) => { w.write_all(&data[..k.min(data.len())])?; panic!("verif: producer panics here") }
                    None => w.write_all(&data),
                }
            })
        },
        StreamOpts { chunk_bytes: chunk, compression: if comp { Compression::Zstd } else { Compression::None }, zstd_level: 3, session_depth: 4 },
    )
}

/// one blocking TCP server and one WebSocket server per (chunk size, compression)
fn servers(chunk: usize, comp: bool) -> std::io::Result<(SocketAddr, SocketAddr)> {
    static S: OnceLock<Mutex<HashMap<(usize, bool), (SocketAddr, SocketAddr)>>> = OnceLock::new();
    let mut m = S.get_or_init(|| Mutex::new(HashMap::new())).lock().unwrap();
    if let Some(a) = m.get(&(chunk, comp)) { return Ok(*a); }
    let r = router(chunk, comp);
    let srv = Server::new(r.clone());
    let l = srv.listen("127.0.0.1:0")?;
    let tcp = l.local_addr()?;
    std::thread::Builder::new().spawn(move || { let _ = srv.serve(l); })?;
    let ws = runtime().block_on(async {
        let wl = WebSocketServer::listen("127.0.0.1:0").await?;
        let ws = wl.local_addr()?;
        let wsrv = WebSocketServer::new(r);
        tokio::spawn(async move { let _ = wsrv.serve_listener(wl, "/repe").await; });
        Ok::<_, std::io::Error>(ws)
    })?;
    m.insert((chunk, comp), (tcp, ws));
    Ok((tcp, ws))
}

// ---- reference pull: the wire bytes of a compressed stream ----------------------

#[derive(Serialize)] struct OpenReq { resource: String }
#[derive(Deserialize)] struct OpenResp { #[allow(dead_code)] version: u8, stream_id: u64, #[allow(dead_code)] format: u16, #[allow(dead_code)] compression: u8 }
#[derive(Serialize)] struct NextReq { stream_id: u64 }

/// Pull the stream by hand (open, next until last) over a clean connection and
/// return the concatenated response bodies: what a consumer receives.
fn reference_wire(stream: &[u8], comp: bool) -> Vec<u8> {
    let (tcp, _) = servers(1 << 20, comp).expect("reference servers");
    let key = register(stream, None);
    let client = Client::connect(tcp).expect("connect");
    let body = beve::to_vec(&OpenReq { resource: key.clone() }).unwrap();
    let resp = client.call_with_formats("/_svs/open", QueryFormat::JsonPointer as u16, Some(&body), BodyFormat::Beve as u16).expect("open");
    let open: OpenResp = beve::from_slice(&resp.body).expect("open response");
    let body = beve::to_vec(&NextReq { stream_id: open.stream_id }).unwrap();
    let mut wire = Vec::new();
    for _ in 0..1_000_000 {
        let resp = client.call_with_formats("/_svs/next", QueryFormat::JsonPointer as u16, Some(&body), BodyFormat::Beve as u16).expect("next");
        wire.extend_from_slice(&resp.body);
        if resp.query.first() == Some(&1) { break; }
    }
    unregister(&key);
    wire
}

// ---- the cutting proxy ----------------------------------------------------------

fn read_exact_vec<R: Read>(r: &mut R, n: usize) -> std::io::Result<Vec<u8>> { let mut v = vec![0u8; n]; r.read_exact(&mut v)?; Ok(v) }

/// one WebSocket frame, raw; returns (bytes, completes a data message)
fn read_ws_frame<R: Read>(r: &mut R) -> std::io::Result<(Vec<u8>, bool)> {
    let mut f = read_exact_vec(r, 2)?;
    let fin = f[0] & 0x80 != 0; let opcode = f[0] & 0x0f;
    let masked = f[1] & 0x80 != 0;
    let mut len = (f[1] & 0x7f) as u64;
    if len == 126 { let e = read_exact_vec(r, 2)?; len = u16::from_be_bytes([e[0], e[1]]) as u64; f.extend_from_slice(&e); }
    else if len == 127 { let e = read_exact_vec(r, 8)?; let mut x = [0u8; 8]; x.copy_from_slice(&e); len = u64::from_be_bytes(x); f.extend_from_slice(&e); }
    if masked { let m = read_exact_vec(r, 4)?; f.extend_from_slice(&m); }
    if len > (1 << 30) { return Err(std::io::Error::other("ws frame too large")); }
    let pl = read_exact_vec(r, len as usize)?; f.extend_from_slice(&pl);
    Ok((f, fin && (opcode == 2 || opcode == 0)))
}

/// Accept one connection, relay it to `upstream`, and after `quota` server-to-
/// client messages have been forwarded close the upstream connection and the
/// client-facing write side; what the client still sends is read and dropped.
/// set by the truncating proxy when it actually shortened a chunk
static DID_TRUNC: std::sync::atomic::AtomicBool = std::sync::atomic::AtomicBool::new(false);

/// a REPE frame with the second half of its body removed (lengths patched)
fn truncate_body(frame: &[u8]) -> Vec<u8> {
    let ql = u64::from_le_bytes(frame[24..32].try_into().unwrap()) as usize;
    let bl = u64::from_le_bytes(frame[32..40].try_into().unwrap()) as usize;
    let keep = bl / 2;
    let mut out = frame[..48 + ql + keep].to_vec();
    out[0..8].copy_from_slice(&((48 + ql + keep) as u64).to_le_bytes());
    out[32..40].copy_from_slice(&(keep as u64).to_le_bytes());
    out
}

/// `trunc` (plain TCP only): nothing is cut; the last chunk response that carries bytes loses the
/// second half of its body, the end-of-stream flag arrives as usual (a compressed stream that
/// is cleanly terminated at the protocol level but whose compressed frame is incomplete)
fn spawn_proxy(upstream: SocketAddr, ws: bool, quota: usize) -> std::io::Result<SocketAddr> { spawn_proxy2(upstream, ws, quota, false) }
fn spawn_proxy2(upstream: SocketAddr, ws: bool, quota: usize, trunc: bool) -> std::io::Result<SocketAddr> {
    let l = TcpListener::bind("127.0.0.1:0")?;
    let addr = l.local_addr()?;
    std::thread::Builder::new().spawn(move || {
        let Ok((cl, _)) = l.accept() else { return };
        drop(l);
        let Ok(up) = TcpStream::connect(upstream) else { return };
        cl.set_nodelay(true).ok(); up.set_nodelay(true).ok();
        let (Ok(mut cl_r), Ok(mut up_w)) = (cl.try_clone(), up.try_clone()) else { return };
        cl_r.set_read_timeout(Some(Duration::from_secs(20))).ok();
        // client -> server: plain byte relay; keeps draining after the cut
        let relay = std::thread::Builder::new().spawn(move || {
            let mut buf = [0u8; 16384];
            loop {
                match cl_r.read(&mut buf) { Ok(0) | Err(_) => break, Ok(n) => { let _ = up_w.write_all(&buf[..n]); } }
            }
            let _ = up_w.shutdown(Shutdown::Both);
            let _ = cl_r.shutdown(Shutdown::Both);
        });
        if relay.is_err() { return; }
        // server -> client: delimit, forward, count
        let (mut up_r, mut cl_w) = (up, cl);
        up_r.set_read_timeout(Some(Duration::from_secs(20))).ok();
        let mut count = 0usize;
        let cut = |up_r: &TcpStream, cl_w: &TcpStream| { let _ = up_r.shutdown(Shutdown::Both); let _ = cl_w.shutdown(Shutdown::Write); };
        if quota == 0 { cut(&up_r, &cl_w); return; }
        if ws {
            // HTTP upgrade response up to the blank line
            let mut hdr = Vec::new(); let mut b = [0u8; 1];
            while !hdr.ends_with(b"\r\n\r\n") { if up_r.read_exact(&mut b).is_err() { cut(&up_r, &cl_w); return; } hdr.push(b[0]); if hdr.len() > 65536 { cut(&up_r, &cl_w); return; } }
            if cl_w.write_all(&hdr).is_err() { cut(&up_r, &cl_w); return; }
        }
        if trunc && !ws {
            // a chunk response is a successful frame whose query is the single flag byte; only the
            // final one (flag = 1) is touched, and only if it carries at least two bytes
            loop {
                let frame = match read_raw_frame(&mut up_r) { Ok(f) => f, Err(_) => break };
                let ql = u64::from_le_bytes(frame[24..32].try_into().unwrap()) as usize;
                let bl = u64::from_le_bytes(frame[32..40].try_into().unwrap()) as usize;
                let is_chunk = ql == 1 && frame.len() == 48 + 1 + bl && u32::from_le_bytes(frame[44..48].try_into().unwrap()) == 0;
                let out = if is_chunk && frame[48] == 1 && bl >= 2 { DID_TRUNC.store(true, Ordering::SeqCst); truncate_body(&frame) } else { frame };
                if cl_w.write_all(&out).is_err() { break; }
            }
            cut(&up_r, &cl_w);
            return;
        }
        loop {
            let (frame, counts) = if ws {
                match read_ws_frame(&mut up_r) { Ok(x) => x, Err(_) => break }
            } else {
                match read_raw_frame(&mut up_r) { Ok(f) => (f, true), Err(_) => break }
            };
            if cl_w.write_all(&frame).is_err() { break; }
            if counts { count += 1; if count >= quota { break; } }
        }
        cut(&up_r, &cl_w);
    })?;
    Ok(addr)
}

// ---- one pull -----------------------------------------------------------------

#[derive(Serialize, Deserialize, PartialEq, Debug, Clone)]
struct Val { id: u64, data: Vec<u8>, label: String }
fn encode_val(v: &Val) -> Vec<u8> { let mut out = Vec::new(); beve::to_writer_streaming(&mut out, v).expect("encode"); out }

#[derive(Clone)]
struct Case {
    pu: String, tr: String, comp: bool, chunk: usize, trailer: usize,
    stream: Vec<u8>, dst: Option<Vec<u8>>, tmp: Option<Vec<u8>>, fault: String,
    /// a `prod:` failure is a panic of the application's body writer (same expectation: the pull fails)
    pp: bool,
    /// `fault=drop:k`: how the pull future is dropped (sel: the other branch of a select! completes; abort: the task is aborted)
    how: String,
}
fn content(s: &str) -> Option<Vec<u8>> { if s == "absent" { None } else { Some(unhex(s)) } }
fn show(c: &Option<Vec<u8>>) -> String { match c { None => "absent".into(), Some(b) => hex(b) } }
fn parse_case(line: &str) -> Case {
    let f = fields(line);
    Case { pu: f["pu"].clone(), tr: f["tr"].clone(), comp: f["comp"] == "1", chunk: p(&f["chunk"]) as usize, trailer: p(&f["trailer"]) as usize,
           stream: unhex(&f["stream"]), dst: content(&f["dst"]), tmp: content(&f["tmp"]), fault: f["fault"].clone(), pp: f.get("pp").map(|s| s == "1").unwrap_or(false), how: f.get("how").cloned().unwrap_or_default() }
}
fn is_value(pu: &str) -> bool { pu == "value" || pu == "avalue" }

enum Res { Ok(Option<Vec<u8>>), Err, Crash(String) }

fn reject_err() -> RepeError { RepeError::Io(std::io::Error::other("verif: verifier rejects")) }

async fn pull_async<C: AsyncSvsClient>(client: &C, c: &Case, key: &str, dst: &Path, reject: bool) -> Result<Option<Vec<u8>>, RepeError> {
    match c.pu.as_str() {
        "afile" => pull_to_file_async(client, key, dst).await.map(|_| None),
        "averified" => {
            let want = c.stream.clone();
            pull_to_file_verified_async(client, key, dst, Vec::<u8>::new(), move |seen: Vec<u8>| {
                if reject { Err(reject_err()) } else if seen == want { Ok(()) } else { Err(RepeError::Io(std::io::Error::other("verif: digest saw other bytes"))) }
            }).await.map(|_| None)
        }
        "atrailer" => {
            let n = c.trailer; let want = c.stream.clone();
            pull_to_file_trailer_verified_async(client, key, dst, n, Vec::<u8>::new(), move |seen: Vec<u8>, trailer: &[u8]| {
                if reject { return Err(reject_err()); }
                let split = want.len().saturating_sub(n);
                if seen == want[..split] && trailer == &want[split..] { Ok(()) } else { Err(RepeError::Io(std::io::Error::other("verif: digest or trailer saw other bytes"))) }
            }).await.map(|_| None)
        }
        "avalue" => pull_value_async::<Val, C>(client, key).await.map(|v| Some(encode_val(&v))),
        other => panic!("bad async puller {other}"),
    }
}

/// Run the pull of `c` against freshly looked-up servers; files go to `dir`.
fn exec_case(c: &Case, dir: &Path) -> Res {
    let dst = dir.join("out.bin");
    let fail = c.fault.strip_prefix("prod:").map(|k| (p(k) as usize, c.pp));
    let cutq = c.fault.strip_prefix("cut:").map(|j| p(j) as usize + 1); // + the open response
    let reject = c.fault == "reject";
    if let Some(k) = c.fault.strip_prefix("drop:") { return exec_drop(c, dir, p(k) as usize); }
    let (tcp, ws) = match servers(c.chunk, c.comp) { Ok(x) => x, Err(e) => return Res::Crash(format!("setup:servers:{}", e.kind())) };
    let is_ws = c.tr == "ws";
    let trunc = c.fault == "trunc";
    if trunc && (is_ws || !c.comp) { return Res::Crash("badcase:trunc".into()); }
    DID_TRUNC.store(false, Ordering::SeqCst);
    let addr = match cutq {
        Some(q) => match spawn_proxy(if is_ws { ws } else { tcp }, is_ws, q) { Ok(a) => a, Err(e) => return Res::Crash(format!("setup:proxy:{}", e.kind())) },
        None if trunc => match spawn_proxy2(tcp, false, usize::MAX, true) { Ok(a) => a, Err(e) => return Res::Crash(format!("setup:proxy:{}", e.kind())) },
        None => if is_ws { ws } else { tcp },
    };
    let key = register(&c.stream, fail);
    let r: Result<Option<Vec<u8>>, RepeError> = match c.pu.as_str() {
        "file" | "bevefile" | "zstfile" | "trailer" | "value" => {
            let client = match Client::connect(addr) { Ok(x) => x, Err(e) => { unregister(&key); return Res::Crash(format!("setup:connect:{}", e.kind())) } };
            match c.pu.as_str() {
                "file" => pull_to_file(&client, &key, &dst).map(|_| None),
                "bevefile" => pull_to_beve_file(&client, &key, &dst).map(|_| None),
                "zstfile" => pull_to_beve_zst_file(&client, &key, &dst).map(|_| None),
                "trailer" => {
                    let n = c.trailer; let want = &c.stream;
                    pull_to_file_trailer_verified(&client, &key, &dst, n, Vec::<u8>::new(), |seen: Vec<u8>, trailer: &[u8]| {
                        if reject { return Err(reject_err()); }
                        let split = want.len().saturating_sub(n);
                        if seen == want[..split] && trailer == &want[split..] { Ok(()) } else { Err(RepeError::Io(std::io::Error::other("verif: digest or trailer saw other bytes"))) }
                    }).map(|_| None)
                }
                _ => pull_value::<Val>(&client, &key).map(|v| Some(encode_val(&v))),
            }
        }
        _ => {
            let out = runtime().block_on(async {
                tokio::time::timeout(Duration::from_secs(15), async {
                    if is_ws {
                        let client = match WebSocketClient::connect(&format!("ws://{addr}/repe")).await { Ok(x) => x, Err(e) => return Err(format!("setup:connect:{}", e.kind())) };
                        Ok(pull_async(&client, c, &key, &dst, reject).await)
                    } else {
                        let client = match AsyncClient::connect(addr).await { Ok(x) => x, Err(e) => return Err(format!("setup:connect:{}", e.kind())) };
                        Ok(pull_async(&client, c, &key, &dst, reject).await)
                    }
                }).await
            });
            match out { Ok(Ok(r)) => r, Ok(Err(s)) => { unregister(&key); return Res::Crash(s) } Err(_) => { unregister(&key); return Res::Crash("timeout".into()) } }
        }
    };
    unregister(&key);
    match r { Ok(v) => Res::Ok(v), Err(_) => Res::Err }
}

/// `fault=drop:k`: an async pull-to-file whose FUTURE IS DROPPED in mid-transfer.  The producer writes
/// its first k bytes and stalls; once it is parked and the chunks that can be delivered before the
/// stall have reached the temp file, the pull future is dropped (how=sel: the other branch of a
/// `tokio::select!` completes, the client lives on; how=abort: the task that owns client and pull is
/// aborted).  The caller was never told the pull succeeded: the observation is res=err unless the
/// pull finished by itself first.  Whatever the puller left running (its blocking decoder thread) gets
/// time to wind down before the caller looks at the directory: 300 ms, then until the temp sibling
/// is gone (at most 10 s), then 200 ms more.
fn exec_drop(c: &Case, dir: &Path, k: usize) -> Res {
    let dst = dir.join("out.bin"); let tmp = dir.join("out.bin.svspart");
    if !matches!(c.pu.as_str(), "afile" | "averified" | "atrailer") || !matches!(c.how.as_str(), "sel" | "abort") || k > c.stream.len() || c.tmp.is_some() { return Res::Crash("badcase:drop".into()); }
    let (tcp, ws) = match servers(c.chunk, c.comp) { Ok(x) => x, Err(e) => return Res::Crash(format!("setup:servers:{}", e.kind())) };
    let is_ws = c.tr == "ws";
    let addr = if is_ws { ws } else { tcp };
    let key = register(&c.stream, None);
    let gate: Stall = Arc::new((Mutex::new(0), std::sync::Condvar::new()));
    stalls().lock().unwrap().insert(key.clone(), (k, gate.clone()));
    let cleanup = |key: &str, gate: &Stall| { stall_set(gate, 2); stalls().lock().unwrap().remove(key); unregister(key); };
    // Some(result): the pull finished by itself; None: its future was dropped
    type Out = Result<Option<Result<Option<Vec<u8>>, RepeError>>, String>;
    let (go_tx, go_rx) = tokio::sync::oneshot::channel::<()>();
    let (end_tx, end_rx) = tokio::sync::oneshot::channel::<()>();
    let (out_tx, out_rx) = std::sync::mpsc::channel::<Out>();
    let (c2, key2, dst2, abort) = (c.clone(), key.clone(), dst.clone(), c.how == "abort");
    runtime().spawn(async move {
        // (a macro, not a generic function: the pull futures are `Send` only for the concrete clients)
        macro_rules! driven { ($client:expr) => {{
            let client = $client;
            let (c, key, dst, go, end) = (c2, key2, dst2, go_rx, end_rx);
            if abort {
                let mut task = tokio::spawn(async move { pull_async(&client, &c, &key, &dst, false).await });
                tokio::select! {
                    r = &mut task => r.ok(),
                    _ = go => { task.abort(); let _ = task.await; None }
                }
            } else {
                let r = tokio::select! {
                    r = pull_async(&client, &c, &key, &dst, false) => Some(r),
                    _ = go => None,
                };
                // the client (and its connection) outlives the dropped pull until the case is over
                let _ = tokio::time::timeout(Duration::from_secs(30), end).await;
                drop(client);
                r
            }
        }} }
        let out: Out = if is_ws {
            match tokio::time::timeout(Duration::from_secs(10), WebSocketClient::connect(&format!("ws://{addr}/repe"))).await {
                Ok(Ok(cl)) => Ok(driven!(cl)),
                Ok(Err(e)) => Err(format!("setup:connect:{}", e.kind())), Err(_) => Err("setup:connect:timeout".into()) }
        } else {
            match tokio::time::timeout(Duration::from_secs(10), AsyncClient::connect(addr)).await {
                Ok(Ok(cl)) => Ok(driven!(cl)),
                Ok(Err(e)) => Err(format!("setup:connect:{}", e.kind())), Err(_) => Err("setup:connect:timeout".into()) }
        };
        let _ = out_tx.send(out);
    });
    // the producer is parked (the stream is open, its first k bytes are on their way) ...
    let t0 = Instant::now();
    let mut early: Option<Out> = None;
    while !stall_wait(&gate, 1, Duration::from_millis(50)) {
        if let Ok(o) = out_rx.try_recv() { early = Some(o); break; }
        if t0.elapsed() > Duration::from_secs(15) { cleanup(&key, &gate); return Res::Crash("drop:producer-never-parked".into()); }
    }
    if early.is_none() {
        // ... and what can be delivered before the stall has been written: all full chunks but the
        // one the server holds back as its lookahead (compressed: the temp file exists); at most 5 s
        // (a trailer-verifying puller keeps the last `trailer` bytes it has seen to itself)
        let want = if c.comp { 0 } else { ((k / c.chunk).saturating_sub(1) * c.chunk).saturating_sub(c.trailer) as u64 };
        let t1 = Instant::now();
        while t1.elapsed() < Duration::from_secs(5) {
            if std::fs::metadata(&tmp).map(|m| m.len() >= want).unwrap_or(false) { break; }
            std::thread::sleep(Duration::from_millis(10));
        }
        std::thread::sleep(Duration::from_millis(100));
        let _ = go_tx.send(());
    }
    std::thread::sleep(Duration::from_millis(300));
    let t2 = Instant::now();
    while tmp.exists() && t2.elapsed() < Duration::from_secs(10) { std::thread::sleep(Duration::from_millis(20)); }
    std::thread::sleep(Duration::from_millis(200));
    // the case is over: the client may go (how=sel), the task reports, the producer is let go; the
    // caller (run_case_once) then looks at the directory
    let _ = end_tx.send(());
    let out = match early { Some(o) => Ok(o), None => out_rx.recv_timeout(Duration::from_secs(15)) };
    cleanup(&key, &gate);
    match out {
        Err(_) => Res::Crash("drop:no-report".into()),
        Ok(Err(s)) => Res::Crash(s),
        Ok(Ok(None)) => Res::Err,
        Ok(Ok(Some(Ok(v)))) => Res::Ok(v),
        Ok(Ok(Some(Err(_)))) => Res::Err,
    }
}

// ---- panics: keep the message ------------------------------------------------------

fn last_panic() -> &'static Mutex<String> { static P: OnceLock<Mutex<String>> = OnceLock::new(); P.get_or_init(|| Mutex::new(String::new())) }
fn install_panic_hook() {
    static ONCE: std::sync::Once = std::sync::Once::new();
    ONCE.call_once(|| std::panic::set_hook(Box::new(|info| {
        let msg = info.payload().downcast_ref::<&str>().map(|s| s.to_string()).or_else(|| info.payload().downcast_ref::<String>().cloned()).unwrap_or_default();
        let loc = info.location().map(|l| format!("{}:{}", l.file(), l.line())).unwrap_or_default();
        let clean: String = format!("{loc}:{msg}").chars().map(|c| if c.is_ascii_alphanumeric() || "/.:-_".contains(c) { c } else { '_' }).take(160).collect();
        *last_panic().lock().unwrap() = clean;
    })));
}
fn panic_token() -> String { format!("panic:{}", last_panic().lock().unwrap()) }

// ---- kills: the pull in a child process -------------------------------------------

fn child_pull_main(line: &str, dir: &str) -> ! {
    unsafe { let lim = libc::rlimit { rlim_cur: 0, rlim_max: 0 }; libc::setrlimit(libc::RLIMIT_CORE, &lim); }
    install_panic_hook();
    let c = parse_case(line);
    let mut it = c.fault.split(':'); it.next();
    let point = format!("svs.{}", it.next().unwrap());
    let nth = p(it.next().unwrap());
    let hits = AtomicU64::new(0);
    repe::verif_hooks::install(move |name| {
        if name == point && hits.fetch_add(1, Ordering::SeqCst) + 1 == nth { std::process::abort(); }
    });
    let r = guard(std::panic::AssertUnwindSafe(|| exec_case(&c, Path::new(dir))));
    let out = match r { Ok(Res::Ok(_)) => "res=ok".to_string(), Ok(Res::Err) => "res=err".into(), Ok(Res::Crash(s)) => format!("crash={s}"), Err(()) => format!("crash={}", panic_token()) };
    println!("{out}");
    std::io::stdout().flush().ok();
    std::process::exit(0);
}

/// "ok" | "err" | "killed" | Err(crash)
fn run_in_child(line: &str, dir: &Path) -> Result<String, String> {
    use std::process::{Command, Stdio};
    let exe = std::env::current_exe().map_err(|e| e.to_string())?;
    let mut child = Command::new(exe).arg("--child-pull").arg(line).arg(dir)
        .env_remove("VERIF_CHILD").env_remove("VERIF_SHARD")
        .stdin(Stdio::null()).stdout(Stdio::piped()).stderr(Stdio::null()).spawn().map_err(|e| format!("spawn:{e}"))?;
    let start = Instant::now();
    let status = loop {
        match child.try_wait() { Ok(Some(s)) => break s, Ok(None) => {}, Err(e) => return Err(format!("wait:{e}")) }
        if start.elapsed() > Duration::from_secs(25) { let _ = child.kill(); let _ = child.wait(); return Err("child-hang".into()); }
        std::thread::sleep(Duration::from_millis(2));
    };
    use std::os::unix::process::ExitStatusExt;
    if let Some(sig) = status.signal() { return if sig == libc::SIGABRT { Ok("killed".into()) } else { Err(format!("child-sig{sig}")) }; }
    let mut out = String::new();
    child.stdout.take().unwrap().read_to_string(&mut out).ok();
    match out.trim() {
        "res=ok" => Ok("ok".into()), "res=err" => Ok("err".into()),
        o if o.starts_with("crash=setup:") => Err(o["crash=".len()..].to_string()),
        o => Err(format!("child:{}:{}", status.code().unwrap_or(-1), o.replace(' ', "_"))),
    }
}

// ---- a case -------------------------------------------------------------------

fn fresh_dir() -> PathBuf {
    static N: AtomicU64 = AtomicU64::new(0);
    let d = PathBuf::from(format!("/var/tmp/c10-{}-{}", std::process::id(), N.fetch_add(1, Ordering::Relaxed)));
    let _ = std::fs::remove_dir_all(&d);
    std::fs::create_dir_all(&d).expect("mkdir");
    d
}

fn run_case(line: &str) -> String {
    install_panic_hook();
    // a failure to set the scene up (no port, no thread, connect refused) is the
    // sandbox's, not the crate's: try again a few times before reporting it
    for attempt in 0..6 {
        let obs = run_case_once(line);
        if !obs.starts_with("crash=setup:") || attempt == 5 { return obs; }
        std::thread::sleep(Duration::from_millis(300));
    }
    unreachable!()
}

fn run_case_once(line: &str) -> String {
    let c = parse_case(line);
    let dir = fresh_dir();
    let dst = dir.join("out.bin"); let tmp = dir.join("out.bin.svspart");
    if let Some(b) = &c.dst { std::fs::write(&dst, b).expect("write dst"); }
    if let Some(b) = &c.tmp { std::fs::write(&tmp, b).expect("write tmp"); }
    let (res, val) = if c.fault.starts_with("kill:") {
        match run_in_child(line, &dir) { Ok(r) => (r, None), Err(e) => { let _ = std::fs::remove_dir_all(&dir); return format!("crash={e}"); } }
    } else {
        match guard(std::panic::AssertUnwindSafe(|| exec_case(&c, &dir))) {
            Ok(Res::Ok(v)) => ("ok".to_string(), v), Ok(Res::Err) => ("err".to_string(), None),
            Ok(Res::Crash(s)) => { let _ = std::fs::remove_dir_all(&dir); return format!("crash={s}"); }
            Err(()) => { let _ = std::fs::remove_dir_all(&dir); return format!("crash={}", panic_token()); }
        }
    };
    let obs = if is_value(&c.pu) {
        // a value pull touches no file: the "destination" is the decoded value
        let stray = dst.exists() || tmp.exists();
        format!("res={res} dst={} tmp={}", show(&val), stray as u8)
    } else {
        let after = std::fs::read(&dst).ok();
        // trunc: whether the proxy really shortened the final chunk (if it did not, nothing was wrong)
        format!("res={res} dst={} tmp={}{}", show(&after), tmp.exists() as u8, if c.fault == "trunc" { format!(" trunc={}", DID_TRUNC.load(Ordering::SeqCst) as u8) } else { String::new() })
    };
    let _ = std::fs::remove_dir_all(&dir);
    obs
}

// ---- generation ---------------------------------------------------------------

struct Gen { rng: Rng, wires: HashMap<Vec<u8>, Vec<u8>>, out: Vec<String> }
impl Gen {
    fn wire(&mut self, stream: &[u8], comp: bool) -> Vec<u8> {
        if !comp { return stream.to_vec(); }
        if let Some(w) = self.wires.get(stream) { return w.clone(); }
        let w = reference_wire(stream, true);
        self.wires.insert(stream.to_vec(), w.clone());
        w
    }
    #[allow(clippy::too_many_arguments)]
    fn push(&mut self, pu: &str, tr: &str, comp: bool, chunk: usize, trailer: usize, stream: &[u8], dst: &Option<Vec<u8>>, tmp: &Option<Vec<u8>>, fault: &str) {
        let wire = if comp { hex(&self.wire(stream, true)) } else { "=".to_string() };
        self.out.push(format!("pu={pu} tr={tr} comp={} chunk={} trailer={} stream={} wire={wire} dst={} tmp={} fault={fault}",
            comp as u8, h(chunk as u64), h(trailer as u64), hex(stream), show(dst), show(tmp)));
    }
    fn nresp(&mut self, stream: &[u8], comp: bool, chunk: usize) -> usize { let w = self.wire(stream, comp).len(); w.div_ceil(chunk).max(1) }
    /// producer-failure points: 0, the end, and every chunk boundary +-1
    fn prod_points(len: usize, chunk: usize) -> Vec<usize> {
        let mut v = vec![0, len];
        let mut b = chunk;
        while b <= len + 1 { for k in [b.wrapping_sub(1), b, b + 1] { if k <= len { v.push(k); } } b += chunk; }
        v.sort(); v.dedup(); v
    }
}

/// (puller, transport) pairs; the blocking pullers have one transport
const FILE_PULLERS: &[(&str, &str)] = &[("file", "-"), ("bevefile", "-"), ("zstfile", "-"), ("trailer", "-"),
    ("afile", "tcp"), ("afile", "ws"), ("averified", "tcp"), ("averified", "ws"), ("atrailer", "tcp"), ("atrailer", "ws")];
const VALUE_PULLERS: &[(&str, &str)] = &[("value", "-"), ("avalue", "tcp"), ("avalue", "ws")];
fn needs_zstd(pu: &str) -> bool { pu == "bevefile" || pu == "zstfile" }
fn has_trailer(pu: &str) -> bool { pu == "trailer" || pu == "atrailer" }
fn has_verify(pu: &str) -> bool { has_trailer(pu) || pu == "averified" }

fn gen_cases(seed: u64, thorough: bool) -> Vec<String> {
    let mut g = Gen { rng: Rng::new(seed), wires: HashMap::new(), out: Vec::new() };
    let old = Some(vec![0xAA, 0xBB]);
    let stale = Some(vec![0x5A; 5]);
    let dsts = [None, old.clone()];

    // A. exhaustive fault placement on small streams: every cut, every producer
    //    failure point, reject; every puller; both compressions; dst absent / present
    let shapes: Vec<(usize, usize)> = if thorough {
        vec![(0, 4), (1, 4), (3, 16), (4, 4), (5, 4), (8, 4), (9, 4), (10, 4), (12, 4), (10, 1), (10, 3), (17, 5), (33, 16), (64, 16), (65, 16)]
    } else {
        vec![(0, 4), (3, 16), (10, 4), (12, 4)]
    };
    for (si, &(len, chunk)) in shapes.iter().enumerate() {
        let stream: Vec<u8> = if si % 2 == 0 { g.rng.bytes(len) } else { (0..len).map(|i| (i % 3) as u8 + 0x41).collect() };
        for comp in [false, true] {
            let nresp = g.nresp(&stream, comp, chunk);
            let mut faults = vec!["none".to_string()];
            for j in 0..=nresp { faults.push(format!("cut:{}", h(j as u64))); }
            for k in Gen::prod_points(len, chunk) { faults.push(format!("prod:{}", h(k as u64))); }
            for &(pu, tr) in FILE_PULLERS {
                if needs_zstd(pu) && !comp { continue; }
                let trailer = if has_trailer(pu) { 3.min(len) } else { 0 };
                let mut fs = faults.clone();
                if has_verify(pu) { fs.push("reject".into()); }
                // a compressed stream that ends cleanly at the protocol level but whose compressed
                // frame is incomplete (the decompressing puller fails after the last chunk)
                if pu == "bevefile" { fs.push("trunc".into()); }
                for (fi, f) in fs.iter().enumerate() {
                    for (di, d) in dsts.iter().enumerate() {
                        let tmp = if (fi + di + si) % 4 == 0 { &stale } else { &None };
                        g.push(pu, tr, comp, chunk, trailer, &stream, d, tmp, f);
                    }
                }
            }
        }
    }

    // B. trailer lengths around the stream length and the chunk size (both
    //    TrailerHold branches), with and without faults
    let tshapes: Vec<(usize, usize)> = if thorough { vec![(0, 4), (1, 4), (10, 4), (12, 4), (10, 1), (21, 8), (40, 16)] } else { vec![(0, 4), (10, 4), (21, 8)] };
    for &(len, chunk) in &tshapes {
        let stream = g.rng.bytes(len);
        let mut tls = vec![0, 1, 2, 3, 4, 5, 7, chunk, chunk + 1, len.saturating_sub(1), len, len + 1, len + 7];
        tls.sort(); tls.dedup();
        for comp in [false, true] {
            let nresp = g.nresp(&stream, comp, chunk);
            for &(pu, tr) in &[("trailer", "-"), ("atrailer", "tcp"), ("atrailer", "ws")] {
                for &tl in &tls {
                    for f in ["none".to_string(), "reject".into(), format!("cut:{}", h((nresp / 2) as u64)), format!("prod:{}", h((len / 2) as u64))] {
                        if tr == "ws" && !thorough && f != "none" && tl % 2 == 1 { continue; }
                        let d = if (tl + len) % 2 == 0 { &None } else { &old };
                        g.push(pu, tr, comp, chunk, tl, &stream, d, &None, &f);
                    }
                }
            }
        }
    }

    // C. value pulls: complete, every cut, every producer failure point
    let vshapes: Vec<(usize, usize)> = if thorough { vec![(0, 4), (1, 3), (5, 4), (5, 16), (40, 16), (40, 7), (300, 64)] } else { vec![(0, 4), (5, 16), (40, 16)] };
    for &(dl, chunk) in &vshapes {
        let v = Val { id: g.rng.next(), data: g.rng.bytes(dl), label: format!("label-{dl}") };
        let stream = encode_val(&v);
        for comp in [false, true] {
            let nresp = g.nresp(&stream, comp, chunk);
            let mut faults = vec!["none".to_string()];
            for j in 0..=nresp { faults.push(format!("cut:{}", h(j as u64))); }
            for k in Gen::prod_points(stream.len(), chunk) { faults.push(format!("prod:{}", h(k as u64))); }
            for &(pu, tr) in VALUE_PULLERS { for f in &faults { g.push(pu, tr, comp, chunk, 0, &stream, &None, &None, f); } }
        }
    }

    // D. kills: every probe point x hit counts (reached and never reached)
    {
        let len = 10usize; let chunk = 4usize;
        let stream = g.rng.bytes(len);
        let pullers: Vec<(&str, &str)> = if thorough { FILE_PULLERS.to_vec() } else {
            vec![("file", "-"), ("trailer", "-"), ("zstfile", "-"), ("afile", "tcp"), ("averified", "ws"), ("atrailer", "tcp")]
        };
        for (pi, &(pu, tr)) in pullers.iter().enumerate() {
            for comp in [false, true] {
                if needs_zstd(pu) && !comp { continue; }
                if !thorough && !needs_zstd(pu) && comp != (pi % 2 == 1) { continue; }
                let nresp = g.nresp(&stream, comp, chunk);
                let mut pts: Vec<(String, usize)> = vec![("after_create".into(), 1), ("fetch".into(), 1), ("fetch".into(), 2), ("fetch".into(), nresp), ("fetch".into(), nresp + 1),
                    ("before_flush".into(), 1), ("before_sync".into(), 1), ("before_rename".into(), 1), ("after_rename".into(), 1), ("before_rename".into(), 2)];
                if thorough { for n in 3..nresp { pts.push(("fetch".into(), n)); } pts.push(("after_create".into(), 2)); pts.push(("after_rename".into(), 2)); pts.push(("before_sync".into(), 3)); }
                pts.dedup();
                for (ki, (pt, n)) in pts.iter().enumerate() {
                    let ds: Vec<&Option<Vec<u8>>> = if thorough { vec![&None, &old] } else { vec![if (ki + pi) % 2 == 0 { &None } else { &old }] };
                    for d in ds {
                        let tmp = if ki % 5 == 4 { &stale } else { &None };
                        let trailer = if has_trailer(pu) { 3 } else { 0 };
                        g.push(pu, tr, comp, chunk, trailer, &stream, d, tmp, &format!("kill:{pt}:{}", h(*n as u64)));
                    }
                }
            }
        }
    }

    // E. large streams: chunks above io::copy's 8 KiB buffer, trailers above and
    //    below it, the destination already holding the expected content
    {
        let sizes: Vec<(usize, usize, usize)> = if thorough { vec![(20000, 10000, 32), (20000, 3000, 9000), (70000, 16384, 8192), (30000, 30000, 1), (8192, 8192, 8192)] } else { vec![(20000, 10000, 32), (20000, 3000, 9000)] };
        for &(len, chunk, tl) in &sizes {
            let mut stream = g.rng.bytes(len);
            for (i, b) in stream.iter_mut().enumerate() { if i % 3 != 0 { *b = (i / 64) as u8; } }
            for comp in [false, true] {
                let nresp = g.nresp(&stream, comp, chunk);
                for &(pu, tr) in FILE_PULLERS {
                    if needs_zstd(pu) && !comp { continue; }
                    let trailer = if has_trailer(pu) { tl } else { 0 };
                    let same = Some(stream[..len - trailer].to_vec());
                    for f in ["none".to_string(), format!("cut:{}", h((nresp - 1) as u64)), format!("prod:{}", h((len - 1) as u64))] {
                        if comp && len >= 65536 && f.starts_with("prod") { continue; } // outside the model's domain
                        let d = if f == "none" { &None } else { &same };
                        g.push(pu, tr, comp, chunk, trailer, &stream, d, &None, &f);
                    }
                }
            }
        }
    }

    // F. random
    let nrand = if thorough { 15000 } else { 400 };
    for _ in 0..nrand {
        let len = if g.rng.chance(1, 10) { g.rng.range(200, 3000) } else { g.rng.range(0, 120) } as usize;
        let chunk = *g.rng.pick(&[1usize, 2, 3, 4, 5, 7, 8, 16, 31, 64, 1000]);
        let chunk = if len / chunk > 60 { 64 } else { chunk };
        let comp = g.rng.chance(1, 2);
        let value = g.rng.chance(1, 6);
        let (pu, tr) = if value { *g.rng.pick(VALUE_PULLERS) } else { *g.rng.pick(FILE_PULLERS) };
        let comp = comp || needs_zstd(pu);
        let stream = if value { encode_val(&Val { id: g.rng.next(), data: g.rng.bytes(len), label: "x".repeat((len % 9) as usize) }) }
                     else if g.rng.chance(1, 3) { (0..len).map(|i| (i / 7) as u8).collect() } else { g.rng.bytes(len) };
        let len = stream.len();
        let nresp = g.nresp(&stream, comp, chunk);
        let trailer = if has_trailer(pu) { match g.rng.below(5) { 0 => 0, 1 => len, 2 => len + 1 + g.rng.below(4) as usize, _ => g.rng.below(len as u64 + 1) as usize } } else { 0 };
        let fault = match g.rng.below(8) {
            0 | 1 => "none".to_string(),
            2 | 3 => format!("cut:{}", h(g.rng.below(nresp as u64 + 2))),
            4 | 5 => { let pts = Gen::prod_points(len, chunk); format!("prod:{}", h(*g.rng.pick(&pts) as u64)) }
            6 => if has_verify(pu) { "reject".into() } else { format!("cut:{}", h(g.rng.below(nresp as u64 + 1))) },
            _ => if value || !thorough { "none".into() } else {
                let pt = *g.rng.pick(&["after_create", "fetch", "before_flush", "before_sync", "before_rename", "after_rename"]);
                let n = if pt == "fetch" { g.rng.range(1, nresp as u64 + 1) } else { g.rng.range(1, 2) };
                format!("kill:{pt}:{}", h(n))
            },
        };
        let d = if value { None } else { match g.rng.below(3) { 0 => None, 1 => { let n = g.rng.below(6) as usize; Some(g.rng.bytes(n)) } _ => Some(g.rng.bytes(len.min(40))) } };
        let t = if value || g.rng.chance(3, 4) { None } else { let n = g.rng.below(5) as usize; Some(g.rng.bytes(n)) };
        g.push(pu, tr, comp, chunk, trailer, &stream, &d, &t, &fault);
    }

    // every third producer failure is a panic of the body writer rather than an error it returns
    // (the same expectation: the pull fails, nothing is published); not for `kill:` child pulls
    let mut k = 0usize;
    for l in g.out.iter_mut() {
        if l.contains(" fault=prod:") { k += 1; if k % 3 == 0 { l.push_str(" pp=1"); } }
    }
    // G. (appended: the cases above keep their numbers) an async pull-to-file whose future is dropped in
    //    mid-transfer while the producer stalls after k bytes: (stream length, chunk size, k)
    {
        let shapes: Vec<(usize, usize, usize)> = if thorough { vec![(40, 4, 12), (40, 4, 0), (40, 4, 5), (64, 16, 48), (64, 16, 17), (20000, 3000, 9000), (300, 7, 150), (12, 4, 12), (70000, 16384, 49152)] }
                                                 else { vec![(40, 4, 12), (40, 4, 0), (64, 16, 17), (20000, 3000, 9000), (12, 4, 12)] };
        let (mut n, mut pushed) = (0usize, 0usize);
        for &(len, chunk, k) in &shapes {
            let mut stream = g.rng.bytes(len);
            if len >= 1000 { for (i, b) in stream.iter_mut().enumerate() { if i % 3 != 0 { *b = (i / 64) as u8; } } }
            for &(pu, tr) in &[("afile", "tcp"), ("afile", "ws"), ("averified", "tcp"), ("averified", "ws"), ("atrailer", "tcp"), ("atrailer", "ws")] {
                for comp in [false, true] {
                    // the pullers that verify and the compressed streams: a share of the shapes (quick)
                    if !thorough && (pu != "afile" || comp) && (n + len) % 3 != 0 { n += 1; continue; }
                    for d in dsts.iter() {
                        n += 1;
                        let trailer = if has_trailer(pu) { 3.min(len) } else { 0 };
                        g.push(pu, tr, comp, chunk, trailer, &stream, d, &None, &format!("drop:{}", h(k as u64)));
                        // both ways of dropping the future meet both destinations, puller by puller
                        g.out.last_mut().unwrap().push_str(if (pushed / 2 + pushed) % 2 == 0 { " how=sel" } else { " how=abort" });
                        pushed += 1;
                    }
                }
            }
        }
    }
    g.out.into_iter().enumerate().map(|(i, c)| format!("i={i} {c}")).collect()
}

fn main() {
    let args: Vec<String> = std::env::args().collect();
    if args.len() >= 4 && args[1] == "--child-pull" { child_pull_main(&args[2], &args[3]); }
    let cases = if no_gen() { vec![] } else { gen_cases(seed(), is_thorough()) };
    isolated_main(cases, run_case, Duration::from_secs(40));
}
