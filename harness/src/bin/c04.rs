//! C04 correspondence: n concurrent calls on clones of ONE client (blocking,
//! async, WebSocket) against a scripted raw server that answers in a chosen
//! order with injected unknown-id, duplicate and notify frames; `batch_json`;
//! and model-sampled interleavings replayed by parking threads at the probe
//! points of the `verif-hooks` feature.
use futures_util::{SinkExt, StreamExt};
use repe::{AsyncClient, Client, RepeError, WebSocketClient};
use repe_verif_harness::*;
use serde_json::{Value, json};
use std::cell::Cell;
use std::collections::HashMap;
use std::io::Write;
use std::net::{Shutdown, TcpListener, TcpStream};
use std::sync::mpsc;
use std::sync::{Arc, Condvar, Mutex, OnceLock};
use std::time::{Duration, Instant};
use tokio_tungstenite::tungstenite::Message as WsMessage;

const LONG: Duration = Duration::from_secs(5);
const SHORT: Duration = Duration::from_millis(40);
const WAIT: Duration = Duration::from_secs(4);
/// mode=spin: threads per case, rounds per case, cases in the quick tier
const SPIN_W: u64 = 8;
const SPIN_ROUNDS: u64 = 200;
const SPIN_CASES: u64 = 4;
/// large batches on the blocking client: requests per batch, batches per case, cases in the quick tier
const BIG_BATCH: u64 = 512;
const BIG_BATCH_REP: u64 = 80;
const BIG_BATCH_CASES: u64 = 8;
/// the long mid-frame stall (AsyncClient), milliseconds
const LONG_STALL_MS: u64 = 2300;

fn rt() -> &'static tokio::runtime::Runtime {
    static RT: OnceLock<tokio::runtime::Runtime> = OnceLock::new();
    RT.get_or_init(|| {
        let rt = tokio::runtime::Builder::new_multi_thread().worker_threads(12).enable_all().build().unwrap();
        // A task parked at a probe point blocks its worker thread. tokio polls the i/o and timer
        // drivers only from a worker that goes idle, so with the other workers asleep nothing would
        // poll them: wake one worker every millisecond; it finds no work and parks on the drivers.
        let h = rt.handle().clone();
        std::thread::spawn(move || loop { h.spawn(async {}); std::thread::sleep(Duration::from_millis(1)); });
        rt
    })
}

// ---------------------------------------------------------------- the gate

#[derive(Clone, Copy, PartialEq, Eq, Hash, Debug)]
enum Actor { Caller(u64), Reader }
type Key = (Actor, &'static str);

#[derive(Default)]
struct GateState { active: bool, arrived: HashMap<Key, u64>, permits: HashMap<Key, u64>, problems: Vec<String> }
struct Gate { m: Mutex<GateState>, cv: Condvar }
impl Gate {
    fn new(active: bool) -> Arc<Gate> { Arc::new(Gate { m: Mutex::new(GateState { active, ..Default::default() }), cv: Condvar::new() }) }
    /// called on the thread that hit the probe point
    fn park(&self, key: Key, parks: bool) {
        let mut g = self.m.lock().unwrap();
        if !g.active { return; }
        let my = { let e = g.arrived.entry(key).or_insert(0); *e += 1; *e };
        self.cv.notify_all();
        if !parks { return; }
        let deadline = Instant::now() + Duration::from_secs(8);
        loop {
            if !g.active || g.permits.get(&key).copied().unwrap_or(0) >= my { return; }
            let now = Instant::now();
            if now >= deadline { g.problems.push(format!("park-timeout:{:?}:{}", key.0, key.1)); return; }
            g = self.cv.wait_timeout(g, deadline - now).unwrap().0;
        }
    }
    /// wait until one of the keys has reached its count; returns its index
    fn wait_any(&self, keys: &[(Key, u64)], timeout: Duration) -> Option<usize> {
        let mut g = self.m.lock().unwrap();
        let deadline = Instant::now() + timeout;
        loop {
            for (i, (k, n)) in keys.iter().enumerate() { if g.arrived.get(k).copied().unwrap_or(0) >= *n { return Some(i); } }
            let now = Instant::now();
            if now >= deadline { return None; }
            g = self.cv.wait_timeout(g, deadline - now).unwrap().0;
        }
    }
    fn release(&self, key: Key) { let mut g = self.m.lock().unwrap(); *g.permits.entry(key).or_insert(0) += 1; self.cv.notify_all(); }
    fn open(&self) { let mut g = self.m.lock().unwrap(); g.active = false; self.cv.notify_all(); }
    fn problem(&self, s: String) { self.m.lock().unwrap().problems.push(s); }
    fn problems(&self) -> Vec<String> { self.m.lock().unwrap().problems.clone() }
}

static GATE: Mutex<Option<Arc<Gate>>> = Mutex::new(None);
thread_local! { static WHO_T: Cell<Option<u64>> = const { Cell::new(None) }; }
tokio::task_local! { static WHO: u64; }

fn on_probe(point: &'static str) {
    let gate = match GATE.lock().unwrap().as_ref() { Some(g) => g.clone(), None => return };
    let suffix = point.split_once('.').map(|(_, s)| s).unwrap_or(point);
    let who = || WHO.try_with(|c| *c).ok().or_else(|| WHO_T.with(|c| c.get()));
    match suffix {
        "after_register" => { if let Some(c) = who() { gate.park((Actor::Caller(c), "after_register"), true); } }
        "before_write" => { if let Some(c) = who() { gate.park((Actor::Caller(c), "before_write"), false); } }
        "timeout.before_remove" => { if let Some(c) = who() { gate.park((Actor::Caller(c), "timeout"), true); } }
        "reader.got_frame" => gate.park((Actor::Reader, "got_frame"), true),
        "reader.before_deliver" => gate.park((Actor::Reader, "before_deliver"), true),
        _ => {}
    }
}

// ---------------------------------------------------------------- frames (independent of repe's framing)

fn mk_frame(id: u64, notify: u8, tag: u64) -> Vec<u8> { mk_frame_ec(id, notify, tag, 0) }
fn mk_frame_ec(id: u64, notify: u8, tag: u64, ec: u32) -> Vec<u8> {
    let query = b"/r"; let body = format!("{{\"tag\":{tag}}}").into_bytes();
    let mut f = Vec::with_capacity(48 + query.len() + body.len());
    f.extend_from_slice(&((48 + query.len() + body.len()) as u64).to_le_bytes());
    f.extend_from_slice(&0x1507u16.to_le_bytes()); f.push(1); f.push(notify); f.extend_from_slice(&0u32.to_le_bytes());
    f.extend_from_slice(&id.to_le_bytes());
    f.extend_from_slice(&(query.len() as u64).to_le_bytes()); f.extend_from_slice(&(body.len() as u64).to_le_bytes());
    f.extend_from_slice(&1u16.to_le_bytes()); f.extend_from_slice(&2u16.to_le_bytes()); f.extend_from_slice(&ec.to_le_bytes());
    f.extend_from_slice(query); f.extend_from_slice(&body);
    f
}

/// (id, tag, notify byte) of a request frame
fn parse_req(f: &[u8]) -> Result<(u64, u64, u8), String> {
    if f.len() < 48 { return Err("short request".into()); }
    let id = u64::from_le_bytes(f[16..24].try_into().unwrap());
    let ql = u64::from_le_bytes(f[24..32].try_into().unwrap()) as usize;
    let bl = u64::from_le_bytes(f[32..40].try_into().unwrap()) as usize;
    if f.len() != 48 + ql + bl { return Err("request length".into()); }
    let v: Value = serde_json::from_slice(&f[48 + ql..]).map_err(|e| e.to_string())?;
    let tag = v.get("tag").and_then(|t| t.as_u64()).ok_or("no tag")?;
    Ok((id, tag, f[11]))
}

enum Conn { Tcp(TcpStream), Ws(Box<tokio_tungstenite::WebSocketStream<tokio::net::TcpStream>>) }
impl Conn {
    fn send(&mut self, frame: Vec<u8>) -> Result<(), String> {
        match self {
            Conn::Tcp(s) => s.write_all(&frame).map_err(|e| e.to_string()),
            Conn::Ws(ws) => rt().block_on(async { tokio::time::timeout(WAIT, ws.send(WsMessage::Binary(frame))).await.map_err(|_| "send timeout".to_string())?.map_err(|e| e.to_string()) }),
        }
    }
    /// the frame leaves in two pieces: `off` bytes, a pause during which the peer sits inside the
    /// frame, then the rest (raw TCP only)
    fn send_stalled(&mut self, frame: Vec<u8>, off: usize, pause: Duration) -> Result<(), String> {
        match self {
            Conn::Tcp(s) => {
                let off = off.clamp(1, frame.len() - 1);
                s.write_all(&frame[..off]).and_then(|_| s.flush()).map_err(|e| e.to_string())?;
                std::thread::sleep(pause);
                s.write_all(&frame[off..]).map_err(|e| e.to_string())
            }
            Conn::Ws(_) => Err("stall: raw TCP only".into()),
        }
    }
    fn read(&mut self) -> Result<Vec<u8>, String> {
        match self {
            Conn::Tcp(s) => net::read_raw_frame(s).map_err(|e| e.to_string()),
            Conn::Ws(ws) => rt().block_on(async {
                loop {
                    match tokio::time::timeout(WAIT, ws.next()).await {
                        Err(_) => return Err("read timeout".to_string()),
                        Ok(None) => return Err("closed".to_string()),
                        Ok(Some(Err(e))) => return Err(e.to_string()),
                        Ok(Some(Ok(WsMessage::Binary(b)))) => return Ok(b.into()),
                        Ok(Some(Ok(WsMessage::Close(_)))) => return Err("closed".to_string()),
                        Ok(Some(Ok(_))) => continue,
                    }
                }
            }),
        }
    }
    /// end of the script: no more frames; the client sees the end of the stream after everything sent
    fn finish(&mut self) {
        match self {
            Conn::Tcp(s) => { let _ = s.shutdown(Shutdown::Write); }
            Conn::Ws(ws) => { let _ = rt().block_on(async { tokio::time::timeout(Duration::from_secs(2), (**ws).close(None)).await }); }
        }
    }
}

/// the scripted server's knowledge: which request (by caller tag) carries which id
struct Server { conn: Conn, seen: HashMap<u64, u64>, ids: Vec<u64>, notifies: Vec<u64>, err: Option<String>, answered: std::collections::HashSet<u64>, gone: std::collections::HashSet<u64> }
impl Server {
    fn read_one(&mut self) -> bool {
        match self.conn.read().and_then(|f| parse_req(&f)) {
            Ok((_, tag, n)) if n != 0 => { self.notifies.push(tag); true }   // a forwarded notify: nothing to answer
            Ok((id, tag, _)) => { self.seen.insert(tag, id); self.ids.push(id); true }
            Err(e) => { self.err.get_or_insert(format!("server-read:{e}")); false }
        }
    }
    fn need(&mut self, tag: u64) -> Option<u64> {
        while !self.seen.contains_key(&tag) { if !self.read_one() { return None; } }
        self.seen.get(&tag).copied()
    }
    fn send(&mut self, f: Vec<u8>) { if let Err(e) = self.conn.send(f) { self.err.get_or_insert(format!("server-send:{e}")); } }
}

// ---------------------------------------------------------------- clients

#[derive(Clone)]
enum Cl { Tcp(Client), Async(AsyncClient), Ws(WebSocketClient) }

fn outcome(r: Result<Value, RepeError>) -> String {
    match r {
        Ok(v) => match v.get("tag").and_then(|t| t.as_u64()) { Some(t) => format!("g{t:x}"), None => "b2".into() },
        Err(RepeError::Io(e)) if e.kind() == std::io::ErrorKind::TimedOut => "t".into(),
        Err(RepeError::Io(e)) if e.kind() == std::io::ErrorKind::AlreadyExists => "r".into(),
        Err(RepeError::Io(_)) => "x".into(),
        Err(RepeError::ResponseIdMismatch { .. }) => "b1".into(),
        Err(_) => "b3".into(),
    }
}

/// set per case: a WebSocket client on which nobody subscribed to notifications (`sub=0`)
static NO_SUB: std::sync::atomic::AtomicBool = std::sync::atomic::AtomicBool::new(false);
/// set per case: a WebSocket client whose notification subscriber went away (`sub=d`): somebody
/// subscribed and then dropped the receiver WITHOUT calling `unsubscribe_notifies()`
static DROPPED_SUB: std::sync::atomic::AtomicBool = std::sync::atomic::AtomicBool::new(false);

struct Setup { cl: Cl, srv: Server, sub: Option<tokio::sync::mpsc::UnboundedReceiver<repe::Message>> }

fn setup(kind: &str) -> Result<Setup, String> {
    match kind {
        "tcp" | "async" => {
            let l = TcpListener::bind("127.0.0.1:0").map_err(|e| e.to_string())?;
            let addr = l.local_addr().unwrap();
            let cl = if kind == "tcp" { Cl::Tcp(Client::connect(addr).map_err(|e| e.to_string())?) }
                     else { Cl::Async(rt().block_on(AsyncClient::connect(addr)).map_err(|e| e.to_string())?) };
            let (s, _) = l.accept().map_err(|e| e.to_string())?;
            s.set_nodelay(true).ok();
            s.set_read_timeout(Some(WAIT)).ok();
            Ok(Setup { cl, srv: Server { conn: Conn::Tcp(s), seen: HashMap::new(), ids: vec![], notifies: vec![], err: None, answered: Default::default(), gone: Default::default() }, sub: None })
        }
        _ => {
            let (cl, ws) = rt().block_on(async {
                let l = tokio::net::TcpListener::bind("127.0.0.1:0").await.map_err(|e| e.to_string())?;
                let addr = l.local_addr().unwrap();
                let acc = tokio::spawn(async move {
                    let (s, _) = l.accept().await.map_err(|e| e.to_string())?;
                    s.set_nodelay(true).ok();
                    tokio_tungstenite::accept_async(s).await.map_err(|e| e.to_string())
                });
                let cl = tokio::time::timeout(WAIT, WebSocketClient::connect(&format!("ws://{addr}/c04"))).await
                    .map_err(|_| "connect timeout".to_string())?.map_err(|e| e.to_string())?;
                let ws = tokio::time::timeout(WAIT, acc).await.map_err(|_| "accept timeout".to_string())?.map_err(|e| e.to_string())??;
                Ok::<_, String>((cl, ws))
            })?;
            let sub = if NO_SUB.load(std::sync::atomic::Ordering::SeqCst) { None } else { Some(cl.subscribe_notifies().map_err(|_| "already subscribed".to_string())?) };
            // sub=d: the receiver is gone, the client still holds the sender (a stale slot)
            let sub = if DROPPED_SUB.load(std::sync::atomic::Ordering::SeqCst) { drop(sub); None } else { sub };
            Ok(Setup { cl: Cl::Ws(cl), srv: Server { conn: Conn::Ws(Box::new(ws)), seen: HashMap::new(), ids: vec![], notifies: vec![], err: None, answered: Default::default(), gone: Default::default() }, sub })
        }
    }
}

enum Handle { Thread, Task(tokio::task::AbortHandle) }

/// start caller `c`: one call on a clone of the client; its outcome goes to `tx`
fn spawn_caller(cl: &Cl, c: u64, tmo: Duration, tx: mpsc::Sender<(u64, String)>, start: Option<Arc<std::sync::Barrier>>) -> Handle {
    let path = format!("/c{c}"); let body = json!({"tag": c});
    match cl.clone() {
        Cl::Tcp(client) => {
            std::thread::Builder::new().stack_size(256 * 1024).spawn(move || {
                WHO_T.with(|w| w.set(Some(c)));
                if let Some(b) = start { b.wait(); }
                let r = guard(std::panic::AssertUnwindSafe(|| outcome(client.call_json_with_timeout(&path, &body, tmo)))).unwrap_or_else(|_| "b5".into());
                let _ = tx.send((c, r));
            }).expect("spawn");
            Handle::Thread
        }
        Cl::Async(client) => {
            let jh = rt().spawn(WHO.scope(c, async move { outcome(client.call_json_with_timeout(&path, &body, tmo).await) }));
            let ah = jh.abort_handle();
            rt().spawn(async move { let r = match jh.await { Ok(s) => s, Err(e) if e.is_cancelled() => "c".into(), Err(_) => "b5".into() }; let _ = tx.send((c, r)); });
            Handle::Task(ah)
        }
        Cl::Ws(client) => {
            let jh = rt().spawn(WHO.scope(c, async move { outcome(client.call_json_with_timeout(&path, &body, tmo).await) }));
            let ah = jh.abort_handle();
            rt().spawn(async move { let r = match jh.await { Ok(s) => s, Err(e) if e.is_cancelled() => "c".into(), Err(_) => "b5".into() }; let _ = tx.send((c, r)); });
            Handle::Task(ah)
        }
    }
}

/// caller `c` forwards a prebuilt message with a caller-supplied id (AsyncClient only)
fn spawn_forward(cl: &Cl, c: u64, id: u64, notify: bool, tmo: Duration, tx: mpsc::Sender<(u64, String)>) -> Handle {
    let Cl::Async(client) = cl.clone() else { panic!("forward_message exists on AsyncClient only") };
    let msg = repe::Message::builder().id(id).notify(notify).query_str(&format!("/f{c}")).body_json(&json!({"tag": c})).expect("body").build();
    let jh = rt().spawn(WHO.scope(c, async move {
        match client.forward_message_with_timeout(&msg, tmo).await {
            Ok(Some(m)) => outcome(m.json_body::<Value>()),
            Ok(None) => "n".into(),
            Err(e) => outcome(Err(e)),
        }
    }));
    let ah = jh.abort_handle();
    rt().spawn(async move { let r = match jh.await { Ok(s) => s, Err(e) if e.is_cancelled() => "c".into(), Err(_) => "b5".into() }; let _ = tx.send((c, r)); });
    Handle::Task(ah)
}

// ---------------------------------------------------------------- schedules

#[derive(Clone, Debug)]
enum Step { R(u64), W(u64), T(u64), C(u64), D, F(u64, u64), Fn(u64), Reply(u64, u64), Unknown(u64, u64), Notify(u64, u64), NotifyRaw(u64, u64),
            /// harness-only (not model steps): start / finish a call whose body fails to serialize
            BurnStart, BurnEnd }

fn hx(s: &str) -> u64 { u64::from_str_radix(s, 16).expect("hex") }
fn parse_step(s: &str) -> Step {
    let t: Vec<&str> = s.split(':').collect();
    match t[0] {
        "R" => Step::R(hx(t[1])), "W" => Step::W(hx(t[1])), "T" => Step::T(hx(t[1])), "C" => Step::C(hx(t[1])), "D" => Step::D,
        "F" => Step::F(hx(t[1]), hx(t[2])), "Fn" => Step::Fn(hx(t[1])),
        "r" => Step::Reply(hx(t[1]), hx(t[2])), "u" => Step::Unknown(hx(t[1]), hx(t[2])),
        "n" => Step::Notify(hx(t[1]), hx(t[2])), "N" => Step::NotifyRaw(hx(t[1]), hx(t[2])),
        "Z" => Step::BurnStart, "z" => Step::BurnEnd,
        _ => panic!("bad step"),
    }
}
fn show_step(s: &Step) -> String {
    match s {
        Step::R(c) => format!("R:{c:x}"), Step::W(c) => format!("W:{c:x}"), Step::T(c) => format!("T:{c:x}"), Step::C(c) => format!("C:{c:x}"), Step::D => "D".into(),
        Step::F(c, i) => format!("F:{c:x}:{i:x}"), Step::Fn(c) => format!("Fn:{c:x}"),
        Step::Reply(k, v) => format!("r:{k:x}:{v:x}"), Step::Unknown(i, v) => format!("u:{i:x}:{v:x}"),
        Step::Notify(k, v) => format!("n:{k:x}:{v:x}"), Step::NotifyRaw(i, v) => format!("N:{i:x}:{v:x}"),
        Step::BurnStart => "Z".into(), Step::BurnEnd => "z".into(),
    }
}

/// A request body whose serialization blocks until released and then fails: the call has drawn
/// whatever it draws before serializing (its request id, on the blocking client) and returns an
/// error without ever reaching the wire.
#[derive(Clone, Default)]
struct BadBody { st: Arc<(Mutex<(bool, bool)>, std::sync::Condvar)> }
impl serde::Serialize for BadBody {
    fn serialize<S: serde::Serializer>(&self, _s: S) -> Result<S::Ok, S::Error> {
        let (m, cv) = &*self.st;
        let mut g = m.lock().unwrap();
        g.0 = true; cv.notify_all();
        let t0 = Instant::now();
        while !g.1 && t0.elapsed() < WAIT { g = cv.wait_timeout(g, Duration::from_millis(50)).unwrap().0; }
        Err(serde::ser::Error::custom("scripted serialization failure"))
    }
}
impl BadBody {
    fn wait_entered(&self) -> bool { let (m, cv) = &*self.st; let mut g = m.lock().unwrap(); let t0 = Instant::now(); while !g.0 && t0.elapsed() < WAIT { g = cv.wait_timeout(g, Duration::from_millis(50)).unwrap().0; } g.0 }
    fn release(&self) { let (m, cv) = &*self.st; m.lock().unwrap().1 = true; cv.notify_all(); }
}
fn spawn_burner(cl: &Cl, body: BadBody, done: mpsc::Sender<bool>) {
    match cl.clone() {
        Cl::Tcp(client) => { std::thread::spawn(move || { let _ = done.send(client.call_json("/burn", &body).is_err()); }); }
        Cl::Async(client) => { rt().spawn(async move { let _ = done.send(client.call_json("/burn", &body).await.is_err()); }); }
        Cl::Ws(client) => { rt().spawn(async move { let _ = done.send(client.call_json("/burn", &body).await.is_err()); }); }
    }
}
const UNKNOWN_K: u64 = 4095;
fn tag_of(k: u64, v: u64) -> u64 { k + 4096 * v }

/// the frame of a server step (None: not a server step, or the request it names was never read)
/// error code of a frame nobody is waiting for (an unknown id; a second answer; an answer that comes
/// after its call timed out or was cancelled): such a frame is dropped whatever code it carries
fn stray_ec(v: u64) -> u32 { [0u32, 7, 9, 4096][(v % 4) as usize] }
fn server_frame(srv: &mut Server, st: &Step) -> Option<Vec<u8>> {
    match st {
        Step::T(c) | Step::C(c) => { srv.gone.insert(*c); None }
        Step::Reply(k, v) => {
            let stray = !srv.answered.insert(*k) || srv.gone.contains(k);
            srv.need(*k).map(|id| mk_frame_ec(id, 0, tag_of(*k, *v), if stray { stray_ec(*v) } else { 0 }))
        }
        Step::Notify(k, v) => srv.need(*k).map(|id| mk_frame(id, 1, tag_of(*k, *v))),
        Step::Unknown(id, v) => Some(mk_frame_ec(*id, 0, tag_of(UNKNOWN_K, *v), stray_ec(*v))),
        Step::NotifyRaw(id, v) => Some(mk_frame(*id, 1, tag_of(UNKNOWN_K, *v))),
        _ => None,
    }
}

// ---------------------------------------------------------------- running one case

fn pump(rx: &mpsc::Receiver<(u64, String)>, outs: &mut HashMap<u64, String>, until: impl Fn(&HashMap<u64, String>) -> bool, timeout: Duration) -> bool {
    let deadline = Instant::now() + timeout;
    while !until(outs) {
        let now = Instant::now();
        if now >= deadline { return false; }
        match rx.recv_timeout(deadline - now) { Ok((c, o)) => { outs.entry(c).or_insert(o); } Err(_) => return false }
    }
    true
}

fn probe_run(kind: &str, cl: &Cl, srv: &mut Server, gate: &Gate, sched: &[Step], tx: &mpsc::Sender<(u64, String)>,
             rx: &mpsc::Receiver<(u64, String)>, outs: &mut HashMap<u64, String>) {
    let a: Key = (Actor::Reader, "got_frame"); let b: Key = (Actor::Reader, "before_deliver");
    let tmo_of = |c: u64| if sched.iter().any(|s| matches!(s, Step::T(k) if *k == c)) { SHORT } else { LONG };
    let mut sent: u64 = 0; let mut nb: u64 = 0; let mut at_b = false; let mut nsent = 0u64;
    let mut handles: HashMap<u64, Handle> = HashMap::new();
    let mut burner: Option<(BadBody, mpsc::Receiver<bool>)> = None;
    let mut sentinel = || { nsent += 1; mk_frame((1u64 << 63) + nsent, 0, tag_of(UNKNOWN_K, 0)) };
    macro_rules! need { ($e:expr, $what:expr) => { if !$e { gate.problem($what.to_string()); return; } } }
    srv.send(sentinel()); sent += 1;
    need!(gate.wait_any(&[(a, sent)], WAIT).is_some(), "reader-not-at-first-frame");
    for (i, st) in sched.iter().enumerate() {
        match st {
            Step::BurnStart => {
                let b = BadBody::default();
                let (dtx, drx) = mpsc::channel();
                spawn_burner(cl, b.clone(), dtx);
                need!(b.wait_entered(), "burner-never-serialized");
                burner = Some((b, drx));
            }
            Step::BurnEnd => {
                if let Some((b, drx)) = burner.take() {
                    b.release();
                    need!(matches!(drx.recv_timeout(WAIT), Ok(true)), "burner-did-not-fail");
                }
            }
            Step::R(c) => {
                handles.insert(*c, spawn_caller(cl, *c, tmo_of(*c), tx.clone(), None));
                // registered (parked after the insert) or refused (the call has already returned)
                let t0 = Instant::now(); let mut ok = false;
                while t0.elapsed() < WAIT {
                    if gate.wait_any(&[((Actor::Caller(*c), "after_register"), 1)], Duration::from_millis(2)).is_some() { ok = true; break; }
                    while let Ok((k, o)) = rx.try_recv() { outs.entry(k).or_insert(o); }
                    if outs.contains_key(c) { ok = true; break; }
                }
                need!(ok, format!("no-register:{c}"));
            }
            Step::F(c, id) => {
                handles.insert(*c, spawn_forward(cl, *c, *id, false, tmo_of(*c), tx.clone()));
                // accepted: the next step writes it (the server reads the request); refused: it has returned
                if !matches!(sched.get(i + 1), Some(Step::W(k)) if k == c) {
                    need!(pump(rx, outs, |o| o.contains_key(c), WAIT), format!("no-outcome-after-forward:{c}"));
                }
            }
            Step::Fn(c) => {
                handles.insert(*c, spawn_forward(cl, *c, 0x7000 + *c, true, LONG, tx.clone()));
                need!(pump(rx, outs, |o| o.contains_key(c), WAIT), format!("no-outcome-after-forward-notify:{c}"));
            }
            Step::W(c) => {
                gate.release((Actor::Caller(*c), "after_register"));
                need!(srv.need(*c).is_some(), format!("no-write:{c}"));
            }
            Step::D => {
                if at_b { gate.release(b); need!(gate.wait_any(&[(a, sent)], WAIT).is_some(), "no-frame-after-deliver"); at_b = false; }
            }
            Step::T(c) => {
                srv.gone.insert(*c);
                if kind == "tcp" {
                    need!(gate.wait_any(&[((Actor::Caller(*c), "timeout"), 1)], WAIT).is_some(), format!("no-timeout:{c}"));
                    gate.release((Actor::Caller(*c), "timeout"));
                }
                need!(pump(rx, outs, |o| o.contains_key(c), WAIT), format!("no-outcome-after-timeout:{c}"));
            }
            Step::C(c) => {
                srv.gone.insert(*c);
                if let Some(Handle::Task(ah)) = handles.get(c) { ah.abort(); }
                need!(pump(rx, outs, |o| o.contains_key(c), WAIT), format!("no-outcome-after-cancel:{c}"));
            }
            _ => {
                if at_b { gate.release(b); need!(gate.wait_any(&[(a, sent)], WAIT).is_some(), "no-frame-after-deliver"); at_b = false; }
                let fr = server_frame(srv, st);
                need!(fr.is_some(), "server-cannot-name-request");
                srv.send(fr.unwrap()); srv.send(sentinel()); sent += 2;
                gate.release(a);                                  // the previous sentinel is dropped
                need!(gate.wait_any(&[(a, sent - 1)], WAIT).is_some(), "frame-not-taken");
                gate.release(a);                                  // the frame is routed
                match gate.wait_any(&[(b, nb + 1), (a, sent)], WAIT) {
                    Some(0) => { nb += 1; at_b = true; }
                    Some(_) => {}
                    None => { gate.problem("frame-not-routed".into()); return; }
                }
            }
        }
    }
    if at_b { gate.release(b); let _ = gate.wait_any(&[(a, sent)], WAIT); }
}

/// A barrier whose participants spin: all of them see the last arrival within a few cache-line
/// transfers and go on at the same instant (a futex barrier wakes its sleepers one after the other,
/// microseconds apart).  After a few milliseconds of spinning a participant also yields, so that a
/// machine with fewer free cores than participants still makes progress.
struct SpinBarrier { n: usize, arrived: std::sync::atomic::AtomicUsize }
impl SpinBarrier {
    fn wait(&self, round: usize) {
        use std::sync::atomic::Ordering::SeqCst;
        self.arrived.fetch_add(1, SeqCst);
        let mut spins = 0u32;
        while self.arrived.load(SeqCst) < (round + 1) * self.n {
            std::hint::spin_loop();
            spins = spins.saturating_add(1);
            if spins > 200_000 { std::thread::yield_now(); }
        }
    }
}

/// mode=spin (blocking client): `w` threads on clones of the one client make `n / w` rounds of
/// calls; in every round all of them are released at the same instant (caller `r * w + j` is
/// thread j's call of round r) and the server answers the round in the scripted order.  A round
/// starts with an ordinary (sleeping) barrier, passed only after every call of the previous round
/// has returned (the order of the schedule), so that nobody burns a core while calls are still
/// out and every thread comes to the spin barrier freshly woken; the spin barrier then releases
/// them together.  After a round in which some call did not return its own response the threads
/// stop (the remaining callers report `b6`): the case has failed by then.
fn spin_run(cl: &Cl, srv: &mut Server, n: u64, w: u64, sched: &[Step], tx: &mpsc::Sender<(u64, String)>) {
    use std::sync::atomic::{AtomicBool, Ordering::SeqCst};
    let Cl::Tcp(client) = cl else { panic!("mode=spin: blocking client only") };
    let rounds = n / w;
    let park = Arc::new(std::sync::Barrier::new(w as usize));
    let bar = Arc::new(SpinBarrier { n: w as usize, arrived: Default::default() });
    let abort = Arc::new(AtomicBool::new(false));
    for j in 0..w {
        let (client, park, bar, abort, tx) = (client.clone(), park.clone(), bar.clone(), abort.clone(), tx.clone());
        std::thread::Builder::new().stack_size(256 * 1024).spawn(move || {
            let mut r = 0;
            while r < rounds {
                let c = r * w + j;
                let path = format!("/c{c}"); let body = json!({"tag": c}); let want = format!("g{c:x}");
                park.wait();
                bar.wait(r as usize);
                // written before the barriers by whoever saw a wrong outcome: everybody reads the same value
                if abort.load(SeqCst) { break; }
                let o = guard(std::panic::AssertUnwindSafe(|| outcome(client.call_json_with_timeout(&path, &body, LONG)))).unwrap_or_else(|_| "b5".into());
                if o != want { abort.store(true, SeqCst); }
                let _ = tx.send((c, o));
                r += 1;
            }
            for r in r..rounds { let _ = tx.send((r * w + j, "b6".into())); }
        }).expect("spawn");
    }
    // the server: before reading the next request, see that something is there to read (nothing
    // comes once the callers have stopped)
    for st in sched {
        if let Step::Reply(k, _) = st {
            if !srv.seen.contains_key(k) {
                if let Conn::Tcp(s) = &mut srv.conn {
                    s.set_read_timeout(Some(Duration::from_millis(100))).ok();
                    let t0 = Instant::now(); let mut some = false; let mut b = [0u8; 1];
                    while !abort.load(SeqCst) && t0.elapsed() < WAIT + LONG {
                        match s.peek(&mut b) { Ok(0) => break, Ok(_) => { some = true; break; } Err(_) => {} }   // Err: nothing within 100 ms
                    }
                    s.set_read_timeout(Some(WAIT)).ok();
                    if !some { break; }
                }
            }
        }
        if let Some(fr) = server_frame(srv, st) { srv.send(fr); }
        if srv.err.is_some() { break; }
    }
}

fn run_inner(kind: &str, mode: &str, n: u64, sched: &[Step], f: &HashMap<String, String>) -> String {
    let gate = Gate::new(mode == "probe");
    *GATE.lock().unwrap() = Some(gate.clone());
    let Setup { cl, mut srv, sub } = match setup(kind) { Ok(s) => s, Err(e) => return format!("crash=setup:{}", e.replace(' ', "_")) };
    let (tx, rx) = mpsc::channel::<(u64, String)>();
    let mut outs: HashMap<u64, String> = HashMap::new();
    match mode {
        "par" => {
            let barrier = if kind == "tcp" { Some(Arc::new(std::sync::Barrier::new(n as usize))) } else { None };
            for c in 0..n { spawn_caller(&cl, c, LONG, tx.clone(), barrier.clone()); }
            for c in 0..n { if srv.need(c).is_none() { break; } }
            // stall=<i>:<off>:<ms> (harness-only): the i-th frame of the script leaves in two pieces,
            // <off> bytes, then nothing for <ms> milliseconds, then the rest
            let stall: Option<(usize, usize, u64)> = f.get("stall").map(|v| { let t: Vec<u64> = v.split(':').map(hx).collect(); (t[0] as usize, t[1] as usize, t[2]) });
            let mut nframe = 0usize;
            for st in sched {
                if let Some(fr) = server_frame(&mut srv, st) {
                    match stall {
                        Some((i, off, ms)) if i == nframe => { if let Err(e) = srv.conn.send_stalled(fr, off, Duration::from_millis(ms)) { srv.err.get_or_insert(format!("server-send:{e}")); } }
                        _ => srv.send(fr),
                    }
                    nframe += 1;
                }
            }
        }
        "spin" => spin_run(&cl, &mut srv, n, hx(&f["w"]), sched, &tx),
        // batcht: the same with a short per-call timeout; entries that the script times out (T:k) are
        // never answered, the others are answered as their requests arrive
        "batch" | "batcht" => {
            let btmo = if mode == "batcht" { Duration::from_millis(300) } else { LONG };
            let reqs: Vec<(String, Value)> = (0..n).map(|i| (format!("/b{i}"), json!({"tag": i}))).collect();
            let tx2 = tx.clone();
            let report = move |res: Vec<Result<Value, RepeError>>| { for (i, r) in res.into_iter().enumerate() { let _ = tx2.send((i as u64, outcome(r))); } };
            match cl.clone() {
                Cl::Tcp(c) => { std::thread::spawn(move || report(c.batch_json_with_timeout(reqs, btmo))); }
                Cl::Async(c) => { rt().spawn(async move { report(c.batch_json_with_timeout(reqs, btmo).await) }); }
                Cl::Ws(c) => { rt().spawn(async move { report(c.batch_json_with_timeout(reqs, btmo).await) }); }
            }
            // burst=1 (harness-only): the same frames in the same order, but the server hands them to
            // the connection in as few writes as possible: frames are collected while the requests
            // they answer have been read already and leave together, at the latest when the server
            // has to read on (many responses reach the client at the same moment)
            let burst = f.contains_key("burst");
            let mut held: Vec<u8> = Vec::new();
            for st in sched {
                if let Step::Reply(k, _) | Step::Notify(k, _) = st { if !srv.seen.contains_key(k) && !held.is_empty() { srv.send(std::mem::take(&mut held)); } }
                if let Some(fr) = server_frame(&mut srv, st) { if burst { held.extend_from_slice(&fr); } else { srv.send(fr); } }
            }
            if !held.is_empty() { srv.send(held); }
            // the unanswered entries end by their own timeout while the connection is still open
            if mode == "batcht" {
                pump(&rx, &mut outs, |o| o.len() as u64 >= n, Duration::from_secs(6));
                // every entry was written by now: read the requests nobody answered too (for `ids`)
                while (srv.seen.len() as u64) < n { if !srv.read_one() { break; } }
            }
        }
        _ => probe_run(kind, &cl, &mut srv, &gate, sched, &tx, &rx, &mut outs),
    }
    gate.open();
    srv.conn.finish();
    pump(&rx, &mut outs, |o| o.len() as u64 >= n, LONG + Duration::from_secs(2));
    let mut subs: Vec<u64> = Vec::new();
    if let Some(mut sub) = sub {
        let closed = rt().block_on(async {
            loop {
                match tokio::time::timeout(WAIT, sub.recv()).await {
                    Ok(Some(m)) => subs.push(m.json_body::<Value>().ok().and_then(|v| v.get("tag").and_then(|t| t.as_u64())).unwrap_or(u64::MAX >> 4)),
                    Ok(None) => return true,
                    Err(_) => return false,
                }
            }
        });
        if !closed { gate.problem("subscriber-stream-did-not-end".into()); }
    }
    *GATE.lock().unwrap() = None;
    drop(cl);
    // ids of the requests of counter-issued calls (caller-supplied ids may legitimately repeat)
    let counter: std::collections::HashSet<u64> = sched.iter().filter_map(|s| if let Step::R(c) = s { Some(*c) } else { None }).collect();
    let mut ids: Vec<u64> = srv.seen.iter().filter(|(tag, _)| counter.contains(tag)).map(|(_, id)| *id).collect(); ids.sort();
    let mut problems = gate.problems();
    if let Some(e) = &srv.err { problems.push(e.clone()); }
    let out: Vec<String> = (0..n).map(|c| outs.get(&c).cloned().unwrap_or_else(|| "b4".into())).collect();
    let list = |v: &[u64]| if v.is_empty() { "-".to_string() } else { v.iter().map(|x| format!("{x:x}")).collect::<Vec<_>>().join(".") };
    format!("out={} sub={} ids={} gate={}", out.join(","), list(&subs), list(&ids),
            if problems.is_empty() { "ok".to_string() } else { problems.join("+").replace([' ', '\t'], "_") })
}

fn run_case(line: &str) -> String {
    let f = fields(line);
    let kind = f["k"].clone(); let mode = f["mode"].clone(); let n = hx(&f["n"]);
    let sched: Vec<Step> = if f["sched"] == "-" { vec![] } else { f["sched"].split(';').map(parse_step).collect() };
    NO_SUB.store(f.get("sub").map(|v| v == "0").unwrap_or(false), std::sync::atomic::Ordering::SeqCst);
    DROPPED_SUB.store(f.get("sub").map(|v| v == "d").unwrap_or(false), std::sync::atomic::Ordering::SeqCst);
    // rep=<r> (harness-only): the case is run up to r times, each time on a fresh connection and a
    // fresh client; ONE of these observations is reported: that of the first run in which some
    // caller's outcome is not its own response (`g<c>` for caller c), or else that of the last run.
    // (Which run is reported is only a choice among genuine observations of this case; it is judged
    // by the model and the oracle like any other.)
    let rep = f.get("rep").map(|v| hx(v)).unwrap_or(1).max(1);
    let own = (0..n).map(|c| format!("g{c:x}")).collect::<Vec<_>>().join(",");
    let mut obs = String::new();
    for _ in 0..rep {
        obs = guard(std::panic::AssertUnwindSafe(|| run_inner(&kind, &mode, n, &sched, &f))).unwrap_or_else(|_| "crash=panic".into());
        if fields(&obs).get("out") != Some(&own) { break; }
    }
    obs
}

// ---------------------------------------------------------------- case generation

fn render(kind: &str, mode: &str, n: u64, sched: &[Step]) -> String {
    format!("k={kind} mode={mode} n={n:x} sched={}", if sched.is_empty() { "-".into() } else { sched.iter().map(show_step).collect::<Vec<_>>().join(";") })
}
fn prefix(n: u64) -> Vec<Step> { (0..n).flat_map(|c| [Step::R(c), Step::W(c)]).collect() }

fn permutations(n: usize) -> Vec<Vec<u64>> {
    fn go(cur: &mut Vec<u64>, used: &mut Vec<bool>, n: usize, out: &mut Vec<Vec<u64>>) {
        if cur.len() == n { out.push(cur.clone()); return; }
        for i in 0..n { if !used[i] { used[i] = true; cur.push(i as u64); go(cur, used, n, out); cur.pop(); used[i] = false; } }
    }
    let mut out = vec![]; go(&mut vec![], &mut vec![false; n], n, &mut out); out
}

/// replies in the given order (callers in `skip` are never answered); with `inject`, unknown-id,
/// duplicate and (WebSocket) notify frames in between
fn script(rng: &mut Rng, ws: bool, n: u64, order: &[u64], inject: bool) -> Vec<Step> {
    let mut s = prefix(n);
    let mut nrep = vec![0u64; n as usize];
    let mut v = 0u64;
    let mut injected = 0;
    let inj = |rng: &mut Rng, s: &mut Vec<Step>, nrep: &mut Vec<u64>, v: &mut u64, answered: &[u64]| {
        *v += 1;
        let unknown_ids = [0u64, n + 1, n + 2 + rng.below(50), (1u64 << 40) + rng.below(1000), (1u64 << 62) + 5];
        match rng.below(if ws { 5 } else { 3 }) {
            0 | 1 => s.push(Step::Unknown(*rng.pick(&unknown_ids), *v)),
            2 => {
                if answered.is_empty() { s.push(Step::Unknown(*rng.pick(&unknown_ids), *v)); }
                else { let k = *rng.pick(answered); s.push(Step::Reply(k, nrep[k as usize])); nrep[k as usize] += 1; }
            }
            3 => s.push(Step::Notify(rng.below(n), *v)),
            _ => s.push(Step::NotifyRaw(*rng.pick(&[0u64, 1, n, n + 1, 1 << 41]), *v)),
        }
    };
    let mut answered: Vec<u64> = vec![];
    for (i, k) in order.iter().enumerate() {
        if inject {
            let force = injected == 0 && i + 1 == order.len();
            while force && injected == 0 || rng.chance(1, 3) { inj(rng, &mut s, &mut nrep, &mut v, &answered); injected += 1; if injected > 3 * order.len() + 3 { break; } }
        }
        s.push(Step::Reply(*k, nrep[*k as usize])); nrep[*k as usize] += 1; answered.push(*k);
    }
    if inject { while rng.chance(1, 2) { inj(rng, &mut s, &mut nrep, &mut v, &answered); } }
    s
}

fn shuffle(rng: &mut Rng, v: &mut [u64]) { for i in (1..v.len()).rev() { let j = rng.below(i as u64 + 1) as usize; v.swap(i, j); } }

fn batch_cap() -> u64 {
    let p = std::thread::available_parallelism().map(|c| c.get()).unwrap_or(1);
    p.saturating_mul(4).clamp(1, 64) as u64
}

/// a reply order that a batch with `window` requests in flight can produce
fn batch_script(rng: &mut Rng, n: u64, window: u64) -> Vec<Step> {
    let mut s = prefix(n);
    let mut inflight: Vec<u64> = (0..n.min(window)).collect();
    let mut next = inflight.len() as u64; let mut v = 0u64;
    while !inflight.is_empty() {
        if rng.chance(1, 8) { v += 1; s.push(Step::Unknown(*rng.pick(&[0u64, n + 1, 1 << 40]), v)); }
        let i = rng.below(inflight.len() as u64) as usize;
        let k = inflight.swap_remove(i);
        s.push(Step::Reply(k, 0));
        if next < n { inflight.push(next); next += 1; }
    }
    s
}

/// a schedule sampled from the enabled steps of the model (mirrored here; the driver re-checks
/// enabledness with the extracted model and rejects the case otherwise)
fn probe_script(rng: &mut Rng, kind: &str, n: u64) -> Vec<Step> {
    let ws = kind == "ws"; let n_us = n as usize;
    let mut phase = vec![0u8; n_us]; let mut fin = vec![false; n_us]; let mut pending = vec![false; n_us];
    let mut nrep = vec![0u64; n_us]; let mut matched: Option<usize> = None; let mut next_id = 1u64; let mut v = 0u64;
    let desig: Vec<bool> = (0..n_us).map(|_| rng.chance(1, 4)).collect();
    let mut s: Vec<Step> = vec![];
    let target = rng.range(4, 18) as usize;
    fn flush(matched: &mut Option<usize>, fin: &mut [bool]) { if let Some(m) = matched.take() { fin[m] = true; } }
    loop {
        let blocked = matches!(matched, Some(m) if desig[m] && !fin[m]);
        let mut cand: Vec<Step> = vec![];
        for c in 0..n_us {
            let cu = c as u64;
            if phase[c] == 0 { cand.push(Step::R(cu)); cand.push(Step::R(cu)); }
            if phase[c] == 1 && !fin[c] { cand.push(Step::W(cu)); cand.push(Step::W(cu)); }
            if phase[c] == 2 && !fin[c] && desig[c] { cand.push(Step::T(cu)); }
            if phase[c] == 2 && !fin[c] && !desig[c] && kind != "tcp" && rng.chance(1, 6) { cand.push(Step::C(cu)); }
            if !blocked && phase[c] == 2 && nrep[c] < 3 { cand.push(Step::Reply(cu, nrep[c])); if nrep[c] == 0 { cand.push(Step::Reply(cu, 0)); } }
            if !blocked && ws && phase[c] == 2 { cand.push(Step::Notify(cu, v + 1)); }
        }
        if !blocked {
            cand.push(Step::Unknown(*rng.pick(&[0u64, next_id, next_id, next_id + 1, (1 << 40) + 3]), v + 1));
            if ws { cand.push(Step::NotifyRaw(*rng.pick(&[0u64, 1, next_id, 1 << 41]), v + 1)); }
            if matched.is_some() { cand.push(Step::D); cand.push(Step::D); }
        }
        let done = s.len() >= target;
        if done || cand.is_empty() { break; }
        let st = rng.pick(&cand).clone();
        match &st {
            Step::R(c) => { phase[*c as usize] = 1; pending[*c as usize] = true; next_id += 1; }
            Step::W(c) => { phase[*c as usize] = 2; }
            Step::T(c) | Step::C(c) => { fin[*c as usize] = true; pending[*c as usize] = false; }
            Step::D => flush(&mut matched, &mut fin),
            Step::Reply(k, _) => { flush(&mut matched, &mut fin); let k = *k as usize; nrep[k] += 1; if pending[k] { pending[k] = false; matched = Some(k); } }
            Step::Unknown(..) | Step::Notify(..) | Step::NotifyRaw(..) => { flush(&mut matched, &mut fin); v += 1; }
            Step::F(..) | Step::Fn(..) | Step::BurnStart | Step::BurnEnd => {}
        }
        s.push(st);
    }
    for c in 0..n_us {
        let cu = c as u64;
        if phase[c] == 0 { s.push(Step::R(cu)); phase[c] = 1; }
        if phase[c] == 1 && !fin[c] { s.push(Step::W(cu)); phase[c] = 2; }
    }
    for c in 0..n_us { if desig[c] && !fin[c] { s.push(Step::T(c as u64)); fin[c] = true; } }
    s
}

/// AsyncClient: n0 counter calls in flight (ids 1..n0 in registration order), then
/// forward_message calls with (a) an in-flight id, (b) a free id, (c) a free id that the counter
/// reaches next (the next counter call is refused, the one after it is fine), (d) a notify
/// message, (e) the id of a forward that is itself in flight; then replies in a shuffled order.
/// Returns (total number of callers, schedule).
fn fwd_script(rng: &mut Rng, n0: u64) -> (u64, Vec<Step>) {
    let mut s: Vec<Step> = vec![];
    let mut order: Vec<u64> = (0..n0).collect(); shuffle(rng, &mut order);
    let mut unwritten: Vec<u64> = vec![];
    for c in &order { s.push(Step::R(*c)); if rng.chance(2, 3) { s.push(Step::W(*c)); } else { unwritten.push(*c); } }
    for c in unwritten { s.push(Step::W(c)); }
    let mut next_id = n0 + 1; let mut c = n0;
    let mut written: Vec<u64> = (0..n0).collect();
    let mut fwd_ids: Vec<u64> = vec![];          // ids of accepted forwards (all still in flight)
    let nf = rng.range(1, 5);
    for j in 0..nf {
        let class = if j == 0 { rng.below(3) } else { rng.below(5) };
        match class {
            0 => { s.push(Step::F(c, rng.range(1, n0))); c += 1; }
            1 => { let id = 1000 + 16 * c + rng.below(16); s.push(Step::F(c, id)); s.push(Step::W(c)); written.push(c); fwd_ids.push(id); c += 1; }
            2 => {
                s.push(Step::F(c, next_id)); s.push(Step::W(c)); written.push(c); fwd_ids.push(next_id); c += 1;
                s.push(Step::R(c)); next_id += 1; c += 1;                       // refused: its id is pending
                if rng.chance(2, 3) { s.push(Step::R(c)); s.push(Step::W(c)); written.push(c); next_id += 1; c += 1; }
            }
            3 => { s.push(Step::Fn(c)); c += 1; }
            _ => { if let Some(id) = fwd_ids.last() { s.push(Step::F(c, *id)); c += 1; } else { s.push(Step::F(c, rng.range(1, n0))); c += 1; } }
        }
    }
    shuffle(rng, &mut written);
    if rng.chance(1, 5) { let keep = rng.below(written.len() as u64) as usize; written.truncate(keep); }
    let mut v = 0u64;
    for (i, k) in written.iter().enumerate() {
        if rng.chance(1, 5) { v += 1; s.push(Step::Unknown(*rng.pick(&[0u64, next_id, 5000 + v]), v)); }
        s.push(Step::Reply(*k, 0));
        if rng.chance(1, 6) { s.push(Step::Reply(written[rng.below(i as u64 + 1) as usize], 1 + i as u64)); }
    }
    (c, s)
}

/// AsyncClient with id reuse: forwards (and counter calls) that register an id used before by a
/// call that is finished or matched-but-undelivered, the first call then timing out or being
/// cancelled.  The server never answers a request whose id now belongs to another call.
fn reuse_script(rng: &mut Rng) -> (u64, Vec<Step>) {
    #[derive(Clone)] struct Cs { id: u64, fin: bool, desig: bool, nrep: u64 }
    let mut cs: Vec<Cs> = vec![];                               // every caller here is registered and written
    let mut pending: HashMap<u64, usize> = HashMap::new();
    let mut matched: Option<usize> = None;
    let mut next_id = 1u64; let mut v = 0u64; let mut nall = 0u64;    // nall counts refused callers too
    let mut tags: Vec<u64> = vec![];                            // caller tag of cs[i]
    let mut s: Vec<Step> = vec![];
    let target = rng.range(6, 18) as usize;
    fn flush(matched: &mut Option<usize>, cs: &mut [Cs]) { if let Some(m) = matched.take() { cs[m].fin = true; } }
    let mut guard = 0;
    while s.len() < target && nall < 9 && guard < 200 {
        guard += 1;
        let blocked = matches!(matched, Some(m) if cs[m].desig && !cs[m].fin);
        match rng.below(10) {
            0 | 1 => {   // a counter call
                if let Some(o) = pending.get(&next_id) { if cs[*o].desig { continue; } s.push(Step::R(nall)); nall += 1; next_id += 1; continue; }
                let desig = rng.chance(1, 3);
                s.push(Step::R(nall)); s.push(Step::W(nall));
                pending.insert(next_id, cs.len()); cs.push(Cs { id: next_id, fin: false, desig, nrep: 0 }); tags.push(nall); nall += 1; next_id += 1;
            }
            2 | 3 | 4 => {   // a forward: reuse an id that is no longer pending, hit a pending one, take the counter's next, or a new one
                let free_used: Vec<u64> = cs.iter().filter(|c| !pending.contains_key(&c.id)).map(|c| c.id).collect();
                let pend_nodesig: Vec<u64> = pending.iter().filter(|(_, o)| !cs[**o].desig).map(|(i, _)| *i).collect();
                let id = match rng.below(6) {
                    0 | 1 | 2 if !free_used.is_empty() => *rng.pick(&free_used),
                    3 if !pend_nodesig.is_empty() => { let mut p = pend_nodesig.clone(); p.sort(); *rng.pick(&p) }
                    4 => next_id,
                    _ => 2000 + nall,
                };
                if let Some(o) = pending.get(&id) { if cs[*o].desig { continue; } s.push(Step::F(nall, id)); nall += 1; continue; }
                let desig = id != next_id && rng.chance(1, 4);
                s.push(Step::F(nall, id)); s.push(Step::W(nall));
                pending.insert(id, cs.len()); cs.push(Cs { id, fin: false, desig, nrep: 0 }); tags.push(nall); nall += 1;
            }
            5 | 6 | 7 => {   // a reply, only where the id is not another call's
                if blocked || cs.is_empty() { continue; }
                let k = rng.below(cs.len() as u64) as usize;
                if cs[k].nrep >= 2 { continue; }
                if let Some(o) = pending.get(&cs[k].id) { if *o != k { continue; } }
                flush(&mut matched, &mut cs);
                s.push(Step::Reply(tags[k], cs[k].nrep)); cs[k].nrep += 1;
                if pending.get(&cs[k].id) == Some(&k) { pending.remove(&cs[k].id); matched = Some(k); }
            }
            8 => {
                if blocked { continue; }
                if matched.is_some() && rng.chance(1, 2) { flush(&mut matched, &mut cs); s.push(Step::D); }
                else { flush(&mut matched, &mut cs); v += 1; s.push(Step::Unknown(3000 + v, v)); }
            }
            _ => {   // a call gives up
                let cand: Vec<usize> = (0..cs.len()).filter(|i| !cs[*i].fin).collect();
                if cand.is_empty() { continue; }
                let k = *rng.pick(&cand);
                s.push(if cs[k].desig { Step::T(tags[k]) } else { Step::C(tags[k]) });
                cs[k].fin = true;
                if pending.get(&cs[k].id) == Some(&k) { pending.remove(&cs[k].id); }
            }
        }
    }
    for k in 0..cs.len() { if cs[k].desig && !cs[k].fin { s.push(Step::T(tags[k])); cs[k].fin = true; if pending.get(&cs[k].id) == Some(&k) { pending.remove(&cs[k].id); } } }
    if matched.is_some() { s.push(Step::D); flush(&mut matched, &mut cs); }
    // answer whoever can still be answered
    for k in 0..cs.len() { if !cs[k].fin && pending.get(&cs[k].id) == Some(&k) && rng.chance(3, 4) { s.push(Step::Reply(tags[k], cs[k].nrep)); pending.remove(&cs[k].id); cs[k].fin = true; } }
    (nall.max(1), s)
}

fn gen_cases(seed: u64, thorough: bool) -> Vec<String> {
    let mut rng = Rng::new(seed);
    let mut cases = Vec::new();
    let kinds = ["tcp", "async", "ws"];
    // exhaustive reply orders, each with and without injected frames
    let maxn = if thorough { 6 } else { 4 };
    for kind in kinds {
        for n in 1..=maxn {
            for p in permutations(n) {
                cases.push(render(kind, "par", n as u64, &script(&mut rng, kind == "ws", n as u64, &p, false)));
                cases.push(render(kind, "par", n as u64, &script(&mut rng, kind == "ws", n as u64, &p, true)));
                // the same on a WebSocket client nobody subscribed on: injected notifications (some
                // reuse an in-flight id) are dropped, never handed to a caller
                if kind == "ws" && n <= 3 { cases.push(format!("{} sub=0", render(kind, "par", n as u64, &script(&mut rng, true, n as u64, &p, true)))); }
            }
        }
    }
    // random orders, some callers never answered
    let (big, nrand) = if thorough { (64, 400) } else { (16, 60) };
    for kind in kinds {
        for i in 0..nrand {
            let n = if i % 10 == 0 { big } else { rng.range(5, big) };
            let mut order: Vec<u64> = (0..n).collect(); shuffle(&mut rng, &mut order);
            if rng.chance(1, 4) { let keep = rng.range(0, n - 1) as usize; order.truncate(keep); }
            let inject = rng.chance(1, 2);
            let line = render(kind, "par", n, &script(&mut rng, kind == "ws", n, &order, inject));
            cases.push(if kind == "ws" && inject && i % 3 == 0 { format!("{line} sub=0") } else { line });
        }
    }
    // batch_json of 1..40 requests answered in shuffled order
    let reps = if thorough { 5 } else { 1 };
    for kind in kinds {
        for n in (1..=40u64).chain([63u64, 64, 65, 66, 128, 129, 200]) {
            for _ in 0..reps {
                let window = if kind == "tcp" { batch_cap() } else { n };
                cases.push(render(kind, "batch", n, &batch_script(&mut rng, n, window)));
            }
        }
    }
    // batches in which the first entries are never answered and time out while later ones are
    // served: every entry still gets its own result (a timeout or its own response)
    for kind in kinds {
        let w = if kind == "tcp" { batch_cap() } else { 8 };
        for extra in [1u64, 6] {
            let n = w + extra;
            let mut sched = prefix(n);
            let dead: Vec<u64> = (0..w).collect();
            for k in w..n { sched.push(Step::Reply(k, 0)); }
            for k in &dead { sched.push(Step::T(*k)); }
            cases.push(render(kind, "batcht", n, &sched));
        }
    }
    // model-sampled interleavings replayed through the probe points
    let nprobe = if thorough { 2000 } else { 200 };
    for kind in kinds {
        for i in 0..nprobe {
            let n = if i % 7 == 0 { 4 } else { rng.range(2, 3) };
            cases.push(render(kind, "probe", n, &probe_script(&mut rng, kind, n)));
        }
    }
    // a call whose body fails to serialize (Z ... z: harness-only steps, not model steps) while
    // other calls register, write and are answered: whatever that call drew is simply lost; the ids
    // of the calls that do reach the wire stay distinct and every call gets its own response
    for kind in kinds {
        cases.push(format!("k={kind} mode=probe n=2 sched=Z;R:0;W:0;z;R:1;W:1;r:0:0;D;r:1:0;D"));
        cases.push(format!("k={kind} mode=probe n=3 sched=R:0;W:0;Z;R:1;W:1;z;R:2;W:2;r:1:0;D;r:0:0;D;r:2:0;D"));
        cases.push(format!("k={kind} mode=probe n=2 sched=Z;z;R:0;W:0;R:1;W:1;r:1:0;D;r:0:0;D"));
        cases.push(format!("k={kind} mode=probe n=3 sched=Z;R:0;W:0;R:1;W:1;z;R:2;W:2;r:2:0;D;r:0:0;D;r:1:0;D"));
    }
    // forward_message with caller-supplied ids while calls are in flight (AsyncClient only)
    let nfwd = if thorough { 1500 } else { 150 };
    for _ in 0..nfwd {
        let n0 = rng.range(1, 5);
        let (n, sched) = fwd_script(&mut rng, n0);
        cases.push(render("async", "probe", n, &sched));
    }
    // id reuse (AsyncClient): the defect repaired in /repo 76754fa and its neighbourhood
    cases.push("k=async mode=probe n=2 sched=R:0;W:0;r:0:0;F:1:1;W:1;T:0;D;r:1:0".to_string());
    cases.push("k=async mode=probe n=2 sched=R:0;W:0;r:0:0;F:1:1;W:1;C:0;D;r:1:0".to_string());
    cases.push("k=async mode=probe n=2 sched=F:0:1;W:0;r:0:0;R:1;W:1;C:0;D;r:1:0".to_string());
    let nreuse = if thorough { 1500 } else { 150 };
    for _ in 0..nreuse {
        let (n, sched) = reuse_script(&mut rng);
        cases.push(render("async", "probe", n, &sched));
    }
    // a response frame that reaches the client in two pieces with 0.7..1.4 s of silence in between
    // (the peer stalls inside the length prefix, the header, right after it, inside the query or the
    // body) while the other calls are in flight: the frame is read whole, every call gets its own
    // response (raw TCP clients; stall= is a harness-only switch, the case is an ordinary `par` case)
    let offs = [1u64, 8, 17, 24, 40, 47, 48, 49, 50, 51, 54, 0xffff];
    let nstall = if thorough { 12 } else { 4 };
    for kind in ["async", "tcp"] {
        for i in 0..(if kind == "async" { 2 * nstall } else { nstall }) {
            let n = rng.range(2, 6);
            let mut order: Vec<u64> = (0..n).collect(); shuffle(&mut rng, &mut order);
            let sched = script(&mut rng, false, n, &order, i % 2 == 1);
            let nframes = sched.iter().filter(|s| matches!(s, Step::Reply(..) | Step::Unknown(..))).count() as u64;
            // not the last frame: calls are still waiting behind the stalled one
            let which = rng.below(nframes - 1);
            let off = offs[(i as usize * 5 + (kind == "tcp") as usize * 3) % offs.len()];
            cases.push(format!("{} stall={which:x}:{off:x}:{:x}", render(kind, "par", n, &sched), rng.range(700, 1400)));
        }
    }
    // blocking client: w threads released from a spin barrier at the same instant, round after
    // round (mode=spin): every call gets its own response and all request ids are distinct
    let (nspin, rounds) = if thorough { (12, 200) } else { (SPIN_CASES, SPIN_ROUNDS) };
    for _ in 0..nspin {
        let w = SPIN_W;
        let mut sched: Vec<Step> = vec![];
        for r in 0..rounds {
            sched.extend((0..w).flat_map(|j| [Step::R(r * w + j), Step::W(r * w + j)]));
            let mut order: Vec<u64> = (0..w).map(|j| r * w + j).collect(); shuffle(&mut rng, &mut order);
            sched.extend(order.into_iter().map(|k| Step::Reply(k, 0)));
        }
        cases.push(format!("{} w={w:x}", render("tcp", "spin", w * rounds, &sched)));
    }
    // AsyncClient: a response frame that stalls for 2.3 s in the middle (inside the header; at the
    // start of the body) while the other calls are in flight: however long the peer is silent
    // inside a frame, the frame is read whole and every call gets its own response
    for (i, off) in [0x18u64, 0x32].into_iter().enumerate() {
        let n = 3 + i as u64;
        let mut order: Vec<u64> = (0..n).collect(); shuffle(&mut rng, &mut order);
        let sched = script(&mut rng, false, n, &order, false);
        cases.push(format!("{} stall={:x}:{off:x}:{:x}", render("async", "par", n, &sched), rng.below(n - 1), LONG_STALL_MS));
    }
    // blocking client: batches of 512 requests (64 workers at most, so every worker returns to the
    // shared queue several times, many of them at the same moment) against a server that answers
    // as the requests arrive and writes its responses in bursts (burst=1, a harness-only switch),
    // each case repeated on fresh connections (rep=, a harness-only switch): the result at
    // position i is the response to request i (ordinary `batch` cases, only larger)
    let nbig = if thorough { BIG_BATCH_CASES * 3 } else { BIG_BATCH_CASES };
    for i in 0..nbig {
        let w = batch_cap();
        // half of them answered the usual way (any request in flight next), half group by group:
        // the requests in flight together are answered together, in a shuffled order
        let sched = if i % 2 == 0 { batch_script(&mut rng, BIG_BATCH, w) } else {
            let mut s = prefix(BIG_BATCH);
            let mut lo = 0;
            while lo < BIG_BATCH { let hi = (lo + w).min(BIG_BATCH); let mut g: Vec<u64> = (lo..hi).collect(); shuffle(&mut rng, &mut g); s.extend(g.into_iter().map(|k| Step::Reply(k, 0))); lo = hi; }
            s
        };
        cases.push(format!("{} burst=1 rep={BIG_BATCH_REP:x}", render("tcp", "batch", BIG_BATCH, &sched)));
    }
    // WebSocket client whose notification subscriber went away (sub=d: subscribe_notifies(), then the
    // receiver is dropped without unsubscribe_notifies()): server-pushed notifications, the FIRST of
    // them reusing the id of a call in flight, are dropped, never handed to a caller (judged like the
    // client nobody subscribed on: nothing reaches a subscriber, every call gets its own response)
    for n in 1..=3usize {
        for p in permutations(n) {
            // (1) right after the requests, before any reply, then the usual injected frames
            let mut s1 = script(&mut rng, true, n as u64, &p, true);
            s1.insert(2 * n, Step::Notify(rng.below(n as u64), 0x100 + cases.len() as u64 % 0x100));
            cases.push(format!("{} sub=d", render("ws", "par", n as u64, &s1)));
            // (2) before the j-th reply, for a caller not answered yet; a second one later on
            let mut s2 = script(&mut rng, true, n as u64, &p, false);
            let j = rng.below(n as u64) as usize;
            let k = p[j + rng.below((n - j) as u64) as usize];
            let at = s2.iter().position(|st| matches!(st, Step::Reply(c, _) if *c == p[j])).unwrap();
            s2.insert(at, Step::Notify(k, 0x200 + cases.len() as u64 % 0x100));
            s2.push(Step::NotifyRaw(*rng.pick(&[0u64, 1, n as u64, 1 << 41]), 0x300));
            cases.push(format!("{} sub=d", render("ws", "par", n as u64, &s2)));
        }
    }
    cases.into_iter().enumerate().map(|(i, c)| format!("i={i} {c}")).collect()
}

fn main() {
    repe::verif_hooks::install(on_probe);
    let cases = if no_gen() { vec![] } else { gen_cases(seed(), is_thorough()) };
    isolated_main(cases, run_case, Duration::from_secs(60));
}
