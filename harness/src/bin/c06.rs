//! C06 correspondence: a dead or misbehaving connection fails calls promptly.
//!
//! One case = one client (blocking / async / WebSocket) connected to a scripted
//! fake server that the harness thread drives synchronously, plus a script of
//! events. The harness is the only scheduler: it starts calls one at a time,
//! makes the server answer, lets timeouts expire, cancels tasks, parks the
//! reader or a caller inside a probe point to force one interleaving, injects
//! one fault, and starts later calls. The observation is the final result
//! class of every call (`ok`, `wrong`, `timeout`, `conn`, `cancelled`,
//! `pending`, `hang`), the subscriber's view and whether the reader reached its
//! failure path.
//!
//! Events (`;`-separated, `c` = caller number, decimal):
//!   S:c   start call c without timeout; before a fault the server reads its request
//!   T:c   same with a 20 s per-call timeout (never expires inside a scenario)
//!   U:c   start call c, the server leaves the request unread (tcp/atcp)
//!   X:c   start call c with a short timeout, server reads it, never answers: wait for expiry
//!   XZ:c  the same with a 1 ns timeout (shorter than the write of the request itself)
//!   XA:c  (tcp) caller parked after its timeout fired, response delivered, then entry removed
//!   XB:c  reader parked holding c's entry, timeout expires, then the reader delivers
//!   XC:c  reader parked with c's frame before lookup, timeout expires, then the reader looks up
//!   R:c   server sends the response of c (late if c already returned); fenced
//!   C:c   (atcp/ws) abort the task of call c
//!   CB:c  reader parked holding c's entry, c aborted, then the reader delivers
//!   CC:c  reader parked with c's frame before lookup, c aborted, then lookup
//!   V     server sends a response with an id no call ever had; fenced
//!   N     (ws) server pushes a notification; the subscriber must receive it
//!   Q     record the subscriber's state (open / eos)
//!   W:c   start call c with an 8 MiB body towards a peer that does not read (stalled writer)
//!   F:k   inject fault k, wait for every call in flight
//!   P:k   inject fault k with the reader parked between shutdown and drain
//!   Z     release the parked reader, wait for every call in flight
//!   G:c   (atcp) residue probe: forward a message with the id of c; `dup` if still pending
//!
//! `q=1` (harness-only switch, ignored by the driver): the call that the script starts right after the
//! fault of a stalled-writer scenario (`W:b;F:k;S:c`) is started BEFORE the fault is injected, while
//! call b is stuck inside its frame write: c has passed its `before_write` probe and is queued on the
//! writer lock behind b at the moment the connection fails.  The property asks the same of a call in
//! flight at the failure as of a later call ("every call in flight on that client returns an error
//! and every later call on it returns an error rather than blocking forever"), so the model's verdict
//! for c (an error, within the watchdog) is unchanged.
use repe::{AsyncClient, Client, RepeError, WebSocketClient};
use repe_verif_harness::*;
use serde_json::{Value, json};
use std::collections::HashMap;
use std::io::Write;
use std::net::TcpStream;
use std::sync::mpsc;
use std::sync::{Condvar, Mutex, OnceLock};
use std::time::{Duration, Instant};
use tokio_tungstenite::tungstenite as tg;

const WATCHDOG: Duration = Duration::from_secs(5);
const SHORT_TMO: Duration = Duration::from_millis(150);
const LONG_TMO: Duration = Duration::from_secs(20);
const BIG_BODY: usize = 8 << 20;

// ---------------------------------------------------------------- probes
#[derive(Default)]
struct ProbeState { hits: HashMap<&'static str, u64>, park_at: Option<String>, parked: bool, release: bool }
fn probe() -> &'static (Mutex<ProbeState>, Condvar) {
    static P: OnceLock<(Mutex<ProbeState>, Condvar)> = OnceLock::new();
    P.get_or_init(|| (Mutex::new(ProbeState::default()), Condvar::new()))
}
fn on_probe(name: &'static str) {
    let (m, cv) = probe();
    let park = {
        let mut g = m.lock().unwrap_or_else(|p| p.into_inner());
        *g.hits.entry(name).or_default() += 1;
        let park = g.park_at.as_deref() == Some(name);
        if park { g.park_at = None; g.parked = true; g.release = false; }
        cv.notify_all();
        park
    };
    if !park { return; }
    let wait = || {
        let mut g = m.lock().unwrap_or_else(|p| p.into_inner());
        let deadline = Instant::now() + Duration::from_secs(30);
        while !g.release && Instant::now() < deadline {
            let (g2, _) = cv.wait_timeout(g, Duration::from_millis(100)).unwrap_or_else(|p| p.into_inner());
            g = g2;
        }
        g.parked = false;
        cv.notify_all();
    };
    // a parked tokio worker would also park the runtime's I/O and timer driver:
    // hand the worker's duties to another thread for the duration
    if tokio::runtime::Handle::try_current().is_ok() { tokio::task::block_in_place(wait) } else { wait() }
}
fn probe_reset() {
    let (m, cv) = probe();
    let mut g = m.lock().unwrap_or_else(|p| p.into_inner());
    g.hits.clear(); g.park_at = None; g.release = true;
    cv.notify_all();
}
fn arm(name: &str) { let (m, _) = probe(); let mut g = m.lock().unwrap_or_else(|p| p.into_inner()); g.park_at = Some(name.to_string()); g.release = false; }
fn disarm() { let (m, _) = probe(); let mut g = m.lock().unwrap_or_else(|p| p.into_inner()); g.park_at = None; }
fn release() { let (m, cv) = probe(); let mut g = m.lock().unwrap_or_else(|p| p.into_inner()); g.release = true; cv.notify_all(); }
fn hits(name: &str) -> u64 { let (m, _) = probe(); let g = m.lock().unwrap_or_else(|p| p.into_inner()); g.hits.iter().filter(|(k, _)| **k == name).map(|(_, v)| *v).sum() }
fn wait_cond(f: impl Fn(&ProbeState) -> bool, d: Duration) -> bool {
    let (m, cv) = probe();
    let mut g = m.lock().unwrap_or_else(|p| p.into_inner());
    let deadline = Instant::now() + d;
    loop {
        if f(&g) { return true; }
        let now = Instant::now();
        if now >= deadline { return false; }
        let (g2, _) = cv.wait_timeout(g, (deadline - now).min(Duration::from_millis(50))).unwrap_or_else(|p| p.into_inner());
        g = g2;
    }
}
fn wait_parked(d: Duration) -> bool { wait_cond(|s| s.parked, d) }
fn wait_hits(name: &str, n: u64, d: Duration) -> bool { let name = name.to_string(); wait_cond(move |s| s.hits.iter().filter(|(k, _)| **k == name).map(|(_, v)| *v).sum::<u64>() >= n, d) }

// ---------------------------------------------------------------- runtime
fn rt() -> &'static tokio::runtime::Runtime {
    static RT: OnceLock<tokio::runtime::Runtime> = OnceLock::new();
    RT.get_or_init(|| tokio::runtime::Builder::new_multi_thread().worker_threads(8).enable_all().build().unwrap())
}

// ---------------------------------------------------------------- raw frames
fn frame(notify: u8, id: u64, q: &[u8], b: &[u8]) -> Vec<u8> {
    let mut f = Vec::with_capacity(48 + q.len() + b.len());
    f.extend_from_slice(&((48 + q.len() + b.len()) as u64).to_le_bytes());
    f.extend_from_slice(&0x1507u16.to_le_bytes());
    f.push(1); f.push(notify);
    f.extend_from_slice(&0u32.to_le_bytes());
    f.extend_from_slice(&id.to_le_bytes());
    f.extend_from_slice(&(q.len() as u64).to_le_bytes());
    f.extend_from_slice(&(b.len() as u64).to_le_bytes());
    f.extend_from_slice(&1u16.to_le_bytes());
    f.extend_from_slice(&2u16.to_le_bytes());
    f.extend_from_slice(&0u32.to_le_bytes());
    f.extend_from_slice(q); f.extend_from_slice(b);
    f
}
fn put64(f: &mut [u8], off: usize, v: u64) { f[off..off + 8].copy_from_slice(&v.to_le_bytes()); }
fn expected_value(c: usize) -> Value { json!({"answer": c, "tag": format!("r{c}")}) }
fn response_for(c: usize, id: u64) -> Vec<u8> { frame(0, id, format!("/c{c}").as_bytes(), expected_value(c).to_string().as_bytes()) }

/// the bytes a fault sends (possibly none) and whether the connection is then
/// closed at once (`Some(rst)`) or left open (`None`) until the calls in flight returned
fn fault_bytes(kind: &str, id: u64) -> Option<(Vec<u8>, Option<bool>)> {
    let good = frame(0, id, b"/fault", br#"{"x":"0123456789abcdef0123456789abcdef"}"#);
    let n = good.len();
    Some(match kind {
        "close" => (vec![], Some(false)),
        "rst" => (vec![], Some(true)),
        "magic" => { let mut f = good; f[8] = 0x34; f[9] = 0x12; (f, None) }
        "lenmis" => { let mut f = good; put64(&mut f, 0, n as u64 + 7); (f, None) }
        "ovf" => { let mut f = good[..48].to_vec(); put64(&mut f, 24, u64::MAX - 20); put64(&mut f, 32, 100); put64(&mut f, 0, 48u64.wrapping_add(u64::MAX - 20).wrapping_add(100)); (f, None) }
        "big" => { let mut f = good[..48].to_vec(); put64(&mut f, 24, 0); put64(&mut f, 32, 1 << 62); put64(&mut f, 0, 48 + (1u64 << 62)); (f, None) }
        "trunch" => (good[..20].to_vec(), Some(false)),
        "trunch47" => (good[..47].to_vec(), Some(false)),
        "truncq0" => (good[..48].to_vec(), Some(false)),
        "truncq" => (good[..51].to_vec(), Some(false)),
        "truncb0" => (good[..48 + 6].to_vec(), Some(false)),
        "truncb" => (good[..48 + 6 + 11].to_vec(), Some(false)),
        "truncb1" => (good[..n - 1].to_vec(), Some(false)),
        "truncrst" => (good[..48 + 6 + 11].to_vec(), Some(true)),
        _ => return None,
    })
}

// ---------------------------------------------------------------- fake server
enum Srv { Tcp(TcpStream), Ws(Box<tg::WebSocket<TcpStream>>), Gone }
impl Srv {
    fn stream(&mut self) -> Option<&mut TcpStream> { match self { Srv::Tcp(s) => Some(s), Srv::Ws(w) => Some(w.get_mut()), Srv::Gone => None } }
    /// next request: (id, query)
    fn read_req(&mut self) -> Result<(u64, Vec<u8>), String> {
        let f = match self {
            Srv::Tcp(s) => net::read_raw_frame(s).map_err(|e| format!("read:{e}"))?,
            Srv::Ws(w) => loop {
                match w.read() { Ok(tg::Message::Binary(b)) => break b.to_vec(), Ok(_) => continue, Err(e) => return Err(format!("read:{e}")) }
            },
            Srv::Gone => return Err("gone".into()),
        };
        if f.len() < 48 { return Err("short".into()); }
        let id = u64::from_le_bytes(f[16..24].try_into().unwrap());
        let ql = u64::from_le_bytes(f[24..32].try_into().unwrap()) as usize;
        Ok((id, f[48..(48 + ql).min(f.len())].to_vec()))
    }
    fn send(&mut self, bytes: &[u8]) -> Result<(), String> {
        match self {
            Srv::Tcp(s) => s.write_all(bytes).map_err(|e| format!("send:{e}")),
            Srv::Ws(w) => w.send(tg::Message::Binary(bytes.to_vec())).map_err(|e| format!("send:{e}")),
            Srv::Gone => Err("gone".into()),
        }
    }
    fn close(&mut self, rst: bool) {
        if let Some(s) = self.stream() {
            if rst { let _ = socket2::SockRef::from(&*s).set_linger(Some(Duration::from_secs(0))); }
            else { let _ = s.shutdown(std::net::Shutdown::Both); }
        }
        *self = Srv::Gone;
    }
}

// ---------------------------------------------------------------- client under test
#[derive(Clone)]
enum Cl { Tcp(Client), A(AsyncClient), Ws(WebSocketClient) }

fn classify(c: usize, r: Result<Value, RepeError>) -> String {
    match r {
        Ok(v) => if v == expected_value(c) { "ok".into() } else { "wrong".into() },
        Err(RepeError::Io(e)) if e.kind() == std::io::ErrorKind::TimedOut && e.to_string().contains("timed out after") => "timeout".into(),
        Err(_) => "conn".into(),
    }
}

struct Run {
    prefix: &'static str, cl: Cl, srv: Srv,
    tx: mpsc::Sender<(usize, String)>, rx: mpsc::Receiver<(usize, String)>,
    started: Vec<usize>, done: HashMap<usize, String>, ids: HashMap<usize, u64>,
    tasks: HashMap<usize, tokio::task::JoinHandle<()>>,
    faulted: bool, window: bool, stalled: bool, next_fence: u64,
    sub: Option<tokio::sync::mpsc::UnboundedReceiver<repe::Message>>, nrecv: u64, subq: Vec<String>, sub_eos: bool,
    notes: Vec<String>, resid: Vec<String>, frames_sent: u64, got_base: u64,
    /// `keep=1`: after a fault that leaves the connection open the peer KEEPS it open (and keeps not reading)
    /// while the later calls are made; it is closed only at the end of the case
    keep: bool,
}

impl Run {
    fn p(&self, s: &str) -> String { format!("{}.{}", self.prefix, s) }
    fn note(&mut self, s: impl Into<String>) { let s = s.into(); if !self.notes.contains(&s) { self.notes.push(s); } }

    fn spawn_call(&mut self, c: usize, tmo: Option<Duration>, big: bool) {
        let tx = self.tx.clone();
        let path = format!("/c{c}");
        let body = json!({"c": c});
        self.started.push(c);
        match self.cl.clone() {
            Cl::Tcp(cl) => {
                std::thread::spawn(move || {
                    let r = guard(std::panic::AssertUnwindSafe(|| {
                        if big {
                            let blob = vec![0x5au8; BIG_BODY];
                            cl.call_with_formats(&path, 1, Some(&blob), 0).and_then(|m| m.json_body::<Value>())
                        } else { match tmo { Some(d) => cl.call_json_with_timeout(&path, &body, d), None => cl.call_json(&path, &body) } }
                    }));
                    let _ = tx.send((c, match r { Ok(r) => classify(c, r), Err(()) => "panic".into() }));
                });
            }
            Cl::A(cl) => {
                let h = rt().spawn(async move {
                    let r = if big {
                        let blob = vec![0x5au8; BIG_BODY];
                        cl.call_with_formats(&path, 1, Some(&blob), 0).await.and_then(|m| m.json_body::<Value>())
                    } else { match tmo { Some(d) => cl.call_json_with_timeout(&path, &body, d).await, None => cl.call_json(&path, &body).await } };
                    let _ = tx.send((c, classify(c, r)));
                });
                self.tasks.insert(c, h);
            }
            Cl::Ws(cl) => {
                let h = rt().spawn(async move {
                    let r = if big {
                        let blob = vec![0x5au8; BIG_BODY];
                        cl.call_with_formats(&path, 1, Some(&blob), 0).await.and_then(|m| m.json_body::<Value>())
                    } else { match tmo { Some(d) => cl.call_json_with_timeout(&path, &body, d).await, None => cl.call_json(&path, &body).await } };
                    let _ = tx.send((c, classify(c, r)));
                });
                self.tasks.insert(c, h);
            }
        }
    }

    fn pump(&mut self, d: Duration) -> bool {
        match self.rx.recv_timeout(d) { Ok((c, r)) => { self.done.entry(c).or_insert(r); true } Err(_) => false }
    }
    /// wait until call c returned; `hang` if the watchdog expires first
    fn wait_for(&mut self, c: usize) {
        let deadline = Instant::now() + WATCHDOG;
        while !self.done.contains_key(&c) {
            let now = Instant::now();
            if now >= deadline { self.done.insert(c, "hang".into()); return; }
            self.pump((deadline - now).min(Duration::from_millis(200)));
        }
    }
    fn wait_all(&mut self) {
        let deadline = Instant::now() + WATCHDOG;
        loop {
            let open: Vec<usize> = self.started.iter().copied().filter(|c| !self.done.contains_key(c)).collect();
            if open.is_empty() { return; }
            let now = Instant::now();
            if now >= deadline { for c in open { self.done.insert(c, "hang".into()); } return; }
            self.pump((deadline - now).min(Duration::from_millis(200)));
        }
    }

    /// the server reads the request of call c and remembers its id
    fn take_request(&mut self, c: usize) {
        match self.srv.read_req() {
            Ok((id, q)) => { if q != format!("/c{c}").as_bytes() { self.note(format!("srv-unexpected-query@{c}")); } self.ids.insert(c, id); }
            Err(e) => { self.note(format!("srv-noreq@{c}:{}", e.split(':').next().unwrap_or(""))); }
        }
    }
    fn send_counted(&mut self, bytes: &[u8]) { if self.srv.send(bytes).is_ok() { self.frames_sent += 1; } else { self.note("srv-send-failed"); } }
    /// an unsolicited response, then wait until the reader has looked at every frame sent so far
    fn fence(&mut self) {
        self.next_fence += 1;
        let f = frame(0, 0xF000_0000 + self.next_fence, b"/fence", b"null");
        self.send_counted(&f);
        let want = self.got_base + self.frames_sent;
        if !wait_hits(&self.p("reader.got_frame"), want, WATCHDOG) { self.note("fence-timeout"); }
    }

    fn start_normal(&mut self, c: usize, tmo: Option<Duration>) {
        self.spawn_call(c, tmo, false);
        if self.faulted || self.window || self.stalled { if !self.stalled || self.faulted || self.window { self.wait_for(c); } }
        else { self.take_request(c); }
    }

    /// `q=1`: start call c while the stalled call holds the writer: it passes its `before_write`
    /// probe and then waits for the writer lock; nothing of it can reach the wire, so it cannot return
    /// before the fault
    fn start_queued(&mut self, c: usize, tmo: Option<Duration>) {
        self.spawn_call(c, tmo, false);
        if !wait_hits(&self.p("before_write"), self.started.len() as u64, WATCHDOG) { self.note("no-before-write"); }
        // the lock is requested in the same poll / a few instructions after the probe
        std::thread::sleep(Duration::from_millis(100));
        if self.done.contains_key(&c) || { self.pump(Duration::from_millis(1)); self.done.contains_key(&c) } { self.note("cov-miss"); }
    }

    fn abort(&mut self, c: usize) {
        if let Some(h) = self.tasks.remove(&c) {
            h.abort();
            let r = rt().block_on(async { tokio::time::timeout(WATCHDOG, h).await });
            match r {
                Ok(Err(e)) if e.is_cancelled() => { self.done.entry(c).or_insert("cancelled".into()); }
                Ok(_) => { self.wait_for(c); }
                Err(_) => { self.done.entry(c).or_insert("hang".into()); }
            }
        } else { self.note("abort-without-task"); }
    }

    fn sub_state(&mut self) -> String {
        let Some(rx) = self.sub.as_mut() else { return "none".into() };
        if self.sub_eos { return "eos".into(); }
        loop {
            match rx.try_recv() {
                Ok(_) => { self.nrecv += 1; }
                Err(tokio::sync::mpsc::error::TryRecvError::Empty) => return "open".into(),
                Err(tokio::sync::mpsc::error::TryRecvError::Disconnected) => { self.sub_eos = true; return "eos".into(); }
            }
        }
    }
    /// after the reader is known to have passed its shutdown step the stream must end promptly
    fn sub_wait_eos(&mut self) -> String {
        let Some(rx) = self.sub.as_mut() else { return "none".into() };
        if self.sub_eos { return "eos".into(); }
        let mut n = 0u64;
        let ended = rt().block_on(async { tokio::time::timeout(WATCHDOG, async { while rx.recv().await.is_some() { n += 1; } }).await.is_ok() });
        self.nrecv += n;
        if ended { self.sub_eos = true; "eos".into() } else { "open".into() }
    }

    fn inject(&mut self, kind: &str) -> Option<bool> {
        // returns the deferred close mode for malformed frames that leave the connection open
        let id = 0xE000_0001;
        match kind {
            "wsclose" => { if let Srv::Ws(w) = &mut self.srv { let _ = w.close(None); let _ = w.flush(); } None }
            "text" => { if let Srv::Ws(w) = &mut self.srv { let _ = w.send(tg::Message::Text("not a repe frame".into())); } None }
            // complete but invalid WebSocket frames written below the tungstenite server:
            // reserved bits set; a masked frame from the server; an unknown control opcode
            "wsrsv" | "wsmask" | "wsop" => {
                let bytes: &[u8] = match kind { "wsrsv" => &[0xf2, 0x00], "wsmask" => &[0x82, 0x81, 1, 2, 3, 4, 0x55], _ => &[0x8f, 0x00] };
                if let Some(s) = self.srv.stream() { let _ = s.write_all(bytes); let _ = s.flush(); }
                None
            }
            _ => {
                let Some((bytes, close)) = fault_bytes(kind, id) else { self.note("unknown-fault"); return None };
                if !bytes.is_empty() {
                    match &mut self.srv {
                        Srv::Ws(w) => { let _ = w.send(tg::Message::Binary(bytes)); }
                        Srv::Tcp(s) => { let _ = s.write_all(&bytes); let _ = s.flush(); }
                        Srv::Gone => {}
                    }
                }
                if let Some(rst) = close { self.srv.close(rst); }
                None
            }
        }
    }

    fn event(&mut self, ev: &str) {
        let (op, arg) = ev.split_once(':').unwrap_or((ev, ""));
        let c: usize = arg.parse().unwrap_or(0);
        match op {
            "S" => self.start_normal(c, None),
            "T" => self.start_normal(c, Some(LONG_TMO)),
            "U" => {
                self.spawn_call(c, None, false);
                if self.faulted || self.window { self.wait_for(c); }
                else if !wait_hits(&self.p("before_write"), self.started.len() as u64, WATCHDOG) { self.note("no-before-write"); }
                else { self.settle_unread(); }
            }
            // XZ: the same with a timeout shorter than the request write itself (1 ns)
            "X" | "XZ" => {
                self.spawn_call(c, Some(if op == "XZ" { Duration::from_nanos(1) } else { SHORT_TMO }), false);
                if !(self.faulted || self.window) { self.take_request(c); }
                self.wait_for(c);
            }
            "XA" => {
                arm(&self.p("timeout.before_remove"));
                self.spawn_call(c, Some(SHORT_TMO), false);
                self.take_request(c);
                let parked = wait_parked(WATCHDOG);
                if !parked { self.note("cov-miss"); }
                if let Some(id) = self.ids.get(&c).copied() { let r = response_for(c, id); self.send_counted(&r); self.fence(); }
                disarm(); release();
                self.wait_for(c);
            }
            "XB" | "XC" => {
                self.spawn_call(c, Some(Duration::from_millis(400)), false);
                self.take_request(c);
                arm(&self.p(if op == "XB" { "reader.before_deliver" } else { "reader.got_frame" }));
                if let Some(id) = self.ids.get(&c).copied() { let r = response_for(c, id); self.send_counted(&r); }
                let parked = wait_parked(Duration::from_secs(2));
                self.wait_for(c);
                if !parked { self.note("cov-miss"); }
                disarm(); release();
                self.fence();
            }
            "R" => {
                match self.ids.get(&c).copied() {
                    Some(id) => { let r = response_for(c, id); self.send_counted(&r); self.fence(); if !self.done.contains_key(&c) { self.wait_for(c); } }
                    None => self.note("respond-without-id"),
                }
            }
            "V" => { self.fence(); }
            "C" => self.abort(c),
            "CB" | "CC" => {
                arm(&self.p(if op == "CB" { "reader.before_deliver" } else { "reader.got_frame" }));
                if let Some(id) = self.ids.get(&c).copied() { let r = response_for(c, id); self.send_counted(&r); }
                if !wait_parked(WATCHDOG) { self.note("cov-miss"); }
                self.abort(c);
                disarm(); release();
                self.fence();
            }
            "N" => {
                let f = frame(1, 0, b"/push", b"{}");
                self.send_counted(&f);
                self.fence();
                let _ = self.sub_state();
            }
            "Q" => { let s = if self.faulted || self.window { self.sub_wait_eos() } else { self.sub_state() }; self.subq.push(s); }
            "W" => {
                self.spawn_call(c, None, true);
                self.stalled = true;
                // the write is blocked once the peer's small receive buffer and the local send buffer are full
                if !wait_hits(&self.p("before_write"), self.started.len() as u64, WATCHDOG) { self.note("no-before-write"); }
                std::thread::sleep(Duration::from_millis(400));
                if self.done.contains_key(&c) || { self.pump(Duration::from_millis(1)); self.done.contains_key(&c) } { self.note("cov-miss"); }
            }
            "F" => {
                let before = hits(&self.p("fail.after_shutdown"));
                self.inject(arg);
                self.faulted = true;
                self.wait_all();
                // async client with a stalled writer: when the fault also closes the connection the
                // failing write's guard may stop the response loop before it runs fail_all_pending
                let guard_race = self.prefix == "aclient" && self.stalled;
                if guard_race { let _ = wait_hits(&self.p("fail.after_shutdown"), before + 1, Duration::from_millis(300)); }
                else if !wait_hits(&self.p("fail.after_shutdown"), before + 1, WATCHDOG) { self.note("reader-not-failed"); }
                if !self.keep { self.srv.close(false); }
            }
            "P" => {
                arm(&self.p("fail.after_shutdown"));
                self.inject(arg);
                self.window = true;
                if !wait_parked(WATCHDOG) { self.note("reader-not-failed"); }
            }
            "Z" => {
                disarm(); release();
                self.window = false; self.faulted = true;
                self.wait_all();
                if !self.keep { self.srv.close(false); }
            }
            "G" => {
                let Cl::A(cl) = self.cl.clone() else { self.note("G-not-async"); return };
                let Some(id) = self.ids.get(&c).copied() else { self.note("G-without-id"); return };
                let msg = repe::Message::builder().id(id).query_str("/probe").query_format_code(1).body_json(&json!({})).unwrap().build();
                let (tx, rx) = mpsc::channel();
                rt().spawn(async move { let _ = tx.send(cl.forward_message_with_timeout(&msg, WATCHDOG).await); });
                // the probe either fails at once (duplicate id = residue) or reaches the server
                let mut out = "hang".to_string();
                match rx.recv_timeout(Duration::from_millis(50)) {
                    Ok(Err(RepeError::Io(e))) if e.kind() == std::io::ErrorKind::AlreadyExists => out = "dup".into(),
                    Ok(_) => out = "early".into(),
                    Err(_) => {
                        if let Ok((rid, _)) = self.srv.read_req() { let r = frame(0, rid, b"/probe", b"{}"); self.send_counted(&r); }
                        match rx.recv_timeout(WATCHDOG) {
                            Ok(Ok(Some(_))) => out = "free".into(),
                            Ok(Err(RepeError::Io(e))) if e.kind() == std::io::ErrorKind::AlreadyExists => out = "dup".into(),
                            Ok(_) => out = "err".into(),
                            Err(_) => {}
                        }
                    }
                }
                self.resid.push(out);
            }
            _ => self.note(format!("bad-event:{op}")),
        }
    }

    /// wait until the bytes of an unread request have arrived at the server socket
    fn settle_unread(&mut self) {
        let Some(s) = self.srv.stream() else { return };
        use std::os::fd::AsRawFd;
        let fd = s.as_raw_fd();
        let mut last = -1i32; let mut stable = 0;
        let t0 = Instant::now();
        while t0.elapsed() < Duration::from_secs(2) {
            let mut n: libc::c_int = 0;
            unsafe { libc::ioctl(fd, libc::FIONREAD, &mut n); }
            if n > 0 && n == last { stable += 1; if stable >= 3 { return; } } else { stable = 0; last = n; }
            std::thread::sleep(Duration::from_millis(3));
        }
    }
}

fn connect(kind: &str, small_rcvbuf: bool) -> Result<(Cl, Srv), String> {
    let sock = socket2::Socket::new(socket2::Domain::IPV4, socket2::Type::STREAM, None).map_err(|e| format!("socket:{e}"))?;
    if small_rcvbuf { sock.set_recv_buffer_size(4096).map_err(|e| format!("rcvbuf:{e}"))?; }
    let addr: std::net::SocketAddr = "127.0.0.1:0".parse().unwrap();
    sock.bind(&addr.into()).map_err(|e| format!("bind:{e}"))?;
    sock.listen(8).map_err(|e| format!("listen:{e}"))?;
    let listener: std::net::TcpListener = sock.into();
    let addr = listener.local_addr().map_err(|e| format!("addr:{e}"))?;
    let setup = |s: &TcpStream| { s.set_nodelay(true).ok(); s.set_read_timeout(Some(WATCHDOG)).ok(); s.set_write_timeout(Some(WATCHDOG)).ok(); };
    match kind {
        "tcp" => {
            let cl = Client::connect(addr).map_err(|e| format!("connect:{e}"))?;
            let (s, _) = listener.accept().map_err(|e| format!("accept:{e}"))?;
            setup(&s);
            Ok((Cl::Tcp(cl), Srv::Tcp(s)))
        }
        "atcp" => {
            let cl = rt().block_on(async { tokio::time::timeout(WATCHDOG, AsyncClient::connect(addr)).await }).map_err(|_| "connect-timeout".to_string())?.map_err(|e| format!("connect:{e}"))?;
            let (s, _) = listener.accept().map_err(|e| format!("accept:{e}"))?;
            setup(&s);
            Ok((Cl::A(cl), Srv::Tcp(s)))
        }
        "ws" => {
            let url = format!("ws://{addr}/repe");
            let h = rt().spawn(async move { tokio::time::timeout(WATCHDOG, WebSocketClient::connect(&url)).await });
            let (s, _) = listener.accept().map_err(|e| format!("accept:{e}"))?;
            setup(&s);
            let mut cfg = tg::protocol::WebSocketConfig::default();
            cfg.max_message_size = Some(64 << 20); cfg.max_frame_size = Some(64 << 20);
            let ws = tg::accept_with_config(s, Some(cfg)).map_err(|e| format!("ws-accept:{e}"))?;
            let cl = rt().block_on(h).map_err(|e| format!("join:{e}"))?.map_err(|_| "connect-timeout".to_string())?.map_err(|e| format!("connect:{e}"))?;
            Ok((Cl::Ws(cl), Srv::Ws(Box::new(ws))))
        }
        _ => Err("bad-kind".into()),
    }
}

fn run_case(line: &str) -> String {
    let f = fields(line);
    let kind = f["kind"].clone();
    let script: Vec<String> = if f["script"] == "-" { vec![] } else { f["script"].split(';').map(|s| s.to_string()).collect() };
    let want_sub = f.get("sub").map(|s| s == "1").unwrap_or(false);
    let ncall: usize = f["n"].parse().unwrap_or(0);
    probe_reset();
    let small = script.iter().any(|e| e.starts_with("W:"));
    let (cl, srv) = match connect(&kind, small) { Ok(x) => x, Err(e) => return format!("crash=setup:{}", e.replace(' ', "_")) };
    let prefix = match kind.as_str() { "tcp" => "client", "atcp" => "aclient", _ => "wsclient" };
    let (tx, rx) = mpsc::channel();
    let mut run = Run { prefix, cl, srv, tx, rx, started: vec![], done: HashMap::new(), ids: HashMap::new(), tasks: HashMap::new(),
        faulted: false, window: false, stalled: false, next_fence: 0, sub: None, nrecv: 0, subq: vec![], sub_eos: false, notes: vec![], resid: vec![], frames_sent: 0, got_base: 0, keep: f.get("keep").map(|s| s == "1").unwrap_or(false) };
    if want_sub { if let Cl::Ws(w) = &run.cl { match w.subscribe_notifies() { Ok(r) => run.sub = Some(r), Err(_) => run.note("subscribe-failed") } } }
    // `ham=1` (async client): from the moment call 0 is in flight until the first residue probe, two
    // tasks keep forwarding a message with call 0's id - each is refused at once as a duplicate
    // without touching the wire, and each refusal takes the pending-map lock: the guards of the
    // calls that expire or are cancelled meanwhile are dropped under contention
    let ham = f.get("ham").map(|s| s == "1").unwrap_or(false);
    let ham_stop = std::sync::Arc::new(std::sync::atomic::AtomicBool::new(false));
    let mut ham_tasks: Vec<tokio::task::JoinHandle<u64>> = vec![];
    // `q=1`: see the module comment
    let queued = f.get("q").map(|s| s == "1").unwrap_or(false);
    let mut skip_next = false;
    let res = guard(std::panic::AssertUnwindSafe(|| {
        for (i, ev) in script.iter().enumerate() {
            if skip_next { skip_next = false; continue; }
            if queued && ev.starts_with("F:") && run.stalled && !run.faulted && !run.window {
                if let Some((op, arg)) = script.get(i + 1).and_then(|e| e.split_once(':')) {
                    if let (true, Ok(c)) = (op == "S" || op == "T", arg.parse::<usize>()) {
                        run.start_queued(c, if op == "T" { Some(LONG_TMO) } else { None });
                        skip_next = true;
                    }
                }
            }
            if ham && ev.starts_with("G:") && !ham_stop.load(std::sync::atomic::Ordering::SeqCst) {
                ham_stop.store(true, std::sync::atomic::Ordering::SeqCst);
                for h in ham_tasks.drain(..) { match rt().block_on(async { tokio::time::timeout(WATCHDOG, h).await }) { Ok(Ok(n)) if n > 0 => {} _ => run.note("hammer-idle") } }
            }
            run.event(ev);
            if ham && i == 0 {
                if let (Cl::A(cl), Some(id)) = (run.cl.clone(), run.ids.get(&0).copied()) {
                    for _ in 0..2 {
                        let (cl, stop) = (cl.clone(), ham_stop.clone());
                        ham_tasks.push(rt().spawn(async move {
                            let msg = repe::Message::builder().id(id).query_str("/ham").query_format_code(1).body_json(&json!({})).unwrap().build();
                            let mut n = 0u64;
                            while !stop.load(std::sync::atomic::Ordering::SeqCst) {
                                match cl.forward_message_with_timeout(&msg, Duration::from_millis(1)).await {
                                    Err(RepeError::Io(e)) if e.kind() == std::io::ErrorKind::AlreadyExists => n += 1,
                                    _ => break,   // call 0 is no longer pending: stop before anything reaches the wire twice
                                }
                                if n % 64 == 0 { tokio::task::yield_now().await; }
                            }
                            n
                        }));
                    }
                } else { run.note("hammer-not-started"); }
            }
        }
    }));
    ham_stop.store(true, std::sync::atomic::Ordering::SeqCst);
    if res.is_err() { release(); return "crash=panic".into(); }
    // final collection: calls still open are `hang` after a fault, `pending` otherwise
    if run.window { release(); }
    while run.pump(Duration::from_millis(20)) {}
    let faulted = run.faulted;
    let sub_final = if faulted { run.sub_wait_eos() } else { run.sub_state() };
    let rd = hits(&run.p("fail.after_shutdown")) > 0;
    let mut classes = Vec::new();
    for c in 0..ncall {
        let r = match run.done.get(&c) { Some(r) => r.clone(), None => if !run.started.contains(&c) { "none".into() } else if faulted { "hang".into() } else { "pending".into() } };
        classes.push(r);
    }
    // teardown: end the connection and let the reader finish before the next case
    let before = hits(&run.p("fail.after_shutdown"));
    run.srv.close(false);
    if !rd { let _ = wait_hits(&run.p("fail.after_shutdown"), before + 1, Duration::from_secs(2)); }
    let out = format!("res={} sub={} subq={} nn={:x} rd={} resid={} notes={}",
        if classes.is_empty() { "-".into() } else { classes.join(",") }, sub_final,
        if run.subq.is_empty() { "-".into() } else { run.subq.join(",") }, run.nrecv, rd as u8,
        if run.resid.is_empty() { "-".into() } else { run.resid.join(",") },
        if run.notes.is_empty() { "-".into() } else { run.notes.join(",") });
    for (_, h) in run.tasks.drain() { h.abort(); }
    { let _g = rt().enter(); drop(run); }
    out
}

fn main() {
    repe::verif_hooks::install(on_probe);
    let cases = if no_gen() { vec![] } else { gen_cases(seed(), is_thorough()) };
    isolated_main(cases, run_case, Duration::from_secs(90));
}

// ---------------------------------------------------------------- generation
const TCP_FAULTS: &[&str] = &["close", "rst", "magic", "lenmis", "ovf", "big", "trunch", "trunch47", "truncq0", "truncq", "truncb0", "truncb", "truncb1", "truncrst"];
const WS_ONLY_FAULTS: &[&str] = &["wsclose", "text", "wsrsv", "wsmask", "wsop"];

fn faults_of(kind: &str) -> Vec<&'static str> {
    let mut v: Vec<&'static str> = TCP_FAULTS.to_vec();
    if kind == "ws" { v.extend_from_slice(WS_ONLY_FAULTS); }
    v
}

/// the generator's own bookkeeping of which scripts are scenarios (the driver
/// re-checks every script with the extracted `c06_valid` and reports a
/// DRIVER-ERROR for one that is not)
#[derive(Clone, Copy, PartialEq)]
enum St { None, Flight(bool), Fin(bool) }
struct Gen { kind: &'static str, sub: bool, st: Vec<St>, phase: u8, stalled: bool, unread: bool, script: Vec<String> }
impl Gen {
    fn new(kind: &'static str, sub: bool) -> Self { Gen { kind, sub, st: vec![], phase: 0, stalled: false, unread: false, script: vec![] } }
    fn fresh(&mut self) -> usize { self.st.push(St::None); self.st.len() - 1 }
    fn reads(&self) -> bool { !self.stalled && !self.unread }
    fn live(&self) -> bool { self.phase == 0 }
    fn push(&mut self, e: String) { self.script.push(e); }
    fn start(&mut self, op: &str) -> Option<usize> {
        // op in S T U X XA XB XC W
        if self.live() && !self.reads() { return None; }
        if matches!(op, "XA" | "XB" | "XC" | "W") && !self.live() { return None; }
        if op == "XA" && self.kind != "tcp" { return None; }
        let c = self.fresh();
        self.st[c] = if self.live() {
            match op { "S" | "T" => St::Flight(true), "U" | "W" => St::Flight(false), _ => St::Fin(true) }
        } else { St::Fin(false) };
        if self.live() { if op == "U" { self.unread = true; } if op == "W" { self.stalled = true; } }
        self.push(format!("{op}:{c}"));
        Some(c)
    }
    fn flights(&self, known_only: bool) -> Vec<usize> {
        (0..self.st.len()).filter(|c| match self.st[*c] { St::Flight(k) => k || !known_only, _ => false }).collect()
    }
    fn respond(&mut self, c: usize) -> bool {
        if !self.live() { return false; }
        match self.st[c] { St::Flight(true) => { self.st[c] = St::Fin(true); } St::Fin(true) => {} _ => return false }
        self.push(format!("R:{c}")); true
    }
    fn cancel(&mut self, op: &str, c: usize) -> bool {
        if self.kind == "tcp" { return false; }
        match (op, self.st[c], self.phase) {
            ("C", St::Flight(k), 0) if !self.stalled => { self.st[c] = St::Fin(k); }
            ("C", St::Flight(k), 1) if !self.stalled => { self.st[c] = St::Fin(k); }
            ("CB" | "CC", St::Flight(true), 0) => { self.st[c] = St::Fin(true); }
            _ => return false,
        }
        self.push(format!("{op}:{c}")); true
    }
    fn simple(&mut self, op: &str) -> bool {
        match op {
            "V" => { if !self.live() { return false; } }
            "N" => { if !(self.live() && self.kind == "ws" && self.sub) { return false; } }
            "Q" => {}
            _ => return false,
        }
        self.push(op.to_string()); true
    }
    fn probe(&mut self, c: usize) -> bool {
        if !(self.kind == "atcp" && self.live() && self.reads()) { return false; }
        if self.st[c] != St::Fin(true) { return false; }
        self.push(format!("G:{c}")); true
    }
    fn fault(&mut self, op: &str, kind: &str) -> bool {
        match (op, self.phase) {
            ("F", 0) => { self.phase = 2; }
            ("P", 0) => { self.phase = 1; }
            ("Z", 1) => { self.phase = 2; self.push("Z".into()); for s in self.st.iter_mut() { if let St::Flight(k) = *s { *s = St::Fin(k); } } return true; }
            _ => return false,
        }
        if op == "F" { for s in self.st.iter_mut() { if let St::Flight(k) = *s { *s = St::Fin(k); } } }
        self.push(format!("{op}:{kind}")); true
    }
    fn line(&mut self) -> String {
        if self.phase == 1 { self.fault("Z", ""); }
        format!("kind={} sub={} n={} script={}", self.kind, self.sub as u8, self.st.len(), if self.script.is_empty() { "-".into() } else { self.script.join(";") })
    }
}

fn gen_cases(seed: u64, thorough: bool) -> Vec<String> {
    let mut cases: Vec<String> = Vec::new();
    let kinds: [&'static str; 3] = ["tcp", "atcp", "ws"];
    let flights: &[usize] = if thorough { &[0, 1, 2, 3, 4, 8, 16] } else { &[0, 1, 2, 3] };

    // A. one fault after k of n requests were read, n calls in flight, with and without
    //    per-call timeouts, then two later calls
    for kind in kinds {
        for (fi, fk) in faults_of(kind).into_iter().enumerate() {
            for &n in flights {
                let ks: Vec<usize> = if thorough { let mut v = vec![n, 0, n / 2, n.saturating_sub(1)]; v.sort(); v.dedup(); v } else { let mut v = vec![n, if (fi + n) % 2 == 0 { 0 } else { n / 2 }]; v.sort(); v.dedup(); v };
                for k in ks {
                    for mix in 0..(if thorough { 3 } else { 2 }) {
                        if !thorough && mix == 1 && (fi + n + k) % 2 == 1 { continue; }
                        let sub = kind == "ws" && (fi + n + mix) % 2 == 0;
                        let mut g = Gen::new(kind, sub);
                        if sub { g.simple("N"); g.simple("Q"); }
                        for i in 0..n {
                            let op = if i >= k { "U" } else { match mix { 0 => "S", 1 => "T", _ => if i % 2 == 0 { "S" } else { "T" } } };
                            g.start(op);
                        }
                        g.fault("F", fk);
                        if sub { g.simple("Q"); }
                        g.start("S"); g.start(if mix == 0 { "X" } else { "T" });
                        cases.push(g.line());
                    }
                }
            }
        }
    }

    // B. the same with the reader held at its probe point before the drain: the
    //    subscriber, a later call, a cancellation, then the drain and one more later call
    for kind in kinds {
        let fs: Vec<&str> = if thorough { faults_of(kind) } else { let mut v = vec!["close", "magic", "truncb"]; if kind == "ws" { v.push("wsclose"); v.push("text"); } v };
        for fk in fs {
            for &n in flights {
                if n > 4 { continue; }
                for variant in 0..3 {
                    if variant == 2 && (kind == "tcp" || n == 0) { continue; }
                    let sub = kind == "ws";
                    let mut g = Gen::new(kind, sub);
                    for i in 0..n { g.start(if i % 2 == 0 { "S" } else { "T" }); }
                    g.fault("P", fk);
                    if sub { g.simple("Q"); }
                    if variant >= 1 { g.start("S"); }
                    if variant == 2 { g.cancel("C", 0); }
                    if variant == 1 { g.start("X"); }
                    g.fault("Z", "");
                    g.start("T");
                    if sub { g.simple("Q"); }
                    cases.push(g.line());
                }
            }
        }
    }

    // C. lives of two (quick) or three (thorough) calls: answered, expired (plain and the three
    //    forced races), cancelled (plain and the two forced races), left pending; late responses
    //    for every finished call; an unknown id; residue probes; then a fresh call that must
    //    still work; optionally a fault at the end
    let lives: &[&str] = &["ok", "X", "XA", "XB", "XC", "C", "CB", "CC", "pend", "T", "XZ"];
    let depth = if thorough { 3 } else { 2 };
    for kind in kinds {
        let total = lives.len().pow(depth as u32);
        for idx in 0..total {
            let mut k = idx; let mut ls = Vec::new();
            for _ in 0..depth { ls.push(lives[k % lives.len()]); k /= lives.len(); }
            if ls.iter().any(|l| (*l == "XA" && kind != "tcp") || (matches!(*l, "C" | "CB" | "CC") && kind == "tcp")) { continue; }
            // quick: at most two expiries per case (each costs its timeout)
            if !thorough && ls.iter().filter(|l| l.starts_with('X')).count() > 1 && idx % 3 != 0 { continue; }
            for order in 0..2 {
                let sub = kind == "ws" && idx % 2 == 0;
                let mut g = Gen::new(kind, sub);
                // order 0: one life after the other; order 1: every plain call is in flight while
                // the others expire / are cancelled, and is answered afterwards
                let mut started: Vec<(usize, &str)> = Vec::new();
                for l in &ls {
                    match *l {
                        "ok" | "pend" | "C" | "CB" | "CC" => { let c = g.start("S").unwrap(); started.push((c, l)); if order == 0 { finish_life(&mut g, c, l); } }
                        "T" => { let c = g.start("T").unwrap(); started.push((c, "ok")); if order == 0 { finish_life(&mut g, c, "ok"); } }
                        x => { let c = g.start(x).unwrap(); started.push((c, "done")); }
                    }
                }
                if order == 1 { for (c, l) in started.iter().rev() { finish_life(&mut g, *c, l); } }
                if sub { g.simple("N"); }
                g.simple("V");
                // late responses for everything that has returned, then residue probes
                // residue probes before the late responses (a late response would clear a leaked
                // entry), and once more after them
                for (c, l) in &started { if *l != "pend" { g.probe(*c); } }
                for (c, l) in &started { if *l != "pend" { g.respond(*c); } }
                if idx % 2 == 0 { for (c, l) in &started { if *l != "pend" { g.probe(*c); } } }
                let c = g.start("S").unwrap(); g.respond(c);
                if idx % 4 == order { let fk = faults_of(kind)[idx % faults_of(kind).len()]; g.fault("F", fk); g.start("S"); }
                if sub { g.simple("Q"); }
                cases.push(g.line());
            }
        }
    }

    // C'. (async client) the same lives under contention on the pending map (`ham=1`): call 0 stays in
    //     flight, 12 (quick) / 40 (thorough) further calls expire or are cancelled while two tasks
    //     keep the pending-map lock busy, then every one of them is probed for residue
    for rep_i in 0..(if thorough { 4 } else { 2 }) {
        let mut g = Gen::new("atcp", false);
        let c0 = g.start("S").unwrap();
        let mut fin: Vec<usize> = Vec::new();
        for j in 0..(if thorough { 40 } else { 12 }) {
            if (j + rep_i) % 3 == 2 { let c = g.start("S").unwrap(); g.cancel("C", c); fin.push(c); }
            else { let c = g.start(if j % 2 == 0 { "XZ" } else { "X" }).unwrap(); fin.push(c); }
        }
        for c in &fin { g.probe(*c); }
        g.respond(c0);
        let c = g.start("S").unwrap(); g.respond(c);
        cases.push(format!("{} ham=1", g.line()));
    }

    // D. the stalled writer (design D8): call B blocked inside the write of an 8 MiB request
    //    towards a peer with a 4 KiB receive buffer that does not read, call A in flight, then
    //    the fault: both must fail promptly, and so must a later call
    for kind in kinds {
        let fs: Vec<&str> = if thorough { faults_of(kind) } else { let mut v = vec!["magic", "close", "lenmis"]; if kind == "ws" { v.push("text"); } v };
        for fk in fs {
            for a in 0..(if thorough { 3 } else { 2 }) {
                for op in ["F", "P"] {
                    if !thorough && op == "P" && fk != "magic" { continue; }
                    // holding the reader at its probe point needs the reader to get there: on the async
                    // client only the faults that leave the connection open guarantee that (see `F`)
                    if op == "P" && kind == "atcp" && !matches!(fk, "magic" | "lenmis" | "ovf" | "big") { continue; }
                    let mut g = Gen::new(kind, kind == "ws" && a == 1);
                    for i in 0..a { g.start(if i == 0 { "S" } else { "T" }); }
                    g.start("W");
                    g.fault(op, fk);
                    if g.sub { g.simple("Q"); }
                    g.start("S");
                    if op == "P" { g.fault("Z", ""); g.start("T"); }
                    cases.push(g.line());
                }
            }
        }
    }

    // D''. the stalled writer, a fault that leaves the connection open, and a peer that KEEPS it open
    //      and unread while the later calls are made (`keep=1`): they too return an error promptly -
    //      whatever still holds the writer (the WebSocket client's closing handshake is stuck behind
    //      the full socket) must not be waited for.  Found as defect D12 (section 12.2).
    for kind in kinds {
        let mut fs = vec!["magic", "lenmis", "big"]; if kind == "ws" { fs.push("text"); }
        for fk in fs {
            for a in 0..2 {
                let mut g = Gen::new(kind, false);
                if a == 1 { g.start("S"); }
                g.start("W");
                g.fault("F", fk);
                g.start("S"); g.start("T"); g.start("X");
                cases.push(format!("{} keep=1", g.line()));
            }
        }
    }

    // D'. the stalled writer with a second call queued behind it (`q=1`): call B blocked inside the
    //     write of its 8 MiB request, call C started next - it waits for the writer lock that B holds -
    //     and only then the fault; B, C, the calls in flight and a later call must all fail promptly.
    //     The faults that matter most leave the connection open (the peer keeps the socket and still
    //     does not read), so a C that went on to write would never return.
    for kind in kinds {
        let fs: Vec<&str> = if thorough { faults_of(kind) } else { let mut v = vec!["magic", "lenmis", "big", "close"]; if kind == "ws" { v.push("text"); } v };
        for (fi, fk) in fs.into_iter().enumerate() {
            for a in 0..(if thorough { 3 } else { 2 }) {
                if !thorough && a == 1 && fi >= 2 { continue; }
                let mut g = Gen::new(kind, kind == "ws" && a == 1);
                for i in 0..a { g.start(if i == 0 { "S" } else { "T" }); }
                g.start("W");
                g.fault("F", fk);
                g.start(if (fi + a) % 2 == 0 { "S" } else { "T" });   // started before the fault by the harness
                if g.sub { g.simple("Q"); }
                g.start("S");
                cases.push(format!("{} q=1", g.line()));
            }
        }
    }

    // E. random scenarios
    let mut rng = Rng::new(seed);
    let nrand = if thorough { 1500 } else { 150 };
    for _ in 0..nrand {
        let kind = kinds[rng.below(3) as usize];
        let sub = kind == "ws" && rng.chance(1, 2);
        let mut g = Gen::new(kind, sub);
        let len = rng.range(2, if thorough { 24 } else { 12 });
        let mut expiries = 0;
        for _ in 0..len {
            if g.st.len() >= 16 { break; }
            let r = rng.below(100);
            let fl = g.flights(true);
            let any: Vec<usize> = (0..g.st.len()).collect();
            match r {
                0..=24 => { g.start(if rng.chance(1, 2) { "S" } else { "T" }); }
                25..=29 => { if g.live() { g.start("U"); } }
                30..=39 => { if expiries < 3 { let op = *rng.pick(&["X", "X", "XA", "XB", "XC"]); if g.start(op).is_some() { expiries += 1; } } }
                40..=59 => { if !any.is_empty() { let c = *rng.pick(&any); g.respond(c); } }
                60..=69 => { if !fl.is_empty() { let c = *rng.pick(&fl); let op = *rng.pick(&["C", "CB", "CC"]); g.cancel(op, c); } }
                70..=74 => { g.simple("V"); }
                75..=79 => { g.simple("N"); }
                80..=84 => { g.simple("Q"); }
                85..=89 => { if !any.is_empty() { let c = *rng.pick(&any); g.probe(c); } }
                90..=93 => { let fk = *rng.pick(&faults_of(kind)); g.fault("F", fk); }
                94..=96 => { let fk = *rng.pick(&faults_of(kind)); if g.fault("P", fk) { if rng.chance(1, 2) { g.start("S"); } if rng.chance(1, 3) { let f2 = g.flights(false); if !f2.is_empty() { let c = *rng.pick(&f2); g.cancel("C", c); } } g.fault("Z", ""); } }
                _ => { if rng.chance(1, 4) && g.live() && g.reads() { g.start("W"); let fk = *rng.pick(&faults_of(kind)); g.fault("F", fk); } }
            }
        }
        cases.push(g.line());
    }

    cases.into_iter().enumerate().map(|(i, c)| format!("i={i} {c}")).collect()
}

fn finish_life(g: &mut Gen, c: usize, life: &str) {
    match life {
        "ok" => { g.respond(c); }
        "C" | "CB" | "CC" => { g.cancel(life, c); }
        _ => {}
    }
}
