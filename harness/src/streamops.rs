//! Driving repe::TransferControl with operation histories (C11, C12, C13).
use crate::*;
use repe::{NotifyBody, PeerHandle, PeerId, PeerSendError, PeerSink, TransferControl};
use repe::stream::{CreditError, ReconnectOutcome, ResumeRejection};
use std::sync::Arc;
use std::time::{Duration, Instant};

struct NullSink;
impl PeerSink for NullSink {
    fn send_notify(&self, _method: &str, _body: NotifyBody) -> Result<(), PeerSendError> { Ok(()) }
    fn is_connected(&self) -> bool { true }
}
pub fn peer(id: u64) -> PeerHandle { PeerHandle::new(PeerId(id), Arc::new(NullSink)) }

fn h(v: u64) -> String { format!("{v:x}") }
fn p(s: &str) -> u64 { u64::from_str_radix(s, 16).unwrap() }

/// Ops are `;`-separated: S:o A:f:o V:f R:peer:f:o C:r P:off:len:last:body E:p W:len T Q:o
pub fn apply(tc: &TransferControl, op: &str, reasons: &mut Vec<String>) -> String {
    let f: Vec<&str> = op.split(':').collect();
    match f[0] {
        "S" => { tc.record_sent(p(f[1])); "-".into() }
        "A" => { tc.record_ack(p(f[1]) as u32, p(f[2])); "-".into() }
        "V" => { tc.advance_to_file(p(f[1]) as u32); "-".into() }
        "R" => match tc.request_resume(peer(p(f[1])), p(f[2]) as u32, p(f[3])) {
            Ok(o) => format!("rok:{}", h(o)),
            Err(ResumeRejection::Cancelled) => "rcan".into(),
            Err(ResumeRejection::WrongFileIndex { requested, current }) => format!("rwf:{}:{}", h(requested as u64), h(current as u64)),
            Err(ResumeRejection::OutOfWindow) => "roow".into(),
        },
        "C" => { tc.cancel(reason_text(f[1])); "-".into() }
        "P" => { tc.push_replay(p(f[1]), p(f[2]), f[3] == "1", unhex(f[4])); "-".into() }
        "E" => { tc.set_peer(peer(p(f[1]))); "-".into() }
        "W" => match tc.wait_for_credit(p(f[1]), Instant::now() - Duration::from_millis(1)) {
            Ok(()) => "granted".into(),
            Err(CreditError::Timeout) => "ctimeout".into(),
            Err(CreditError::Cancelled(r)) => format!("ccan:{}", reason_id(&r, reasons)),
        },
        "T" => match tc.wait_for_reconnect(Duration::ZERO) {
            ReconnectOutcome::ResumeReady(pr) => format!("ready:{}", h(pr.resume_at_offset)),
            ReconnectOutcome::Cancelled(r) => format!("tcan:{}", reason_id(&r, reasons)),
            ReconnectOutcome::Timeout => "ttimeout".into(),
        },
        "Q" => format!("chunks:{}", ring_s(&tc.replay_chunks_from(p(f[1])))),
        _ => panic!("bad op {op}"),
    }
}
/// reason 0 is the empty string (a reason like any other: the first one still wins)
fn reason_text(n: &str) -> String { if n == "0" { String::new() } else { format!("reason-{n}") } }
fn reason_name(r: &str) -> String { if r.is_empty() { "0".to_string() } else { r.strip_prefix("reason-").map(|s| s.to_string()).unwrap_or_else(|| format!("?{r}")) } }
fn reason_id(r: &str, _reasons: &mut Vec<String>) -> String { reason_name(r) }
fn ring_s(cs: &[repe::RingChunk]) -> String {
    if cs.is_empty() { return "-".into(); }
    cs.iter().map(|c| format!("{}.{}.{}.{}", h(c.offset), h(c.data_len), if c.last { 1 } else { 0 }, hex(&c.body_bytes))).collect::<Vec<_>>().join("+")
}
pub fn snapshot(tc: &TransferControl) -> String {
    let (s, a) = tc.offsets();
    let c = tc.cancel_reason().map(|r| reason_name(&r)).unwrap_or_else(|| "-".into());
    let pr = tc.peer().map(|p| h(p.peer_id().0)).unwrap_or_else(|| "-".into());
    format!("{},{},{},{},{}", h(s), h(a), c, pr, ring_s(&tc.replay_chunks_from(0)))
}

pub fn run_case(line: &str) -> String {
    let f = fields(line);
    let win = p(&f["win"]); let cap = p(&f["cap"]);
    let ops: Vec<String> = if f["ops"] == "-" { vec![] } else { f["ops"].split(';').map(|s| s.to_string()).collect() };
    let r = guard(move || {
        let tc = TransferControl::with_replay_capacity(win, cap);
        let mut reasons = Vec::new();
        let mut outs = Vec::new();
        for op in &ops {
            let o = apply(&tc, op, &mut reasons);
            outs.push(format!("{}/{}", o, snapshot(&tc)));
        }
        format!("steps={}", if outs.is_empty() { "-".to_string() } else { outs.join("|") })
    });
    r.unwrap_or_else(|_| "crash=panic".into())
}

/// generator state: keeps pushes contiguous per file
struct GenSt { end: u64 }

fn small_alphabet(prop: &str) -> Vec<&'static str> {
    // symbolic ops; "P<len><overhead>" is expanded with the running offset
    if prop == "C11" {
        vec!["S:1", "S:2", "S:3", "A:0:1", "A:0:2", "A:0:3", "A:1:2", "V:1", "R:7:0:1", "R:7:0:2", "C:1", "C:2", "W:1", "W:2", "W:3", "T", "P10"]
    } else {
        vec!["P00", "P10", "P20", "P01", "P11", "P21", "R:7:0:0", "R:7:0:1", "R:7:0:2", "R:8:0:3", "R:7:1:1", "V:1", "C:1", "T", "A:0:1", "S:2"]
    }
}

fn expand(sym: &[&str]) -> String {
    let mut st = GenSt { end: 0 };
    let mut out = Vec::new();
    let mut tag = 0u8;
    for s in sym {
        if let Some(rest) = s.strip_prefix('P') {
            let b = rest.as_bytes();
            let len = (b[0] - b'0') as u64; let ov = (b[1] - b'0') as u64;
            tag = tag.wrapping_add(1);
            let body: Vec<u8> = (0..(len + ov)).map(|i| tag.wrapping_mul(16).wrapping_add(i as u8)).collect();
            out.push(format!("P:{}:{}:0:{}", h(st.end), h(len), hex(&body)));
            st.end += len;
        } else {
            if s.starts_with("V:") { st.end = 0; }
            out.push(s.to_string());
            if s.starts_with("R:") { let o = s.rsplit(':').next().unwrap(); out.push(format!("Q:{o}")); }
        }
    }
    out.join(";")
}

pub fn gen_cases(prop: &str, seed: u64, thorough: bool) -> Vec<String> {
    let mut cases = Vec::new();
    let alpha = small_alphabet(prop);
    let depth = if thorough { 5 } else { 4 };
    let configs: Vec<(u64, u64)> = if prop == "C11" { vec![(2, 8)] } else { vec![(4, 0), (4, 2), (4, 5)] };
    // exhaustive: every sequence of exactly `depth` symbols (shorter ones are its prefixes)
    let n = alpha.len();
    let total = n.pow(depth as u32);
    for (win, cap) in &configs {
        for idx in 0..total {
            let mut k = idx; let mut sym = Vec::with_capacity(depth);
            for _ in 0..depth { sym.push(alpha[k % n]); k /= n; }
            cases.push(format!("win={} cap={} ops={}", h(*win), h(*cap), expand(&sym)));
        }
    }
    // random long histories over 64-bit boundary classes
    let mut rng = Rng::new(seed);
    let nrand = if thorough { 30000 } else { 3000 };
    for _ in 0..nrand {
        let win = match rng.below(4) { 0 => rng.below(8), 1 => rng.below(1 << 20), 2 => 1 << 48, _ => rng.boundary(64) };
        let cap = match rng.below(4) { 0 => 0, 1 => rng.below(16), 2 => rng.below(256), _ => rng.below(4096) };
        let len = rng.range(1, if thorough { 200 } else { 60 });
        let mut ops = Vec::new();
        let mut end = 0u64; let mut sent = 0u64; let mut file = 0u64; let mut offs: Vec<u64> = vec![];
        let big = rng.chance(1, 4);
        for _ in 0..len {
            let val = |rng: &mut Rng, near: u64| -> u64 { match rng.below(6) { 0 => near, 1 => near.wrapping_add(1), 2 => near.wrapping_sub(1), 3 => rng.boundary(64), 4 => rng.below(16), _ => near / 2 } };
            match rng.below(12) {
                0 | 1 => { let chunk = if big { rng.below(1 << 48) } else { rng.below(8) }; let o = if rng.chance(5, 6) { sent.saturating_add(chunk) } else { rng.boundary(64) }; if o > sent { sent = o; } ops.push(format!("S:{}", h(o))); }
                2 | 3 => { let f = if rng.chance(4, 5) { file } else { rng.below(3) }; ops.push(format!("A:{}:{}", h(f), h(val(&mut rng, sent)))); }
                4 => { file = rng.below(4); end = 0; sent = 0; offs.clear(); ops.push(format!("V:{}", h(file))); }
                5 => { let f = if rng.chance(4, 5) { file } else { rng.below(3) }; let o = if !offs.is_empty() && rng.chance(3, 4) { *rng.pick(&offs) } else { val(&mut rng, end) }; ops.push(format!("R:{}:{}:{}", h(rng.below(5)), h(f), h(o))); ops.push(format!("Q:{}", h(o))); }
                6 => { if rng.chance(1, 4) { ops.push(format!("C:{}", h(rng.below(4)))); } else { ops.push("T".into()); } }
                7 | 8 => { let l = if big { rng.below(1 << 40) } else { rng.below(5) }; let ov = rng.below(3); let wl = (l.min(24) + ov) as usize; let body = rng.bytes(wl);
                           if end.checked_add(l).is_some() { offs.push(end); ops.push(format!("P:{}:{}:{}:{}", h(end), h(l), rng.below(2), hex(&body))); end += l; offs.push(end); } }
                9 | 10 => { let l = if big { rng.below(1 << 48) } else { rng.below(8) }; ops.push(format!("W:{}", h(l))); }
                _ => { ops.push(format!("Q:{}", h(val(&mut rng, end)))); }
            }
        }
        cases.push(format!("win={} cap={} ops={}", h(win), h(cap), ops.join(";")));
    }
    // hostile corner histories
    for (w, s, a, l) in [(10u64, u64::MAX - 5, 0u64, 10u64), (u64::MAX, u64::MAX, 1, u64::MAX), (0, 5, 5, 1), (0, 5, 4, 0), (5, 5, 0, 0)] {
        cases.push(format!("win={} cap=8 ops=S:{};A:0:{};W:{};A:0:{};W:{}", h(w), h(s), h(a), h(l), h(u64::MAX), h(l)));
    }
    cases.into_iter().enumerate().map(|(i, c)| format!("i={i} {c}")).collect()
}

pub fn stream_main(prop: &str) {
    let cases = if no_gen() { vec![] } else { gen_cases(prop, seed(), is_thorough()) };
    isolated_main(cases, run_case, Duration::from_secs(20));
}
