//! Real servers on loopback and raw peers that share no framing code with repe.
use repe::{AsyncServer, Router, Server, WebSocketServer};
use std::io::{Read, Write};
use std::net::{SocketAddr, TcpStream};
use std::sync::OnceLock;
use std::time::Duration;

pub fn runtime() -> &'static tokio::runtime::Runtime {
    static RT: OnceLock<tokio::runtime::Runtime> = OnceLock::new();
    RT.get_or_init(|| tokio::runtime::Builder::new_multi_thread().worker_threads(4).enable_all().build().unwrap())
}

pub struct Servers { pub tcp: SocketAddr, pub atcp: SocketAddr, pub ws: SocketAddr }

/// Start a blocking TCP server, an async TCP server and a WebSocket server, all
/// serving `router`, on ephemeral loopback ports.
pub fn start_servers(router: Router) -> Servers {
    let srv = Server::new(router.clone());
    let l = srv.listen("127.0.0.1:0").unwrap();
    let tcp = l.local_addr().unwrap();
    std::thread::spawn(move || { let _ = srv.serve(l); });
    let rt = runtime();
    let (atcp, ws) = rt.block_on(async {
        let al = AsyncServer::listen("127.0.0.1:0").await.unwrap();
        let atcp = al.local_addr().unwrap();
        let asrv = AsyncServer::new(router.clone());
        tokio::spawn(async move { let _ = asrv.serve(al).await; });
        let wl = WebSocketServer::listen("127.0.0.1:0").await.unwrap();
        let ws = wl.local_addr().unwrap();
        let wsrv = WebSocketServer::new(router.clone());
        tokio::spawn(async move { let _ = wsrv.serve_listener(wl, "/repe").await; });
        (atcp, ws)
    });
    Servers { tcp, atcp, ws }
}

fn le64(b: &[u8]) -> u64 { let mut x = [0u8; 8]; x.copy_from_slice(&b[..8]); u64::from_le_bytes(x) }

/// Independent frame reader: 48 header bytes, then query_length + body_length
/// bytes taken from offsets 24 and 32. Returns the raw frame.
pub fn read_raw_frame<R: Read>(r: &mut R) -> std::io::Result<Vec<u8>> {
    let mut f = vec![0u8; 48];
    r.read_exact(&mut f)?;
    let ql = le64(&f[24..32]);
    let bl = le64(&f[32..40]);
    let n = ql.checked_add(bl).filter(|n| *n <= (1 << 30)).ok_or_else(|| std::io::Error::other("raw frame too large"))? as usize;
    f.resize(48 + n, 0);
    r.read_exact(&mut f[48..])?;
    Ok(f)
}

/// A raw TCP peer with a persistent connection.
pub struct RawTcp { pub s: TcpStream }
impl RawTcp {
    pub fn connect(addr: SocketAddr) -> std::io::Result<Self> {
        let s = TcpStream::connect(addr)?;
        s.set_nodelay(true)?;
        s.set_read_timeout(Some(Duration::from_secs(10)))?;
        Ok(RawTcp { s })
    }
    pub fn send(&mut self, frame: &[u8]) -> std::io::Result<()> { self.s.write_all(frame) }
    pub fn recv(&mut self) -> std::io::Result<Vec<u8>> { read_raw_frame(&mut self.s) }
    pub fn exchange(&mut self, frame: &[u8]) -> std::io::Result<Vec<u8>> { self.send(frame)?; self.recv() }
}

/// A raw WebSocket peer (tungstenite client, binary messages).
pub struct RawWs {
    pub ws: tokio_tungstenite::WebSocketStream<tokio_tungstenite::MaybeTlsStream<tokio::net::TcpStream>>,
}
impl RawWs {
    pub fn connect(addr: SocketAddr) -> Result<Self, String> {
        runtime().block_on(async {
            let (ws, _) = tokio_tungstenite::connect_async(format!("ws://{addr}/repe")).await.map_err(|e| e.to_string())?;
            Ok(RawWs { ws })
        })
    }
    /// The same peer over a socket with a 4 KiB receive buffer (set before connecting): together with
    /// `start_ws_small` a peer that does not read stalls the server's writer after a few KiB.
    pub fn connect_small(addr: SocketAddr) -> Result<Self, String> {
        use socket2::{Domain, Socket, Type};
        runtime().block_on(async {
            let s = Socket::new(Domain::IPV4, Type::STREAM, None).map_err(|e| format!("socket:{e}"))?;
            s.set_recv_buffer_size(4096).map_err(|e| format!("rcvbuf:{e}"))?;
            s.connect(&addr.into()).map_err(|e| format!("connect:{e}"))?;
            s.set_nonblocking(true).map_err(|e| format!("nonblocking:{e}"))?;
            let tcp = tokio::net::TcpStream::from_std(s.into()).map_err(|e| format!("from_std:{e}"))?;
            let _ = tcp.set_nodelay(true);
            let fut = tokio_tungstenite::client_async(format!("ws://{addr}/repe"), tokio_tungstenite::MaybeTlsStream::Plain(tcp));
            let (ws, _) = tokio::time::timeout(Duration::from_secs(10), fut).await.map_err(|_| "handshake timeout".to_string())?.map_err(|e| e.to_string())?;
            Ok(RawWs { ws })
        })
    }
    pub fn send(&mut self, frame: &[u8]) -> Result<(), String> {
        use futures_util::SinkExt;
        runtime().block_on(async { self.ws.send(tokio_tungstenite::tungstenite::Message::Binary(frame.to_vec())).await.map_err(|e| e.to_string()) })
    }
    /// next binary message, or Err on close/timeout
    pub fn recv(&mut self, timeout: Duration) -> Result<Vec<u8>, String> {
        use futures_util::StreamExt;
        runtime().block_on(async {
            loop {
                match tokio::time::timeout(timeout, self.ws.next()).await {
                    Err(_) => return Err("timeout".into()),
                    Ok(None) => return Err("closed".into()),
                    Ok(Some(Err(e))) => return Err(e.to_string()),
                    Ok(Some(Ok(tokio_tungstenite::tungstenite::Message::Binary(b)))) => return Ok(b.into()),
                    Ok(Some(Ok(tokio_tungstenite::tungstenite::Message::Close(_)))) => return Err("closed".into()),
                    Ok(Some(Ok(_))) => continue,
                }
            }
        })
    }
    pub fn exchange(&mut self, frame: &[u8]) -> Result<Vec<u8>, String> { self.send(frame)?; self.recv(Duration::from_secs(10)) }
}

/// One blocking TCP server for `router` on an ephemeral loopback port (C03: one router per transport).
pub fn start_tcp(router: Router) -> SocketAddr {
    let srv = Server::new(router);
    let l = srv.listen("127.0.0.1:0").unwrap();
    let a = l.local_addr().unwrap();
    std::thread::spawn(move || { let _ = srv.serve(l); });
    a
}
/// One async TCP server for `router`.
pub fn start_async(router: Router) -> SocketAddr {
    runtime().block_on(async {
        let al = AsyncServer::listen("127.0.0.1:0").await.unwrap();
        let a = al.local_addr().unwrap();
        let asrv = AsyncServer::new(router);
        tokio::spawn(async move { let _ = asrv.serve(al).await; });
        a
    })
}
/// One async TCP server for `router` with a per-read timeout.
pub fn start_async_rt(router: Router, read_timeout: Duration) -> SocketAddr {
    runtime().block_on(async {
        let al = AsyncServer::listen("127.0.0.1:0").await.unwrap();
        let a = al.local_addr().unwrap();
        // a write timeout too (generous: never reached by a reading peer): the server then takes its
        // timed write path
        let asrv = AsyncServer::new(router).read_timeout(Some(read_timeout)).write_timeout(Some(Duration::from_secs(5)));
        tokio::spawn(async move { let _ = asrv.serve(al).await; });
        a
    })
}
/// One WebSocket server (already configured by the caller) at path `/repe`.
pub fn start_ws(server: WebSocketServer) -> SocketAddr {
    runtime().block_on(async {
        let wl = WebSocketServer::listen("127.0.0.1:0").await.unwrap();
        let a = wl.local_addr().unwrap();
        tokio::spawn(async move { let _ = server.serve_listener(wl, "/repe").await; });
        a
    })
}
/// One WebSocket server at path `/repe` whose accepted sockets inherit a 4 KiB send buffer.
pub fn start_ws_small(server: WebSocketServer) -> Result<SocketAddr, String> {
    use socket2::{Domain, Socket, Type};
    runtime().block_on(async {
        let s = Socket::new(Domain::IPV4, Type::STREAM, None).map_err(|e| format!("socket:{e}"))?;
        let _ = s.set_reuse_address(true);
        s.set_send_buffer_size(4096).map_err(|e| format!("sndbuf:{e}"))?;
        let a: SocketAddr = "127.0.0.1:0".parse().unwrap();
        s.bind(&a.into()).map_err(|e| format!("bind:{e}"))?;
        s.listen(16).map_err(|e| format!("listen:{e}"))?;
        s.set_nonblocking(true).map_err(|e| format!("nonblocking:{e}"))?;
        let wl = tokio::net::TcpListener::from_std(s.into()).map_err(|e| format!("from_std:{e}"))?;
        let a = wl.local_addr().map_err(|e| format!("addr:{e}"))?;
        tokio::spawn(async move { let _ = server.serve_listener(wl, "/repe").await; });
        Ok(a)
    })
}
