//! Shared pieces of the correspondence harness: PRNG, hex, case/observation
//! lines, and the child-process isolation that turns aborts, panics and hangs
//! of the implementation into observations.
use std::io::{BufRead, BufReader, Write};
use std::process::{Command, Stdio};
use std::time::{Duration, Instant};

pub mod net;
pub mod streamops;

/// SplitMix64: every random choice of a run derives from one seed.
#[derive(Clone)]
pub struct Rng(pub u64);
impl Rng {
    pub fn new(seed: u64) -> Self { Rng(seed ^ 0x9E37_79B9_7F4A_7C15) }
    pub fn next(&mut self) -> u64 {
        self.0 = self.0.wrapping_add(0x9E37_79B9_7F4A_7C15);
        let mut z = self.0;
        z = (z ^ (z >> 30)).wrapping_mul(0xBF58_476D_1CE4_E5B9);
        z = (z ^ (z >> 27)).wrapping_mul(0x94D0_49BB_1331_11EB);
        z ^ (z >> 31)
    }
    pub fn below(&mut self, n: u64) -> u64 { if n == 0 { 0 } else { self.next() % n } }
    pub fn range(&mut self, lo: u64, hi: u64) -> u64 { lo + self.below(hi - lo + 1) }
    pub fn chance(&mut self, num: u64, den: u64) -> bool { self.below(den) < num }
    pub fn pick<'a, T>(&mut self, xs: &'a [T]) -> &'a T { &xs[self.below(xs.len() as u64) as usize] }
    pub fn bytes(&mut self, n: usize) -> Vec<u8> {
        let mut v = Vec::with_capacity(n);
        while v.len() < n {
            let x = self.next().to_le_bytes();
            let k = (n - v.len()).min(8);
            v.extend_from_slice(&x[..k]);
        }
        v
    }
    /// A value of a `bits`-wide unsigned type drawn from boundary classes and random.
    pub fn boundary(&mut self, bits: u32) -> u64 {
        let max = if bits == 64 { u64::MAX } else { (1u64 << bits) - 1 };
        let v = match self.below(12) {
            0 => 0,
            1 => 1,
            2 => max,
            3 => max - 1,
            4 => max >> 1,
            5 => (max >> 1) + 1,
            6 => self.below(256),
            7 => 1u64 << self.below(bits as u64),
            8 => (1u64 << self.below(bits as u64)).wrapping_sub(1),
            9 => max - self.below(64).min(max),
            _ => self.next(),
        };
        v & max
    }
}

pub fn hex(b: &[u8]) -> String {
    const T: &[u8; 16] = b"0123456789abcdef";
    if b.is_empty() { return "-".to_string(); }
    let mut s = String::with_capacity(b.len() * 2);
    for x in b { s.push(T[(x >> 4) as usize] as char); s.push(T[(x & 15) as usize] as char); }
    s
}
pub fn unhex(s: &str) -> Vec<u8> {
    if s == "-" { return vec![]; }
    let b = s.as_bytes();
    let d = |c: u8| -> u8 { match c { b'0'..=b'9' => c - b'0', b'a'..=b'f' => c - b'a' + 10, b'A'..=b'F' => c - b'A' + 10, _ => panic!("bad hex") } };
    (0..b.len() / 2).map(|i| d(b[2 * i]) << 4 | d(b[2 * i + 1])).collect()
}

/// true when this process is the isolated child or replays given cases (no generation needed)
pub fn no_gen() -> bool { std::env::var("VERIF_CHILD").is_ok() || std::env::args().any(|a| a == "--cases") }
pub fn tier() -> String { std::env::var("VERIF_TIER").unwrap_or_else(|_| "quick".into()) }
pub fn seed() -> u64 { std::env::var("VERIF_SEED").ok().and_then(|s| s.parse().ok()).unwrap_or(1) }
pub fn is_thorough() -> bool { tier() == "thorough" }

/// Run `run` on every case in a child process; a case whose child dies
/// (abort, segfault, stack overflow) is observed as `abort:<signal>`, one
/// that exceeds `per_case` as `hang`; a panic that unwinds is observed by
/// `run` itself through `catch_unwind`. Lines `case<TAB>=><TAB>obs` go to stdout.
///
/// Protocol: the child (same executable, env VERIF_CHILD=1) reads cases on
/// stdin, and for each prints `B <i>` before and `E <i> <obs>` after.
pub fn isolated_main(cases: Vec<String>, run: fn(&str) -> String, per_case: Duration) {
    if std::env::var("VERIF_CHILD").is_ok() {
        child_loop(run);
        return;
    }
    // `--cases <file>`: replay the given case lines instead of the generated ones
    let args: Vec<String> = std::env::args().collect();
    let cases = match args.iter().position(|a| a == "--cases") {
        Some(i) => std::fs::read_to_string(&args[i + 1]).expect("cases file").lines()
            .map(|l| l.split("\t=>\t").next().unwrap().to_string()).filter(|l| !l.trim().is_empty()).collect(),
        None => cases,
    };
    // VERIF_SHARD=k/n: run only the cases whose index is k modulo n (bin/check
    // starts n such processes for checks dominated by waiting)
    let cases: Vec<String> = match std::env::var("VERIF_SHARD").ok().and_then(|s| { let (k, n) = s.split_once('/')?; Some((k.parse::<usize>().ok()?, n.parse::<usize>().ok()?)) }) {
        Some((k, n)) if n > 1 => cases.into_iter().enumerate().filter(|(i, _)| i % n == k).map(|(_, c)| c).collect(),
        _ => cases,
    };
    let exe = std::env::current_exe().expect("exe");
    let out = std::io::stdout();
    let mut out = std::io::BufWriter::new(out.lock());
    let mut next = 0usize;
    while next < cases.len() {
        let mut child = Command::new(&exe)
            .env("VERIF_CHILD", "1")
            .args(std::env::args().skip(1))
            .stdin(Stdio::piped()).stdout(Stdio::piped()).stderr(Stdio::null())
            .spawn().expect("spawn child");
        let mut stdin = child.stdin.take().unwrap();
        let batch: Vec<String> = cases[next..].to_vec();
        let feeder = std::thread::spawn(move || {
            for c in batch { if writeln!(stdin, "{c}").is_err() { break; } }
        });
        let stdout = child.stdout.take().unwrap();
        let (tx, rx) = std::sync::mpsc::channel::<String>();
        std::thread::spawn(move || {
            for l in BufReader::new(stdout).lines() { match l { Ok(l) => { if tx.send(l).is_err() { break; } } Err(_) => break } }
        });
        let mut current: Option<usize> = None;
        let mut started = Instant::now();
        let mut died = false;
        loop {
            match rx.recv_timeout(Duration::from_millis(200)) {
                Ok(l) => {
                    if let Some(r) = l.strip_prefix("B ") { current = Some(next + r.parse::<usize>().unwrap()); started = Instant::now(); }
                    else if let Some(r) = l.strip_prefix("E ") {
                        let (i, obs) = r.split_once(' ').unwrap_or((r, ""));
                        let i = next + i.parse::<usize>().unwrap();
                        writeln!(out, "{}\t=>\t{}", cases[i], obs).unwrap();
                        current = None;
                        if i + 1 == cases.len() { break; }
                    }
                }
                Err(std::sync::mpsc::RecvTimeoutError::Timeout) => {
                    if current.is_some() && started.elapsed() > per_case {
                        let _ = child.kill();
                        let i = current.unwrap();
                        writeln!(out, "{}\t=>\tcrash=hang", cases[i]).unwrap();
                        next = i + 1; died = true; break;
                    }
                }
                Err(std::sync::mpsc::RecvTimeoutError::Disconnected) => {
                    // child exited: either finished or died inside a case
                    let st = child.wait().ok();
                    if let Some(i) = current {
                        let sig = st.map(|s| { use std::os::unix::process::ExitStatusExt; s.signal().map(|x| format!("sig{x}")).unwrap_or_else(|| format!("exit{}", s.code().unwrap_or(-1))) }).unwrap_or_default();
                        writeln!(out, "{}\t=>\tcrash=abort:{}", cases[i], sig).unwrap();
                        next = i + 1; died = true;
                    }
                    break;
                }
            }
        }
        let _ = child.kill();
        let _ = child.wait();
        let _ = feeder.join();
        if !died { break; }
    }
    out.flush().unwrap();
}

fn child_loop(run: fn(&str) -> String) {
    std::panic::set_hook(Box::new(|_| {}));
    let stdin = std::io::stdin();
    let out = std::io::stdout();
    for (i, line) in stdin.lock().lines().enumerate() {
        let line = match line { Ok(l) => l, Err(_) => break };
        { let mut o = out.lock(); writeln!(o, "B {i}").unwrap(); o.flush().unwrap(); }
        let obs = run(&line);
        { let mut o = out.lock(); writeln!(o, "E {i} {obs}").unwrap(); o.flush().unwrap(); }
    }
}

/// `catch_unwind` wrapper that renders a panic as the token `panic`.
pub fn guard<T>(f: impl FnOnce() -> T + std::panic::UnwindSafe) -> Result<T, ()> {
    std::panic::catch_unwind(f).map_err(|_| ())
}

/// key=value tokens of a case line
pub fn fields(line: &str) -> std::collections::HashMap<String, String> {
    line.split_whitespace().filter_map(|t| t.split_once('=').map(|(k, v)| (k.to_string(), v.to_string()))).collect()
}
