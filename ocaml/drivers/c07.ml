(* C07: router lookups (exact routes, mounted registries/structs, middleware),
   struct segments, and the owned/borrowed/behind-middleware comparison *)
open Gen
open Util

let parse_mws s = if s = "-" then [] else Stdlib.List.map n_of_hex (split_on '_' s)

let parse_op (s : string) : Router.rop =
  match split_on ':' s with
  | ["R"; p; h] -> Router.AddRoute (bytes_of_hex p, n_of_hex h)
  | ["G"; p; h] -> Router.AddRegistry (bytes_of_hex p, n_of_hex h)
  | ["S"; p; h] -> Router.AddStruct (bytes_of_hex p, n_of_hex h)
  | ["M"; m] -> Router.AddMw (n_of_hex m)
  | _ -> failwith ("bad op " ^ s)

exception Shape of string

let tail s = String.sub s 1 (String.length s - 1)

let parse_optstr s =
  if s = "x" then None
  else if String.length s >= 1 && s.[0] = 's' then Some (bytes_of_hex (tail s))
  else raise (Shape s)

let parse_segs s =
  (* l<n>:<hex>,<hex>,... *)
  if String.length s < 2 || s.[0] <> 'l' then raise (Shape s);
  match String.index_opt s ':' with
  | None -> raise (Shape s)
  | Some i ->
    let n = int_of_string ("0x" ^ String.sub s 1 (i - 1)) in
    let rest = String.sub s (i + 1) (String.length s - i - 1) in
    let l = if n = 0 then [] else Stdlib.List.map bytes_of_hex (split_on ',' rest) in
    if Stdlib.List.length l <> n then raise (Shape s);
    l

let parse_optsegs s = if s = "x" then None else Some (parse_segs s)

let parse_answer (s : string) : Router.answer =
  match split_on '.' s with
  | ["N"] -> Router.ANone
  | ["R"; h; m] -> Router.ARoute (n_of_hex h, parse_mws m)
  | ["G"; h; m; p] -> Router.AReg (n_of_hex h, parse_mws m, parse_optstr p)
  | ["S"; h; m; sg] -> Router.AStruct (n_of_hex h, parse_mws m, parse_optsegs sg)
  | _ -> raise (Shape s)

let string_of_mws m = if m = [] then "-" else String.concat "_" (Stdlib.List.map hex_of_n m)
let hexs b = match b with [] -> "" | _ -> hex_of_bytes b
let string_of_answer (a : Router.answer) =
  match a with
  | Router.ANone -> "N"
  | Router.ARoute (h, m) -> Printf.sprintf "R.%s.%s" (hex_of_n h) (string_of_mws m)
  | Router.AReg (h, m, p) ->
    Printf.sprintf "G.%s.%s.%s" (hex_of_n h) (string_of_mws m) (match p with None -> "x" | Some b -> "s" ^ hexs b)
  | Router.AStruct (h, m, sg) ->
    Printf.sprintf "S.%s.%s.%s" (hex_of_n h) (string_of_mws m)
      (match sg with None -> "x" | Some l -> Printf.sprintf "l%x:%s" (Stdlib.List.length l) (String.concat "," (Stdlib.List.map hexs l)))

let rec first_diff i a b = match a, b with
  | x :: a', y :: b' -> if x = y then first_diff (i + 1) a' b' else i
  | [], [] -> -1
  | _ -> i

let step _ cs os =
  let f = fields cs and o = fields os in
  let out = ref [] in
  let add s = out := s :: !out in
  (match get_opt o "crash" with
   | Some c -> add ("BAD\tside=impl\tclause=crash:" ^ c)
   | None ->
     if get f "kind" = "pair" then begin
       (* "=" stands for "the same bytes as the first variant" *)
       let toks = split_on '|' (get o "rs") in
       let first = match toks with t :: _ when t <> "=" -> bytes_of_hex t | _ -> failwith "bad rs" in
       let rs = Stdlib.List.map (fun t -> if t = "=" then first else bytes_of_hex t) toks in
       if not (Router.ok_C07_pair rs) then
         add (Printf.sprintf "BAD\tside=impl\tclause=variants_differ:first=%d"
                (match rs with [] -> -1 | r :: _ -> first_diff 0 (Stdlib.List.map (fun _ -> r) rs) rs))
     end else begin
       let ops = let s = get f "ops" in if s = "-" then [] else Stdlib.List.map parse_op (split_on ';' s) in
       let paths = Stdlib.List.map bytes_of_hex (split_on ',' (get f "paths")) in
       let model = Router.model_C07 ops paths in
       if not (Router.ok_C07 ops paths model) then add "BAD\tside=model\tclause=ok_C07(model)=false";
       let check name =
         try
           let impl = Stdlib.List.map parse_answer (split_on '|' (get o name)) in
           if not (Router.ok_C07 ops paths impl) then add ("BAD\tside=impl\tclause=ok_C07:" ^ name);
           let n = Stdlib.List.length impl in
           if n <> Stdlib.List.length model then add (Printf.sprintf "DIFF\tfields=%s:count" name)
           else begin
             let rec go i a b = match a, b with
               | x :: a', y :: b' ->
                 if Router.answer_eqb x y then go (i + 1) a' b'
                 else add (Printf.sprintf "DIFF\tfields=%s%d\tmodel=%s\timpl=%s" name i (trunc (string_of_answer y)) (trunc (string_of_answer x)))
               | _ -> () in
             go 0 impl model
           end
         with Shape s -> add ("BAD\tside=impl\tclause=shape:" ^ name ^ ":" ^ trunc s) in
       check "ans"; check "vans";
       (* json_pointer::parse on every lookup path, against the model's parse *)
       (match get_opt o "pp" with
        | None -> ()
        | Some pp ->
          (try
             let impl = Stdlib.List.map parse_segs (split_on '|' pp) in
             let mdl = Stdlib.List.map JsonPtr.parse paths in
             if impl <> mdl then add (Printf.sprintf "DIFF\tfields=pp%d" (first_diff 0 impl mdl))
           with Shape s -> add ("BAD\tside=impl\tclause=shape:pp:" ^ trunc s)))
     end);
  !out

let () = run step
