(* C16: off-reader dispatch of one WebSocket connection: scripted arrivals and
   handler exits against a per-connection cap *)
open Gen
open Util

module M = OffReader

let route_of = function
  | "i" -> M.RInline | "j" -> M.RJsonBlocking | "t" -> M.RTypedBlocking | "c" -> M.RCtxBlocking
  | s -> failwith ("bad route " ^ s)

let flag = function "0" -> false | "1" -> true | s -> failwith ("bad flag " ^ s)

let how_of (s : string) : M.how =
  if s = "r" then M.Return
  else if s = "p" then M.Panic
  else if String.length s >= 2 && s.[0] = 'e' then M.Error (n_of_hex (String.sub s 1 (String.length s - 1)))
  else failwith ("bad how " ^ s)

let parse_event (s : string) : M.event =
  match split_on ':' s with
  | ["A"; id; n; r] -> M.Arrive { M.r_id = n_of_hex id; r_notify = flag n; r_route = route_of r }
  | ["X"; id; n; r; h] -> M.Exit ({ M.r_id = n_of_hex id; r_notify = flag n; r_route = route_of r }, how_of h)
  | _ -> failwith ("bad event " ^ trunc s)

let parse_outcome (s : string) : M.outcome =
  match s with
  | "a" -> M.OAdmit | "s" -> M.OReject | "d" -> M.ODrop | "o" -> M.OInlineOk | "n" -> M.OInlineRan
  | "v" -> M.OReturn | "p" -> M.OPanic | "q" -> M.OQuiet
  | _ ->
    if String.length s >= 2 && s.[0] = 'e' then M.OError (n_of_hex (String.sub s 1 (String.length s - 1)))
    else if String.length s >= 2 && s.[0] = 'x' then M.OOther (n_of_hex (String.sub s 1 (String.length s - 1)))
    else failwith ("bad outcome " ^ trunc s)

let parse_resp (s : string) : M.resp =
  match split_on ':' s with
  | [id; ec] -> (n_of_hex id, n_of_hex ec)
  | _ -> failwith ("bad response " ^ trunc s)

let parse_mode = function 'i' -> M.Inline | 'o' -> M.OffReader | _ -> failwith "bad mode"

let list_of sep f s = if s = "-" then [] else Stdlib.List.map f (split_on sep s)

let step _ cs os =
  let f = fields cs and o = fields os in
  let cap = (match get f "cap" with "-" -> None | s -> Some (n_of_hex s)) in
  let case = { M.c_cap = cap; c_mw = n_of_hex (get f "mw"); c_evs = list_of ';' parse_event (get f "ev") } in
  if not (M.c16_wf case) then failwith "ill-formed case (c16_wf = false)";
  let out = ref [] in
  let model = M.model_C16 case in
  if not (M.ok_C16 case model) then out := "BAD\tside=model\tclause=ok_C16(model)=false" :: !out;
  (match get_opt o "crash" with
   | Some c -> out := ("BAD\tside=impl\tclause=crash:" ^ c) :: !out
   | None ->
     let ms = get o "modes" in
     let impl = { M.o_maxrun = n_of_hex (get o "maxrun");
                  o_outs = list_of ',' parse_outcome (get o "outs");
                  o_resp = list_of ',' parse_resp (get o "resp");
                  o_sat = n_of_hex (get o "sat"); o_pan = n_of_hex (get o "pan");
                  o_alive = flag (get o "alive");
                  o_modes = Stdlib.List.init (String.length ms) (fun i -> parse_mode ms.[i]) } in
     if not (M.ok_C16 case impl) then
       out := (Printf.sprintf "BAD\tside=impl\tclause=ok_C16:%d" (int_of_n (M.ok_C16_clause case impl))) :: !out;
     (match get_opt o "other" with
      | Some n when n <> "0" -> out := ("BAD\tside=impl\tclause=unexpected-on_error-reports:" ^ n) :: !out
      | _ -> ());
     (match get_opt o "slowrej" with
      | Some ms -> out := ("BAD\tside=impl\tclause=refusal-at-the-cap-not-immediate:ms=" ^ ms) :: !out
      | None -> ());
     if not (M.c16_obs_eqb impl model) then begin
       let d = ref [] in
       if impl.M.o_modes <> model.M.o_modes then d := "modes" :: !d;
       if impl.M.o_alive <> model.M.o_alive then d := "alive" :: !d;
       if impl.M.o_pan <> model.M.o_pan then d := "pan" :: !d;
       if impl.M.o_sat <> model.M.o_sat then d := "sat" :: !d;
       if impl.M.o_resp <> model.M.o_resp then d := "resp" :: !d;
       if impl.M.o_outs <> model.M.o_outs then d := "outs" :: !d;
       if impl.M.o_maxrun <> model.M.o_maxrun then d := "maxrun" :: !d;
       out := ("DIFF\tfields=" ^ String.concat "," !d) :: !out
     end);
  !out

let () = run step
