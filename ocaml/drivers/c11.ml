(* C11 / C13: histories of TransferControl operations *)
open Gen
open Util

let prop = if Array.length Sys.argv > 1 then Sys.argv.(1) else "C11"

let parse_op (s : string) : Stream.op =
  match split_on ':' s with
  | ["S"; o] -> Stream.Sent (n_of_hex o)
  | ["A"; f; o] -> Stream.Ack (n_of_hex f, n_of_hex o)
  | ["V"; f] -> Stream.Advance (n_of_hex f)
  | ["R"; p; f; o] -> Stream.Resume (n_of_hex p, n_of_hex f, n_of_hex o)
  | ["C"; r] -> Stream.Cancel (n_of_hex r)
  | ["P"; off; len; l; body] -> Stream.Push (n_of_hex off, n_of_hex len, (l = "1"), bytes_of_hex body)
  | ["E"; p] -> Stream.SetPeer (n_of_hex p)
  | ["W"; l] -> Stream.TryCredit (n_of_hex l)
  | ["T"] -> Stream.TryReconnect
  | ["Q"; o] -> Stream.Replay (n_of_hex o)
  | _ -> failwith ("bad op " ^ s)

let parse_chunks (s : string) : Stream.chunk list =
  if s = "-" then [] else
  Stdlib.List.map (fun c -> match split_on '.' c with
    | [o; l; lst; b] -> { Stream.ck_off = n_of_hex o; ck_len = n_of_hex l; ck_last = (lst = "1"); ck_body = bytes_of_hex b }
    | _ -> failwith ("bad chunk " ^ c)) (split_on '+' s)

let optn s = if s = "-" then None else Some (n_of_hex s)

let parse_out (s : string) : Stream.out =
  match split_on ':' s with
  | ["-"] -> Stream.ONone
  | ["granted"] -> Stream.OGranted
  | ["ctimeout"] -> Stream.OCreditTimeout
  | ["ccan"; r] -> Stream.OCreditCancelled (n_of_hex r)
  | ["rok"; o] -> Stream.OResumeOk (n_of_hex o)
  | ["rcan"] -> Stream.ORejCancelled
  | ["rwf"; a; b] -> Stream.ORejWrongFile (n_of_hex a, n_of_hex b)
  | ["roow"] -> Stream.ORejOutOfWindow
  | ["ready"; o] -> Stream.OResumeReady (n_of_hex o)
  | ["tcan"; r] -> Stream.OReconnCancelled (n_of_hex r)
  | ["ttimeout"] -> Stream.OReconnTimeout
  | ["chunks"; cs] -> Stream.OChunks (parse_chunks cs)
  | _ -> failwith ("bad out " ^ trunc s)

let parse_step (s : string) : Stream.out * C11.snap =
  match split_on '/' s with
  | [o; sn] ->
    (match split_on ',' sn with
     | [se; ac; ca; pe; ring] ->
       (parse_out o, { C11.n_sent = n_of_hex se; n_acked = n_of_hex ac; n_cancel = optn ca; n_peer = optn pe; n_ring = parse_chunks ring })
     | _ -> failwith ("bad snap " ^ trunc sn))
  | _ -> failwith ("bad step " ^ trunc s)

let step _ cs os =
  let f = fields cs and o = fields os in
  let win = n_of_hex (get f "win") and cap = n_of_hex (get f "cap") in
  let ops = let s = get f "ops" in if s = "-" then [] else Stdlib.List.map parse_op (split_on ';' s) in
  let out = ref [] in
  if not (C11.hist_ok win cap ops) then ["DRIVER-ERROR\thistory outside the quantifier (generator bug)"] else begin
    let model = C11.model_trace win cap ops in
    let okf tr = if prop = "C13" then C11.ok_C13 cap ops tr else C11.ok_C11 win ops tr in
    if not (okf model) then out := ("BAD\tside=model\tclause=ok_" ^ prop ^ "(model)=false") :: !out;
    (match get_opt o "crash" with
     | Some c -> out := ("BAD\tside=impl\tclause=crash:" ^ c) :: !out
     | None ->
       let s = get o "steps" in
       let impl = if s = "-" then [] else Stdlib.List.map parse_step (split_on '|' s) in
       if not (okf impl) then out := ("BAD\tside=impl\tclause=ok_" ^ prop) :: !out;
       if impl <> model then begin
         (* first differing step *)
         let rec first i a b = match a, b with
           | x :: a', y :: b' -> if x = y then first (i + 1) a' b' else i
           | [], [] -> -1 | _ -> i in
         out := (Printf.sprintf "DIFF\tfields=step%d" (first 0 impl model)) :: !out
       end);
    !out
  end

let () = run step
