(* C19: fleet retry loop against scripted nodes; tag-filtered broadcast *)
open Gen
open Util

let rec nat_of_int i : Datatypes.nat = if i = 0 then Datatypes.O else Datatypes.S (nat_of_int (i - 1))

let beh c : Fleet.behaviour = match c with
  | 'R' -> Fleet.Refused | 'A' -> Fleet.AccClosed | 'I' -> Fleet.ClosedIdle | 'S' -> Fleet.Silent
  (* 'J' (harness-only): a success frame whose JSON body is incomplete: a reply that yields an error *)
  | 'M' -> Fleet.Malformed | 'E' | 'J' -> Fleet.AppError | _ -> Fleet.Success

let result_of (s : string) : Fleet.result = match s with
  | "value" -> Fleet.RValue
  | "refused" -> Fleet.RErr Fleet.KRefused | "reset" -> Fleet.RErr Fleet.KReset | "aborted" -> Fleet.RErr Fleet.KAborted
  | "notconn" -> Fleet.RErr Fleet.KNotConnected | "eof" -> Fleet.RErr Fleet.KEof | "timedout" -> Fleet.RErr Fleet.KTimedOut
  | "brokenpipe" -> Fleet.RErr Fleet.KBrokenPipe | "wouldblock" -> Fleet.RErr Fleet.KWouldBlock
  | "interrupted" -> Fleet.RErr Fleet.KInterrupted | "invalidspec" -> Fleet.RErr Fleet.KInvalidSpec
  | "servererror" -> Fleet.RErr Fleet.KServerError
  (* an error kind the model has no name for (e.g. io-Other): the fleets retry only the kinds
     listed above, so it is judged as a non-retryable error *)
  | _ -> Fleet.RErr Fleet.KInvalidSpec

let step _ cs os =
  let f = fields cs and o = fields os in
  match get_opt o "crash" with
  | Some c -> ["BAD\tside=impl\tclause=crash:" ^ c]
  | None ->
  match get_opt f "tog" with
  | Some _ ->
    (* tog=<rounds> (driver-level clauses; the model has a fixed registration): broadcasts for tag "a" on an
       async fleet while other tasks keep re-registering the nodes x<k>, alternating (tags [a], a port
       that refuses connections) and (tags [b], server B) by remove_node + add_node of the same name; the
       permanent nodes f<i> carry [a]. At every moment the nodes that carry "a" are the f nodes and the x
       nodes registered at the refusing port; server B never hosts a node that carries "a".
       "A broadcast addresses exactly the nodes carrying all requested tags": server B reads no broadcast
       request (hitb counts the requests for the case's own method read by server B). "... and returns
       exactly one result per addressed node": every returned map has an entry for every f node and no
       key besides the f and x nodes (bad counts the maps that do not). *)
    let num k = int_of_n (n_of_hex (get o k)) in
    (if num "hitb" > 0 then
       [Printf.sprintf "BAD\tside=impl\tclause=broadcast during re-registration: server B, which only ever hosts nodes without tag \"a\", read %d request(s) of broadcasts for tag \"a\" (first after round %s; \"addresses exactly the nodes carrying all requested tags\")" (num "hitb") (get o "first")]
     else []) @
    (if num "bad" > 0 then
       [Printf.sprintf "BAD\tside=impl\tclause=broadcast during re-registration: %d result map(s) lack the entry of a permanent node carrying the tag or have a foreign key (\"exactly one result per addressed node\")" (num "bad")]
     else [])
  | None ->
  match get_opt f "tags" with
  | Some tags ->
    let nt = Stdlib.List.map (fun s -> n_of_int (int_of_string s)) (split_on '.' tags) in
    let want = n_of_int (int_of_string (get f "want")) in
    let exp = Fleet.addressed nt want in
    let names = Stdlib.List.concat (Stdlib.List.mapi (fun i b -> if b then [Printf.sprintf "n%d" i] else []) exp) in
    (* slow=<i>: node i never answers: an addressed node still has exactly one (error) entry *)
    let slow = (match get_opt f "slow" with Some s -> Some (Printf.sprintf "n%s" s) | None -> None) in
    let exp_results = if names = [] then "-" else String.concat "," (Stdlib.List.map (fun n -> if Some n = slow then n ^ "!" else n) names) in
    let exp_hit = if names = [] then "-" else String.concat "," (Stdlib.List.map (fun n -> n ^ "x1") names) in
    (match get_opt f "satt" with
     | None ->
       if get o "results" <> exp_results || get o "hit" <> exp_hit then
         ["BAD\tside=impl\tclause=broadcast targets: expected results=" ^ exp_results ^ " hit=" ^ exp_hit]
       else []
     | Some satt ->
       (* satt=<n> sdelay=<ms> (harness-only switches): n attempts per node with a retry delay between them;
          node slow=<i> reads every request and stays silent until the timeout, every other node replies
          at once. "A broadcast addresses exactly the nodes carrying all requested tags and returns exactly
          one result per addressed node": the result map is judged exactly as above (the silent node's
          entry is its error). Requests seen by the nodes: a node that is not addressed sees none, an
          answering node exactly one ("stops at the first reply"), the silent node at least one and at
          most n ("makes at most the configured number of attempts"). *)
       let satt = int_of_string satt in
       let hit_ok =
         let got = if get o "hit" = "-" then [] else split_on ',' (get o "hit") in
         Stdlib.List.length got = Stdlib.List.length names &&
         Stdlib.List.for_all2 (fun g n ->
           if Some n = slow then Stdlib.List.exists (fun k -> g = Printf.sprintf "%sx%d" n k) (Stdlib.List.init satt (fun k -> k + 1))
           else g = n ^ "x1") got names in
       if get o "results" <> exp_results || not hit_ok then
         ["BAD\tside=impl\tclause=broadcast targets (silent node, " ^ string_of_int satt ^ " attempts, retry delay): expected results=" ^ exp_results ^ " hit=" ^ (if names = [] then "-" else String.concat "," (Stdlib.List.map (fun n -> if Some n = slow then Printf.sprintf "%sx1..x%d" n satt else n ^ "x1") names))]
       else [])
  | None ->
  match get_opt f "hc" with
  | Some _ ->
    (* hc=1 (driver-level clauses; the model has no health checks): caller B's request is in flight on the
       node's cached connection while a health check of the fleet fails (the node answers the probed
       endpoint with MethodNotFound). A health check is not one of B's per-attempt outcomes: the node's
       only outcome for B's request is a reply, written after the health check has returned, on the
       connection the request came on, while B's own deadline is still far away (ready=1 is the
       harness's record of that; otherwise the case is not judged). B's outcome sequence is [success]. *)
    if get o "ready" <> "1" then [] else begin
      let num k = int_of_n (n_of_hex (get o k)) in
      let out = ref [] in
      let bad c = out := ("BAD\tside=impl\tclause=" ^ c) :: !out in
      (* "stops at the first reply, success or application error, and reports that reply" *)
      if get o "res" <> "value" then
        bad ("health check failing during a call: the node answered caller B in time but B reports " ^ get o "res" ^ " (\"stops at the first reply ... and reports that reply\")");
      (* "retries only after transport-level failures": B's only attempt met a reply, so there is exactly
         one attempt and the node sees B's request exactly once *)
      if num "att" <> 1 || num "slow" <> 1 then
        bad (Printf.sprintf "health check failing during a call: caller B's request was answered in time, yet B made %d attempts and the node saw the request %d times (\"retries only after transport-level failures\")" (num "att") (num "slow"));
      (* the node was reachable and answering throughout: "a later attempt or call reconnects and succeeds
         once the node is reachable again" (within two calls, as in ok_C19) *)
      if not (Stdlib.List.mem "value" (split_on ',' (get o "follow"))) then
        bad "health check failing during a call: neither of the two calls afterwards succeeds (node wedged)";
      !out
    end
  | None ->
  match get_opt f "duo" with
  | Some _ ->
    (* duo=1 (driver-level clauses; the model has one caller per node): two concurrent callers share the
       node's cached connection. Caller A's request is read and never answered (each of its attempts meets
       "silent until timeout"); caller B's single request, sent later on the same connection, is answered
       by the node while B's own deadline is still far away (ready=1 is the harness's record that the node
       wrote that reply in time on the connection the request came on; otherwise the case is not judged).
       B's outcome sequence is therefore [success]. *)
    if get o "ready" <> "1" then [] else begin
      let max = int_of_string (get f "max") in
      let num k = int_of_n (n_of_hex (get o k)) in
      let out = ref [] in
      let bad c = out := ("BAD\tside=impl\tclause=" ^ c) :: !out in
      (* "stops at the first reply, success or application error, and reports that reply" *)
      if get o "res" <> "value" then
        bad ("two callers on one node: the node answered caller B in time but B reports " ^ get o "res" ^ " (\"stops at the first reply ... and reports that reply\")");
      (* "retries only after transport-level failures": B's only attempt met a reply, so there is exactly
         one attempt and the node sees B's request exactly once *)
      if num "att" <> 1 || num "slow" <> 1 then
        bad (Printf.sprintf "two callers on one node: caller B's request was answered in time, yet B made %d attempts and the node saw the request %d times (\"retries only after transport-level failures\")" (num "att") (num "slow"));
      (* "makes at most the configured number of attempts"; A never gets a reply, so what it reports is
         an error ("reports that reply or the last transport error") *)
      (match split_on ':' (get o "a") with
       | [a; r] ->
         if int_of_n (n_of_hex a) > max || num "hang" > max then bad "two callers on one node: caller A exceeded the configured number of attempts";
         if r = "value" || r = "value+error" then bad "two callers on one node: caller A reports a value although the node never answered it"
       | _ -> failwith "bad a");
      (* "a transport failure never leaves the node wedged, so a later attempt or call reconnects and
         succeeds once the node is reachable again" (within two calls, as in ok_C19) *)
      if not (Stdlib.List.mem "value" (split_on ',' (get o "follow"))) then
        bad "two callers on one node: neither of the two calls afterwards succeeds (node wedged)";
      !out
    end
  | None ->
    let contains s sub =(let n = String.length s and m = String.length sub in let rec f i = i + m <= n && (String.sub s i m = sub || f (i + 1)) in f 0) in
    if contains (get o "res") "value+error" || contains (get o "follow") "value+error" then
      ["BAD\tside=impl\tclause=a result carries a reply and a stale transport error at once (reports that reply OR the last transport error)"] else
    let max = nat_of_int (int_of_string (get f "max")) in
    let script = let s = get f "script" in if s = "-" then [] else Stdlib.List.init (String.length s) (fun i -> beh s.[i]) in
    let nfollow = int_of_string (get f "nfollow") in
    let follow = let s = get o "follow" in if s = "-" then [] else
      Stdlib.List.map (fun t -> match split_on ':' t with [a; r] -> (n_of_hex a, result_of r) | _ -> failwith "bad follow") (split_on ',' s) in
    let impl = { Fleet.f_attempts = n_of_hex (get o "att"); f_result = result_of (get o "res"); f_connected = (get o "conn" = "1"); f_follow = follow } in
    let model = Fleet.model_C19 max script (nat_of_int nfollow) in
    let out = ref [] in
    if not (Fleet.ok_C19 max script model) then out := "BAD\tside=model\tclause=ok_C19(model)=false" :: !out;
    if not (Fleet.ok_C19 max script impl) then out := "BAD\tside=impl\tclause=ok_C19" :: !out;
    if not (Fleet.c19_obs_eqb impl model) then out := "DIFF\tfields=attempts/result-class/connected/follow-ups" :: !out;
    (* cut=<spec> (harness-only switch): the scenario above (empty script: the node is healthy the whole time)
       ran on a fleet on which one earlier call on the cold node was abandoned by its caller (its future
       dropped before / during / after the TCP connect or while it waited for the reply). The node's
       outcome for every later attempt is "success", so the model and oracle above judge the calls as
       they are. A call that did not return within the harness's watchdog is reported as res "hung" and
       ends the case (what would have followed is reported as "skipped"); no reply was reported, so it is
       judged above as an error result: "a later attempt or call reconnects and succeeds once the node
       is reachable again". Driver-level clause for the broadcast afterwards: "A broadcast addresses
       exactly the nodes carrying all requested tags and returns exactly one result per addressed
       node" (no tags requested: the single node n0), and that result is the healthy node's reply. *)
    (match get_opt f "cut" with
     | Some _ ->
       if Stdlib.List.exists (fun t -> contains t "hung") (get o "res" :: get o "conn" :: split_on ',' (get o "follow")) then
         out := "BAD\tside=impl\tclause=after an abandoned call on a healthy node a later call did not return within the watchdog (node wedged: \"a later attempt or call reconnects and succeeds once the node is reachable again\")" :: !out;
       if get o "bc" <> "n0" && get o "bc" <> "skipped" then
         out := ("BAD\tside=impl\tclause=after an abandoned call on a healthy node the broadcast to all nodes yields " ^ get o "bc" ^ ", expected exactly one successful result for n0") :: !out
     | None -> ());
    !out

let () = run step
