(* C14: operation sequences on the registry (direct and through a mount), and
   concurrent request histories checked for linearizability against the
   sequential model / specification. *)
open Gen
open Util
module L = Stdlib.List
module R = Registry

(* ---- value text: n t f i<hex> s<hex|-> [v,v] {<hexkey|->:v,...} ---- *)
let is_run c = (c >= '0' && c <= '9') || (c >= 'a' && c <= 'f') || c = '-'
let hexrun s i = let st = !i in while !i < String.length s && is_run s.[!i] do incr i done; String.sub s st (!i - st)

let rec dec s i : Json.json =
  let c = s.[!i] in incr i;
  match c with
  | 'n' -> Json.JNull
  | 't' -> Json.JBool true
  | 'f' -> Json.JBool false
  | 'i' -> Json.JNum (n_of_hex (hexrun s i))
  | 's' -> Json.JStr (bytes_of_hex (hexrun s i))
  | '[' ->
    if s.[!i] = ']' then (incr i; Json.JArr []) else begin
      let acc = ref [] in
      let fin = ref false in
      while not !fin do
        acc := dec s i :: !acc;
        let d = s.[!i] in incr i;
        if d = ']' then fin := true else if d <> ',' then failwith "bad array text"
      done;
      Json.JArr (L.rev !acc)
    end
  | '{' ->
    if s.[!i] = '}' then (incr i; Json.JObj []) else begin
      let acc = ref [] in
      let fin = ref false in
      while not !fin do
        let k = bytes_of_hex (hexrun s i) in
        if s.[!i] <> ':' then failwith "bad object text"; incr i;
        let v = dec s i in
        acc := (k, v) :: !acc;
        let d = s.[!i] in incr i;
        if d = '}' then fin := true else if d <> ',' then failwith "bad object text"
      done;
      Json.JObj (L.rev !acc)
    end
  | _ -> failwith ("bad value text " ^ trunc s)

let json_of s = let i = ref 0 in let v = dec s i in if !i <> String.length s then failwith ("trailing value text " ^ trunc s); v
let omap_of s = match json_of s with Json.JObj m -> m | _ -> failwith "object expected"

let parse_mbody s : R.mbody =
  match s.[0] with
  | '_' -> R.MNone
  | 'j' -> R.MJson (json_of (String.sub s 1 (String.length s - 1)))
  | 'u' -> R.MUtf8 (bytes_of_hex (String.sub s 1 (String.length s - 1)))
  | 'r' -> R.MRaw (bytes_of_hex (String.sub s 1 (String.length s - 1)))
  | 'x' -> R.MUnsupported
  | _ -> failwith "bad body"

let parse_op s : R.rop =
  match split_on '|' s with
  | ["V"; p; v] -> R.RegValue (bytes_of_hex p, json_of v)
  | ["F"; p; f] -> R.RegFun (bytes_of_hex p, n_of_hex f)
  | ["S"; v] -> R.SetRoot (json_of v)
  | ["M"; o] -> R.MergeRoot (omap_of o)
  | ["A"; p; o] -> R.MergeAt (bytes_of_hex p, omap_of o)
  | ["R"; p] -> R.ReadValue (bytes_of_hex p)
  | ["D"; p; b] -> R.Dispatch (bytes_of_hex p, if b = "_" then None else Some (json_of b))
  | ["T"; p; b] -> R.Route (bytes_of_hex p, parse_mbody b)
  | _ -> failwith ("bad op " ^ trunc s)

let parse_ops s = if s = "-" then [] else L.map parse_op (split_on ';' s)

let parse_out s : R.oout =
  match s.[0] with
  | 'k' -> R.OOk (json_of (String.sub s 1 (String.length s - 1)))
  | 'u' -> R.OUnit
  | 'e' -> R.OErr (n_of_hex (String.sub s 1 (String.length s - 1)))
  | 'z' -> R.ONoRoute
  | _ -> failwith ("bad out " ^ trunc s)

let parse_log s : (BinNums.coq_N * Json.json) list =
  if s = "-" then [] else L.map (fun e -> match split_on '^' e with [f; v] -> (n_of_hex f, json_of v) | _ -> failwith "bad log") (split_on '+' s)

let variant_of (r : R.rout) = match r with
  | R.RErr R.EInvalidPointer -> "ip" | R.RErr R.EPathNotFound -> "nf" | R.RErr R.EInvalidIndex -> "ii"
  | R.RErr R.EOutOfBounds -> "oob" | R.RErr R.ERootNotObject -> "rno" | R.RErr R.EBadBody -> "bb"
  | R.RErr (R.EExec _) -> "ex" | R.RErr R.ENotBelowPrefix -> "nbp" | _ -> "-"

(* ---- sequential cases ---- *)
let step_seq f o out =
  let prefix = match get f "pre" with "none" -> None | p -> Some (bytes_of_hex p) in
  let ops = parse_ops (get f "ops") in
  let c = { R.c_prefix = prefix; c_ops = ops } in
  if not (R.c14_wf c) then failwith "case is not well formed";
  let full = R.model_full c in
  let model = R.model_C14 c in
  if not (R.ok_C14 c model) then out := "BAD\tside=model\tclause=ok_C14(model)=false" :: !out;
  match get_opt o "crash" with
  | Some cr -> out := ("BAD\tside=impl\tclause=crash:" ^ cr) :: !out
  | None ->
    let s = get o "steps" in
    let parts = if s = "-" then [] else L.map (fun st -> match split_on '/' st with
        | [o; root; lg; v; x] -> ({ R.o_out = parse_out o; o_root = json_of root; o_log = parse_log lg }, v, x)
        | _ -> failwith ("bad step " ^ trunc st)) (split_on ';' s) in
    let impl = L.map (fun (a, _, _) -> a) parts in
    if not (R.ok_C14 c impl) then begin
      let spec = R.spec_C14 c in
      let rec first i a b = match a, b with
        | x :: a', y :: b' -> if R.ostep_eqb x y then first (i + 1) a' b' else i
        | _ -> i in
      out := (Printf.sprintf "BAD\tside=impl\tclause=ok_C14:step%d" (first 0 impl spec)) :: !out
    end;
    if L.length impl <> L.length model then out := "DIFF\tfields=length" :: !out
    else begin
      let i = ref 0 and reported = ref false in
      L.iter2 (fun ((a, v, x), op) (((r, doc), _), m) ->
          if not !reported then begin
            let bad = ref [] in
            if a.R.o_out <> m.R.o_out then bad := "out" :: !bad;
            if a.R.o_root <> m.R.o_root then bad := "root" :: !bad;
            if a.R.o_log <> m.R.o_log then bad := "log" :: !bad;
            if v <> "-" && v <> variant_of r then bad := ("variant:" ^ v ^ "/" ^ variant_of r) :: !bad;
            (* the public pointer functions on the same document *)
            (match op with
             | R.ReadValue p when x <> "-" ->
               (match split_on '~' x with
                | [ev; toks] ->
                  let mev = (match R.jp_eval doc p with Some j -> R.OOk j | None -> R.ONoRoute) in
                  if parse_out ev <> mev then bad := "eval_json_pointer" :: !bad;
                  let mt = R.jp_parse p in
                  let it = if toks = "_" then [] else L.map bytes_of_hex (split_on '.' toks) in
                  if it <> mt then bad := "parse_json_pointer" :: !bad;
                  (* the RFC 6901 oracle on what the implementation returned, over its own document *)
                  let iev = (match parse_out ev with R.OOk j -> Some j | _ -> None) in
                  if not (R.ok_jp a.R.o_root p it iev) then
                    out := (Printf.sprintf "BAD\tside=impl\tclause=ok_jp:step%d (parse_json_pointer / eval_json_pointer against RFC 6901)" !i) :: !out
                | _ -> failwith "bad extra")
             | _ -> ());
            if !bad <> [] then begin
              reported := true;
              out := (Printf.sprintf "DIFF\tfields=step%d:%s" !i (String.concat "," !bad)) :: !out
            end
          end;
          incr i) (L.combine parts ops) (L.combine full model)
    end

(* ---- concurrent histories ---- *)
type cop = { op : R.rop; s : int; e : int; out : R.oout }

(* is there an order of all operations, respecting real time (a precedes b when
   a returned before b was invoked), in which [step] gives every observed
   answer and the observed final document? *)
let linearizable (type st) (step : st -> R.rop -> st * R.oout) (root_of : st -> Json.json)
    (init : st) (ths : cop array array) (final_root : Json.json) : bool =
  let n = Array.length ths in
  let seen = Hashtbl.create 1024 in
  let rec go (pos : int list) (st : st) : bool =
    let posa = Array.of_list pos in
    if Array.for_all (fun x -> x) (Array.mapi (fun t p -> p >= Array.length ths.(t)) posa) then root_of st = final_root
    else begin
      let key = (pos, root_of st) in
      if Hashtbl.mem seen key then false else begin
        Hashtbl.add seen key ();
        let ok = ref false in
        for t = 0 to n - 1 do
          if not !ok && posa.(t) < Array.length ths.(t) then begin
            let a = ths.(t).(posa.(t)) in
            let minimal = ref true in
            for u = 0 to n - 1 do
              if u <> t && posa.(u) < Array.length ths.(u) && ths.(u).(posa.(u)).e < a.s then minimal := false
            done;
            if !minimal then begin
              let (st', o) = step st a.op in
              if o = a.out then
                ok := go (L.mapi (fun i p -> if i = t then p + 1 else p) pos) st'
            end
          end
        done;
        !ok
      end
    end in
  go (L.init n (fun _ -> 0)) init

let step_conc f o out =
  let setup = parse_ops (get f "setup") in
  let thops = L.map parse_ops (split_on '!' (get f "th")) in
  match get_opt o "crash" with
  | Some cr -> out := ("BAD\tside=impl\tclause=crash:" ^ cr) :: !out
  | None ->
    let res = L.map (fun t -> if t = "-" then [] else L.map (fun r ->
        match split_on '.' r with
        | [s; e; o] -> (int_of_string ("0x" ^ s), int_of_string ("0x" ^ e), parse_out o)
        | _ -> failwith "bad result") (split_on ';' t)) (split_on '!' (get o "res")) in
    if L.length res <> L.length thops then failwith "thread count";
    let ths = Array.of_list (L.map2 (fun ops rs ->
        if L.length ops <> L.length rs then failwith "op count";
        Array.of_list (L.map2 (fun op (s, e, o) -> { op; s; e; out = o }) ops rs)) thops res) in
    L.iter (fun ops -> L.iter (fun op -> if not (R.is_request op) then failwith "not a request") ops) thops;
    let final_root = json_of (get o "root") and init_root = json_of (get o "init") in
    let obs_log = L.sort compare (parse_log (get o "log")) in
    (* model side *)
    let m0 = L.fold_left (fun st op -> let ((st', _), _) = R.rstep None st op in st') R.rstate0 setup in
    let mstep st op = let ((st', r), _) = R.rstep None st op in (st', R.obs_out r) in
    if m0.R.r_root <> init_root then out := "DIFF\tfields=init" :: !out;
    let mlog = L.sort compare (L.concat_map (fun ops -> L.concat_map (fun op -> let ((_, _), lg) = R.rstep None m0 op in lg) ops) thops) in
    if mlog <> obs_log then out := "DIFF\tfields=log" :: !out;
    if not (linearizable mstep (fun st -> st.R.r_root) m0 ths final_root) then out := "DIFF\tfields=no_sequential_order(model)" :: !out;
    (* specification side: the oracle *)
    let s0 = L.fold_left (fun st op -> let ((st', _), _) = R.sstep None st op in st') R.sstate0 setup in
    let sstep st op = let ((st', r), _) = R.sstep None st op in (st', r) in
    let slog = L.sort compare (L.concat_map (fun ops -> L.concat_map (fun op -> let ((_, _), lg) = R.sstep None s0 op in lg) ops) thops) in
    if s0.R.s_doc <> init_root || slog <> obs_log then out := "BAD\tside=impl\tclause=calls_exactly_once" :: !out;
    if not (linearizable sstep (fun st -> st.R.s_doc) s0 ths final_root) then out := "BAD\tside=impl\tclause=not_linearizable" :: !out

(* ---- concurrent histories, several rounds per case (rounds= field) ----
   Besides requests the threads may contain (a) merge_at operations and (b) register_function
   operations at pointers that already hold a callable after the setup.  Both are judged like
   requests, by the search for a sequential order of the extracted model / specification:
   the statement says "For every sequence of registrations, merges, reads, writes and calls the
   registry answers as a plain JSON document plus a set of callables would" and "concurrent
   requests are serialised: every outcome equals some sequential order".  With the SET of callable
   pointers fixed, a write request's decision "is this pointer a callable?" does not depend on
   where a re-registration falls, so every operation here has one place in the order.
   Per operation the calls it made are observed ("a callable is invoked exactly once, with the
   supplied body, only for a non-empty body at exactly its escape-normalised pointer"): the order
   must also explain WHICH callable each call ran, in particular "a call that starts after
   register_function returned runs the new callable" (real-time order).
   The memo key is the whole state (document and callable table). *)
type copl = { op' : R.rop; s' : int; e' : int; out' : R.oout; lg' : (BinNums.coq_N * Json.json) list }

let linearizable_full (type st) (step : st -> R.rop -> (st * R.oout) * (BinNums.coq_N * Json.json) list)
    (root_of : st -> Json.json) (init : st) (ths : copl array array) (final_root : Json.json) : bool =
  let n = Array.length ths in
  let seen = Hashtbl.create 1024 in
  let rec go (pos : int list) (st : st) : bool =
    let posa = Array.of_list pos in
    if Array.for_all (fun x -> x) (Array.mapi (fun t p -> p >= Array.length ths.(t)) posa) then root_of st = final_root
    else begin
      let key = (pos, st) in
      if Hashtbl.mem seen key then false else begin
        Hashtbl.add seen key ();
        let ok = ref false in
        for t = 0 to n - 1 do
          if not !ok && posa.(t) < Array.length ths.(t) then begin
            let a = ths.(t).(posa.(t)) in
            let minimal = ref true in
            for u = 0 to n - 1 do
              if u <> t && posa.(u) < Array.length ths.(u) && ths.(u).(posa.(u)).e' < a.s' then minimal := false
            done;
            if !minimal then begin
              let ((st', o), lg) = step st a.op' in
              if o = a.out' && lg = a.lg' then
                ok := go (L.mapi (fun i p -> if i = t then p + 1 else p) pos) st'
            end
          end
        done;
        !ok
      end
    end in
  go (L.init n (fun _ -> 0)) init

let step_conc_rounds f o out =
  let setup = parse_ops (get f "setup") in
  let prefix = match get_opt f "pre" with None | Some "none" -> None | Some p -> Some (bytes_of_hex p) in
  let thops = L.map parse_ops (split_on '!' (get f "th")) in
  match get_opt o "crash" with
  | Some cr -> out := ("BAD\tside=impl\tclause=crash:" ^ cr ^ " (a request did not return)") :: !out
  | None ->
    let m0 = L.fold_left (fun st op -> let ((st', _), _) = R.rstep prefix st op in st') R.rstate0 setup in
    let s0 = L.fold_left (fun st op -> let ((st', _), _) = R.sstep prefix st op in st') R.sstate0 setup in
    (* well-formedness of the case: what may run concurrently *)
    L.iter (fun ops -> L.iter (fun op ->
        match op with
        | R.ReadValue _ | R.Dispatch _ | R.Route _ | R.MergeAt _ -> ()
        | R.RegFun (p, _) -> if not (L.mem_assoc p m0.R.r_funs) then failwith "concurrent registration at a pointer that holds no callable"
        | _ -> failwith "operation not allowed in a concurrent history") ops) thops;
    let init_root = json_of (get o "init") in
    if m0.R.r_root <> init_root then out := "DIFF\tfields=init" :: !out;
    if s0.R.s_doc <> init_root then out := "BAD\tside=impl\tclause=setup_document" :: !out;
    let ress = split_on '@' (get o "res") and roots = split_on '@' (get o "root") in
    let nr = int_of_string ("0x" ^ get f "rounds") in
    let logs = if get o "log" = "-" then L.init nr (fun _ -> "-") else split_on '@' (get o "log") in
    if L.length ress <> nr || L.length roots <> nr || L.length logs <> nr then failwith "round count";
    let reported = ref false in
    L.iteri (fun r (rs, (root, lg)) ->
        if not !reported then begin
          let res = L.map (fun t -> if t = "-" then [] else L.map (fun x ->
              match split_on '.' x with
              | [s; e; o; l] -> (int_of_string ("0x" ^ s), int_of_string ("0x" ^ e), parse_out o, parse_log l)
              | _ -> failwith "bad result") (split_on ';' t)) (split_on '!' rs) in
          if L.length res <> L.length thops then failwith "thread count";
          let ths = Array.of_list (L.map2 (fun ops rs ->
              if L.length ops <> L.length rs then failwith "op count";
              Array.of_list (L.map2 (fun op (s, e, o, l) -> { op' = op; s' = s; e' = e; out' = o; lg' = l }) ops rs)) thops res) in
          let final_root = json_of root in
          (* the calls seen by the callables are the calls attributed to the operations *)
          let per_op = L.sort compare (L.concat_map (fun t -> L.concat_map (fun (_, _, _, l) -> l) t) res) in
          if per_op <> L.sort compare (parse_log lg) then failwith "call log and per-operation logs differ";
          if not (linearizable_full (fun st op -> let ((st', r), lg) = R.rstep prefix st op in ((st', R.obs_out r), lg)) (fun st -> st.R.r_root) m0 ths final_root) then begin
            reported := true; out := (Printf.sprintf "DIFF\tfields=no_sequential_order(model):round%d" r) :: !out end;
          if not (linearizable_full (R.sstep prefix) (fun st -> st.R.s_doc) s0 ths final_root) then begin
            reported := true; out := (Printf.sprintf "BAD\tside=impl\tclause=not_linearizable:round%d" r) :: !out end
        end) (L.combine ress (L.combine roots logs))

let step _ cs os =
  let f = fields cs and o = fields os in
  let out = ref [] in
  (match get f "k" with
   | "seq" -> step_seq f o out
   | "conc" -> if get_opt f "rounds" <> None then step_conc_rounds f o out else step_conc f o out
   | k -> failwith ("bad kind " ^ k));
  !out

let () = run step
