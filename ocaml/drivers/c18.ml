(* C18: histories of PeerRegistry operations *)
open Gen
open Util

(* K:<id>:<key>:<inner op>: an alias call whose key conversion performed <inner op>; the
   registry lock is taken after the conversion, so the history linearises as inner; alias
   (the harness reports one observation for each) *)
let rec parse_ops (s : string) : Peers.pop list =
  match split_on ':' s with
  | "K" :: i :: k :: inner -> parse_ops (String.concat ":" inner) @ [Peers.PAlias (n_of_hex i, n_of_hex k)]
  (* R:<b>: a broadcast during which every notified sink removes peer b: the peers addressed are
     those present at the moment of the call (b included), then b is gone *)
  | ["R"; b] -> [Peers.PBroadcast; Peers.PRemove (n_of_hex b)]
  | _ -> [parse_op s]
and parse_op (s : string) : Peers.pop =
  match split_on ':' s with
  | ["I"; i] -> Peers.PInsert (n_of_hex i)
  | ["X"; i] -> Peers.PRemove (n_of_hex i)
  | ["L"; i; k] | ["S"; i; k] -> Peers.PAlias (n_of_hex i, n_of_hex k)
  | ["B"] -> Peers.PBroadcast
  | _ -> failwith ("bad op " ^ s)

let nlist s = if s = "-" then [] else Stdlib.List.map n_of_hex (split_on '.' s)
let optn s = if s = "-" then None else Some (n_of_hex s)

let parse_out (s : string) : Peers.pout =
  if s = "u" then Peers.PUnit
  else if s = "b0" then Peers.PBool false
  else if s = "b1" then Peers.PBool true
  else if String.length s >= 6 && String.sub s 0 6 = "idsBAD" then Peers.PIds [n_of_int 999999]
  else if String.length s >= 3 && String.sub s 0 3 = "ids" then Peers.PIds (nlist (String.sub s 3 (String.length s - 3)))
  else failwith ("bad out " ^ s)

let parse_step (s : string) : Peers.pobs =
  match split_on '/' s with
  | [o; len; present; by; al; kf] ->
    { Peers.b_out = parse_out o; b_len = n_of_hex len;
      b_present = Stdlib.List.init (String.length present) (fun i -> present.[i] = '1');
      b_by_key = Stdlib.List.map optn (split_on ',' by);
      b_aliases = Stdlib.List.map nlist (split_on ',' al);
      b_key_for = Stdlib.List.map optn (split_on ',' kf) }
  | _ -> failwith ("bad step " ^ trunc s)

(* ---- concurrent histories (k=conc): mutators and queries on one shared registry ---- *)
type cop = M of Peers.pop | QGet of BinNums.coq_N | QBy of BinNums.coq_N | QAliases of BinNums.coq_N
         | QKeyFor of BinNums.coq_N | QLen
type cres = RO of Peers.pout | RB of bool | RK of BinNums.coq_N option | RL of BinNums.coq_N list | RN of BinNums.coq_N
type cev = { op : cop; s : int; e : int; res : cres }

let parse_cop (s : string) : cop =
  match split_on ':' s with
  | ["G"; i] -> QGet (n_of_hex i) | ["Y"; k] -> QBy (n_of_hex k) | ["A"; i] -> QAliases (n_of_hex i)
  | ["F"; i] -> QKeyFor (n_of_hex i) | ["N"] -> QLen
  | _ -> M (parse_op s)

let parse_cres (s : string) : cres =
  let rest = String.sub s 1 (String.length s - 1) in
  match s.[0] with
  | 'g' -> RB (rest = "1") | 'y' -> RK (optn rest) | 'a' -> RL (nlist rest) | 'f' -> RK (optn rest)
  | 'n' -> RN (n_of_hex rest)
  | _ -> RO (parse_out s)

(* "s.e.out": only the first two dots separate *)
let parse_cev (op : cop) (r : string) : cev =
  let i = String.index r '.' in let j = String.index_from r (i + 1) '.' in
  { op; s = int_of_string ("0x" ^ String.sub r 0 i); e = int_of_string ("0x" ^ String.sub r (i + 1) (j - i - 1));
    res = parse_cres (String.sub r (j + 1) (String.length r - j - 1)) }

(* the answer of a query in a state, through the extracted observation function *)
let query (obs : BinNums.coq_N list -> BinNums.coq_N list -> Peers.pobs) (q : cop) : cres =
  let hd l = match l with x :: _ -> x | [] -> failwith "empty observation" in
  match q with
  | QGet i -> RB (hd (obs [i] []).Peers.b_present)
  | QBy k -> RK (hd (obs [] [k]).Peers.b_by_key)
  | QAliases i -> RL (hd (obs [i] []).Peers.b_aliases)
  | QKeyFor i -> RK (hd (obs [i] []).Peers.b_key_for)
  | QLen -> RN (obs [] []).Peers.b_len
  | M _ -> failwith "not a query"

(* Wing-Gong search: an order of all operations that respects real time (a before b when a
   responded before b was invoked), gives every observed result and ends in the observed state *)
let linearizable (type st) (mut : st -> Peers.pop -> st * Peers.pout)
    (obs : st -> BinNums.coq_N list -> BinNums.coq_N list -> Peers.pobs)
    (init : st) (ths : cev array array) (final_ok : st -> bool) : bool =
  let n = Array.length ths in
  let seen = Hashtbl.create 256 in
  let rec go (pos : int list) (st : st) : bool =
    let posa = Array.of_list pos in
    let fin = ref true in
    Array.iteri (fun t p -> if p < Array.length ths.(t) then fin := false) posa;
    if !fin then final_ok st
    else if Hashtbl.mem seen (pos, st) then false
    else begin
      Hashtbl.add seen (pos, st) ();
      let ok = ref false in
      for t = 0 to n - 1 do
        if not !ok && posa.(t) < Array.length ths.(t) then begin
          let a = ths.(t).(posa.(t)) in
          let minimal = ref true in
          for u = 0 to n - 1 do
            if u <> t && posa.(u) < Array.length ths.(u) && ths.(u).(posa.(u)).e < a.s then minimal := false
          done;
          if !minimal then begin
            let (st', r) = (match a.op with
                | M o -> let (st', r) = mut st o in (st', RO r)
                | q -> (st, query (obs st) q)) in
            if r = a.res then ok := go (Stdlib.List.mapi (fun i p -> if i = t then p + 1 else p) pos) st'
          end
        end
      done;
      !ok
    end in
  go (Stdlib.List.init n (fun _ -> 0)) init

(* one concurrent history: the observed initial state, the per-thread results and the observed
   final state against the specification (oracle) and the concrete model *)
let judge_history ids keys pre thops (init_s : string) (res_s : string) (final_s : string) : string list =
  let out = ref [] in
  let res = Stdlib.List.map (fun t -> if t = "-" then [] else split_on ';' t) (split_on '!' res_s) in
  if Stdlib.List.length res <> Stdlib.List.length thops then failwith "thread count";
  let ths = Array.of_list (Stdlib.List.map2 (fun ops rs ->
      if Stdlib.List.length ops <> Stdlib.List.length rs then failwith "op count";
      Array.of_list (Stdlib.List.map2 parse_cev ops rs)) thops res) in
  let init = parse_step init_s and final = parse_step final_s in
  (* specification side: the oracle *)
  let s0 = Stdlib.List.fold_left (fun s op -> fst (Peers.sstep s op)) Peers.pspec_empty pre in
  let sobs s i k = Peers.sobserve i k Peers.PUnit s in
  if sobs s0 ids keys <> init then out := "BAD\tside=impl\tclause=state after the sequential prefix" :: !out
  else if not (linearizable Peers.sstep sobs s0 ths (fun s -> sobs s ids keys = final)) then
    out := "BAD\tside=impl\tclause=not linearizable" :: !out;
  (* concrete model side *)
  let m0 = Stdlib.List.fold_left (fun s op -> fst (Peers.pstep s op)) Peers.preg_empty pre in
  let mobs s i k = Peers.observe i k Peers.PUnit s in
  if mobs m0 ids keys <> init then out := "DIFF\tfields=init" :: !out
  else if not (linearizable Peers.pstep mobs m0 ths (fun s -> mobs s ids keys = final)) then
    out := "DIFF\tfields=no_sequential_order(model)" :: !out;
  !out

(* rounds=<n>: the same history n times, each round on a fresh registry brought to the same
   state by `pre` (res= and final= carry one entry per round, separated by '@').  Every round is
   an ordinary concurrent history and is judged like one; the first round that fails is reported. *)
let step_conc f o =
  let ids = nlist (get f "ids") and keys = nlist (get f "keys") in
  let pre = let s = get f "pre" in if s = "-" then [] else Stdlib.List.map parse_op (split_on ';' s) in
  let thops = Stdlib.List.map (fun t -> if t = "-" then [] else Stdlib.List.map parse_cop (split_on ';' t)) (split_on '!' (get f "th")) in
  match get_opt o "crash" with
  | Some c -> ["BAD\tside=impl\tclause=crash:" ^ c]
  | None ->
    (match get_opt f "rounds" with
     | None -> judge_history ids keys pre thops (get o "init") (get o "res") (get o "final")
     | Some nr ->
       let nr = int_of_string ("0x" ^ nr) in
       let init_s = get o "init" in
       begin
         let ress = split_on '@' (get o "res") and finals = split_on '@' (get o "final") in
         if Stdlib.List.length ress <> nr || Stdlib.List.length finals <> nr then failwith "round count";
         let rec first r rs fs = match rs, fs with
           | x :: rs', y :: fs' ->
             (match judge_history ids keys pre thops init_s x y with
              | [] -> first (r + 1) rs' fs'
              | reps -> Stdlib.List.map (fun rep -> Printf.sprintf "%s:round%d" rep r) reps)
           | _ -> [] in
         first 0 ress finals
       end)

let step _ cs os =
  let f = fields cs and o = fields os in
  if get_opt f "k" = Some "conc" then step_conc f o else
  let ids = nlist (get f "ids") and keys = nlist (get f "keys") in
  let ops = let s = get f "ops" in if s = "-" then [] else Stdlib.List.concat (Stdlib.List.map parse_ops (split_on ';' s)) in
  let out = ref [] in
  let model = Peers.model_C18 ids keys ops in
  if not (Peers.ok_C18 ids keys ops model) then out := "BAD\tside=model\tclause=ok_C18(model)=false" :: !out;
  (match get_opt o "crash" with
   | Some c -> out := ("BAD\tside=impl\tclause=crash:" ^ c) :: !out
   | None ->
     let s = get o "steps" in
     let impl = if s = "-" then [] else Stdlib.List.map parse_step (split_on '|' s) in
     if not (Peers.ok_C18 ids keys ops impl) then out := "BAD\tside=impl\tclause=ok_C18" :: !out;
     if impl <> model then begin
       let rec first i a b = match a, b with
         | x :: a', y :: b' -> if x = y then first (i + 1) a' b' else i
         | [], [] -> -1 | _ -> i in
       out := (Printf.sprintf "DIFF\tfields=step%d" (first 0 impl model)) :: !out
     end);
  !out

let () = run step
