(* C18: histories of PeerRegistry operations *)
open Gen
open Util

(* K:<id>:<key>:<inner op>: an alias call whose key conversion performed <inner op>; the
   registry lock is taken after the conversion, so the history linearises as inner; alias
   (the harness reports one observation for each) *)
let rec parse_ops (s : string) : Peers.pop list =
  match split_on ':' s with
  | "K" :: i :: k :: inner -> parse_ops (String.concat ":" inner) @ [Peers.PAlias (n_of_hex i, n_of_hex k)]
  | _ -> [parse_op s]
and parse_op (s : string) : Peers.pop =
  match split_on ':' s with
  | ["I"; i] -> Peers.PInsert (n_of_hex i)
  | ["X"; i] -> Peers.PRemove (n_of_hex i)
  | ["L"; i; k] -> Peers.PAlias (n_of_hex i, n_of_hex k)
  | ["B"] -> Peers.PBroadcast
  | _ -> failwith ("bad op " ^ s)

let nlist s = if s = "-" then [] else Stdlib.List.map n_of_hex (split_on '.' s)
let optn s = if s = "-" then None else Some (n_of_hex s)

let parse_out (s : string) : Peers.pout =
  if s = "u" then Peers.PUnit
  else if s = "b0" then Peers.PBool false
  else if s = "b1" then Peers.PBool true
  else if String.length s >= 6 && String.sub s 0 6 = "idsBAD" then Peers.PIds [n_of_int 999999]
  else if String.length s >= 3 && String.sub s 0 3 = "ids" then Peers.PIds (nlist (String.sub s 3 (String.length s - 3)))
  else failwith ("bad out " ^ s)

let parse_step (s : string) : Peers.pobs =
  match split_on '/' s with
  | [o; len; present; by; al; kf] ->
    { Peers.b_out = parse_out o; b_len = n_of_hex len;
      b_present = Stdlib.List.init (String.length present) (fun i -> present.[i] = '1');
      b_by_key = Stdlib.List.map optn (split_on ',' by);
      b_aliases = Stdlib.List.map nlist (split_on ',' al);
      b_key_for = Stdlib.List.map optn (split_on ',' kf) }
  | _ -> failwith ("bad step " ^ trunc s)

let step _ cs os =
  let f = fields cs and o = fields os in
  let ids = nlist (get f "ids") and keys = nlist (get f "keys") in
  let ops = let s = get f "ops" in if s = "-" then [] else Stdlib.List.concat (Stdlib.List.map parse_ops (split_on ';' s)) in
  let out = ref [] in
  let model = Peers.model_C18 ids keys ops in
  if not (Peers.ok_C18 ids keys ops model) then out := "BAD\tside=model\tclause=ok_C18(model)=false" :: !out;
  (match get_opt o "crash" with
   | Some c -> out := ("BAD\tside=impl\tclause=crash:" ^ c) :: !out
   | None ->
     let s = get o "steps" in
     let impl = if s = "-" then [] else Stdlib.List.map parse_step (split_on '|' s) in
     if not (Peers.ok_C18 ids keys ops impl) then out := "BAD\tside=impl\tclause=ok_C18" :: !out;
     if impl <> model then begin
       let rec first i a b = match a, b with
         | x :: a', y :: b' -> if x = y then first (i + 1) a' b' else i
         | [], [] -> -1 | _ -> i in
       out := (Printf.sprintf "DIFF\tfields=step%d" (first 0 impl model)) :: !out
     end);
  !out

let () = run step
