(* C09: value-stream pulls.  For compression = none the model predicts the whole
   exchange from the case.  For zstd the compressor is outside the model: the
   byte stream that reached the sink is taken from the observation (the
   concatenation of the pulled bodies) and the model predicts how it is cut into
   chunks, where the end marker goes and what the pullers return; the oracle
   checks the decompressed bytes (supplied by the harness) against the case. *)
open Gen
open Util

let starts p s = String.length s >= String.length p && String.sub s 0 (String.length p) = p
let after p s = String.sub s (String.length p) (String.length s - String.length p)

let parse_resp (s : string) : Svs.resp =
  if starts "c0." s then Svs.RChunk (bytes_of_hex (after "c0." s), false)
  else if starts "c1." s then Svs.RChunk (bytes_of_hex (after "c1." s), true)
  else if starts "e." s then Svs.RErr (n_of_hex (after "e." s))
  else failwith ("bad response " ^ trunc s)

let parse_resps s = if s = "-" then [] else Stdlib.List.map parse_resp (split_on '|' s)

exception Timeout
let parse_hl (s : string) : Svs.hlres =
  if starts "ok:" s then Svs.HBytes (bytes_of_hex (after "ok:" s))
  else if starts "err" s then Svs.HErr
  else if s = "timeout" then raise Timeout
  else failwith ("bad puller result " ^ trunc s)

let optn s = if s = "-" then None else Some (n_of_hex s)
let nlist s = if s = "-" then [] else Stdlib.List.map n_of_hex (split_on '.' s)

let rec repeat0 k acc = if k <= 0 then acc else repeat0 (k - 1) (n_of_int 0 :: acc)

let hl_eq a b = match a, b with
  | None, None -> true
  | Some x, Some y -> Svs.hlres_eqb x y
  | _ -> false

(* dup=1: two connections pull the same stream id; the second `next` is queued behind the one that
   delivers the final chunk.  The model serialises them on the session table: the first gets what
   [next_handler] returns on the opened table, the second what it returns on the table left behind. *)
let dup_step cs os =
  let f = fields cs and o = fields os in
  match get_opt o "crash" with
  | Some c -> ["BAD\tside=impl\tclause=crash:" ^ c]
  | None ->
    let data = bytes_of_hex (get f "data") in
    let n = int_of_n (n_of_hex (get f "n")) in
    let rec nat_of_int k = if k <= 0 then Datatypes.O else Datatypes.S (nat_of_int (k - 1)) in
    let t0 = Svs.open_handler (nat_of_int n) [data] false in
    let (r1, t1) = Svs.next_handler t0 in
    let (r2, _) = Svs.next_handler t1 in
    let show = function
      | Svs.RChunk (b, l) -> "c" ^ hex_of_bytes b ^ ":" ^ (if l then "1" else "0")
      | Svs.RErr _ -> "e" in
    let cls s = if String.length s >= 1 && s.[0] = 'e' then "e" else s in
    let a = cls (get o "dupa") and b = cls (get o "dupb") in
    let bad = ref [] in
    (* either connection may win the race for the session; what matters is that the two replies are
       the model's two replies *)
    let m1 = show r1 and m2 = show r2 in
    let norm x = if x = "c-:1" then "c:1" else x in
    let (a, b, m1, m2) = (norm a, norm b, norm m1, norm m2) in
    if not ((a = m1 && b = m2) || (a = m2 && b = m1)) then
      bad := ("BAD\tside=impl\tclause=two pulls of one stream id: replies " ^ a ^ " / " ^ b ^ ", the model gives " ^ m1 ^ " then " ^ m2 ^ " (exactly one end marker)") :: !bad;
    !bad

(* the ordinary case record of a case line (the harness-only case kinds carry the same fields) *)
let case_of f ~data ~cj =
  { Svs.c_data = data; c_n = n_of_hex (get f "n"); c_depth = n_of_hex (get f "d");
    c_writes = []; c_fail = None; c_zstd = false;
    c_kind = n_of_hex (get f "kind"); c_puller = n_of_hex (get f "pull");
    c_cancel_after = cj; c_panic = false }

(* conc=K: K consumers pull K different resources of one server at the same moment, many rounds.
   Each pull is an ordinary pull of its own resource: property text "the concatenation of the chunks a
   consumer pulls is exactly the byte stream the producer emitted (after decompression, exactly the
   producer's logical bytes)".  Uncompressed: the model's observation of that resource with the
   puller's result put in is handed to ok_C09; zstd: the oracle's clause [hl_is] itself. *)
let conc_step cs os =
  let f = fields cs and o = fields os in
  match get_opt o "crash" with
  | Some c -> ["BAD\tside=impl\tclause=crash:" ^ c]
  | None ->
    let k = int_of_n (n_of_hex (get f "conc")) and len = int_of_n (n_of_hex (get f "len")) in
    let dh = get f "data" and z = (get f "z" = "1") in
    if len > 0 && String.length dh <> 2 * k * len then failwith "conc: data length";
    let bad = ref [] in
    for j = k - 1 downto 0 do
      let data = if len = 0 then [] else bytes_of_hex (String.sub dh (2 * j * len) (2 * len)) in
      let rs = match get_opt o (Printf.sprintf "r%d" j) with Some s when s <> "" -> split_on '|' s | _ -> failwith "conc: a consumer without results" in
      let c = case_of f ~data ~cj:(n_of_int 0) in
      let c = { c with Svs.c_zstd = z } in
      let m = if z then None else (if not (Svs.c09_wf c) then failwith "conc: case not wf"; Some (Svs.model_C09 c)) in
      Stdlib.List.iter (fun r ->
        let ok = match (try Some (parse_hl r) with Timeout -> None) with
          | None -> false
          | Some h ->
            (match m with
             | Some m -> Svs.ok_C09 c { m with Svs.o_vec = h }
             | None -> Svs.hl_is h (Some data)) in
        if not ok then
          bad := (Printf.sprintf "BAD\tside=impl\tclause=concurrent pulls of different resources: consumer %d got %s instead of exactly its own producer's bytes" j (trunc r)) :: !bad) rs
    done;
    !bad

(* park=1: a cancel is acknowledged while an earlier `next` of that stream is parked on a stalled
   producer.  The responses before the cancel (the parked one included, if it delivered a chunk) are
   the cancel-stream pulls of the ordinary case, every `next` after the acknowledgement is its
   after-cancel response: ok_C09's "pulling past the end or after release is an error". *)
let park_step cs os =
  let f = fields cs and o = fields os in
  match get_opt o "crash" with
  | Some c -> ["BAD\tside=impl\tclause=crash:" ^ c]
  | None ->
    let pre = parse_resps (get o "pre") and parked = parse_resp (get o "parked") in
    let later = parse_resps (get o "later") in
    if later = [] then failwith "park: no later next";
    (* a parked `next` answered with an error was overtaken by the cancel: one more after-cancel response *)
    let (before, after) = if Svs.is_err parked then (pre, parked :: later) else (pre @ [parked], later) in
    let c = case_of f ~data:(bytes_of_hex (get f "data")) ~cj:(n_of_int (Stdlib.List.length before)) in
    if not (Svs.c09_wf c) then failwith "park: case not wf";
    let m = Svs.model_C09 c in
    let bad = ref [] in
    Stdlib.List.iteri (fun i r ->
      if not (Svs.ok_C09 c { m with Svs.o_cancel_pulls = before; o_after_cancel = r }) then
        bad := (Printf.sprintf "BAD\tside=impl\tclause=ok_C09: cancel acknowledged while a next was parked, %s" (if Svs.is_err r then "the chunks delivered before it are not the stream's" else Printf.sprintf "next %d after it is not an error" (i + 1))) :: !bad) after;
    Stdlib.List.rev !bad

(* early=<mode>: a puller whose decoder stopped early has returned: the stream is released, every raw
   `next` afterwards takes the place of the after-cancel response of the ordinary case ("pulling past
   the end or after release is an error"); a prefix the consumer read is a delivered-before-release
   chunk (it must be a prefix of the producer's bytes). *)
let early_step cs os =
  let f = fields cs and o = fields os in
  match get_opt o "crash" with
  | Some c -> ["BAD\tside=impl\tclause=crash:" ^ c]
  | None ->
    let probes = parse_resps (get o "probes") in
    if probes = [] then failwith "early: no probe";
    let pre = match get o "prefix" with "-" -> [] | h -> [Svs.RChunk (bytes_of_hex h, false)] in
    let c = case_of f ~data:(bytes_of_hex (get f "data")) ~cj:(n_of_int (Stdlib.List.length pre)) in
    if not (Svs.c09_wf c) then failwith "early: case not wf";
    let m = Svs.model_C09 c in
    let bad = ref [] in
    Stdlib.List.iteri (fun i r ->
      if not (Svs.ok_C09 c { m with Svs.o_cancel_pulls = pre; o_after_cancel = r }) then
        bad := (Printf.sprintf "BAD\tside=impl\tclause=ok_C09: the puller returned (its decoder was done early), %s" (if Svs.is_err r then "the prefix it read is not the stream's" else Printf.sprintf "but next on stream id %d is not an error" (i + 1))) :: !bad) probes;
    Stdlib.List.rev !bad

(* rel=1: the stream of a high-level puller is released (request-form cancel from a second connection,
   acknowledged) while its producer waits at a gate after g bytes; at least two chunks of the stream do
   not exist before the acknowledgement, so the puller has to ask for a `next` after the release.
   Property text: "pulling past the end or after release is an error" and "Exactly one pulled chunk,
   the final one, carries the end marker": a released stream never yields a clean end, so the puller
   must fail - it must not return the prefix it has as a complete stream.  Judged by the extracted
   oracle: the second connection's own `next` takes the place of the after-cancel response of the
   ordinary case; for the puller's result the ordinary case whose stream breaks off after the g bytes
   (c_fail = Some g) stands in - of it ok_C09 asks exactly that the puller reports an error. *)
let rel_step cs os =
  let f = fields cs and o = fields os in
  match get_opt o "crash" with
  | Some c -> ["BAD\tside=impl\tclause=crash:" ^ c]
  | None ->
    let data = bytes_of_hex (get f "data") in
    let c = case_of f ~data ~cj:(n_of_int 0) in
    if not (Svs.c09_wf c) then failwith "rel: case not wf";
    let m = Svs.model_C09 c in
    let cf = { c with Svs.c_fail = Some (n_of_hex (get f "g")) } in
    if not (Svs.c09_wf cf) then failwith "rel: stand-in case not wf";
    let mf = Svs.model_C09 cf in
    let bad = ref [] in
    let ac = parse_resp (get o "ac") in
    if not (Svs.ok_C09 c { m with Svs.o_after_cancel = ac }) then
      bad := "BAD\tside=impl\tclause=ok_C09: next (second connection) after the acknowledged release is not an error" :: !bad;
    (match (try Some (parse_hl (get o "vec")) with Timeout -> None) with
     | None -> bad := "BAD\tside=impl\tclause=crash:puller-timeout" :: !bad
     | Some h ->
       if not (Svs.ok_C09 cf { mf with Svs.o_vec = h }) then
         bad := (Printf.sprintf "BAD\tside=impl\tclause=ok_C09: the stream was released in mid-pull (after %d of %d bytes), the puller returned %s instead of an error" (int_of_n (n_of_hex (get f "g"))) (Stdlib.List.length data) (trunc (get o "vec"))) :: !bad);
    Stdlib.List.rev !bad

let step _ cs os =
  if get_opt (fields cs) "dup" = Some "1" then dup_step cs os else
  if get_opt (fields cs) "conc" <> None then conc_step cs os else
  if get_opt (fields cs) "park" = Some "1" then park_step cs os else
  if get_opt (fields cs) "early" <> None then early_step cs os else
  if get_opt (fields cs) "rel" = Some "1" then rel_step cs os else
  let f = fields cs and o = fields os in
  let c = { Svs.c_data = bytes_of_hex (get f "data"); c_n = n_of_hex (get f "n"); c_depth = n_of_hex (get f "d");
            c_writes = nlist (get f "w"); c_fail = optn (get f "f"); c_zstd = (get f "z" = "1");
            c_kind = n_of_hex (get f "kind"); c_puller = n_of_hex (get f "pull");
            c_cancel_after = n_of_hex (get f "cj");
            c_panic = (match get_opt f "fk" with Some "panic" -> true | Some "err" | Some "eof" | Some "pipe" | Some "reset" | Some "inval" | None -> false
                                                | Some x -> failwith ("bad failure kind " ^ x)) } in
  let out = ref [] in
  (match get_opt o "crash" with
   | Some cr ->
     out := ("BAD\tside=impl\tclause=crash:" ^ cr) :: !out;
     if not c.Svs.c_zstd then begin
       if not (Svs.c09_wf c) then out := "BAD\tside=model\tclause=case-not-wf" :: !out
       else if not (Svs.ok_C09 c (Svs.model_C09 c)) then out := "BAD\tside=model\tclause=ok_C09(model)=false" :: !out
     end
   | None ->
     (try
       (* ae2: a `next` for the finished stream's id while a second stream is open: an error (no id reuse) *)
       (match get_opt o "ae2" with
        | Some r when String.length r > 0 && r.[0] = 'c' ->
          out := "BAD\tside=impl\tclause=pulling a finished stream's id returned a chunk (of another stream)" :: !out
        | _ -> ());
       let pulls = parse_resps (get o "pulls") in
       let plain = let s = get o "plain" in if s = "na" then [] else bytes_of_hex s in
       let impl = { Svs.o_pulls = pulls; o_after_end = parse_resp (get o "ae");
                    o_cancel_pulls = parse_resps (get o "cp"); o_after_cancel = parse_resp (get o "ac");
                    o_plain = plain; o_vec = parse_hl (get o "vec");
                    o_typed = (let s = get o "typed" in if s = "na" then None else Some (parse_hl s)) } in
       let model =
         if not c.Svs.c_zstd then begin
           if not (Svs.c09_wf c) then out := "BAD\tside=model\tclause=case-not-wf" :: !out;
           Svs.model_C09 c
         end else begin
           (* the stream that reached the sink: what was pulled; after a failure the
              last full chunk is swallowed by the lookahead, stand-in: one chunk of zeros *)
           let stream = Svs.bodies pulls in
           let stream = match c.Svs.c_fail with None -> stream | Some _ -> stream @ repeat0 (int_of_n c.Svs.c_n) [] in
           Svs.model_C09_with c [stream] plain
         end in
       if not (Svs.ok_C09 c model) && (not c.Svs.c_zstd) then out := "BAD\tside=model\tclause=ok_C09(model)=false" :: !out;
       if not (Svs.ok_C09 c impl) then out := "BAD\tside=impl\tclause=ok_C09" :: !out;
       let d = ref [] in
       if not (Svs.resps_eqb impl.Svs.o_pulls model.Svs.o_pulls) then d := "pulls" :: !d;
       if not (Svs.resp_eqb impl.Svs.o_after_end model.Svs.o_after_end) then d := "after_end" :: !d;
       if not (Svs.resps_eqb impl.Svs.o_cancel_pulls model.Svs.o_cancel_pulls) then d := "cancel_pulls" :: !d;
       if not (Svs.resp_eqb impl.Svs.o_after_cancel model.Svs.o_after_cancel) then d := "after_cancel" :: !d;
       if not (Svs.hlres_eqb impl.Svs.o_vec model.Svs.o_vec) then d := "vec" :: !d;
       if not (hl_eq impl.Svs.o_typed model.Svs.o_typed) then d := "typed" :: !d;
       if !d <> [] then out := ("DIFF\tfields=" ^ String.concat "," (Stdlib.List.rev !d)) :: !out
     with Timeout -> out := "BAD\tside=impl\tclause=crash:puller-timeout" :: !out));
  !out

(* the extracted list functions are not tail-recursive and the largest cases carry
   payloads of a few MiB: run with the stack limit lifted (re-exec once through sh) *)
let () =
  match Sys.getenv_opt "C09_STACK" with
  | Some _ -> run step
  | None ->
    let cmd = Printf.sprintf "ulimit -s unlimited 2>/dev/null || ulimit -s 4000000 2>/dev/null || true; C09_STACK=1 exec %s"
        (Filename.quote Sys.executable_name) in
    exit (Sys.command cmd)
