(* C03: pipelined request sequences on the blocking TCP, async TCP and WebSocket servers *)
open Gen
open Util

let plain (s : string) : BinNums.coq_N list =
  Stdlib.List.init (String.length s) (fun i -> byte_tab.(Char.code s.[i]))

let parse_kind = function
  | "J" -> Route.KJson | "T" -> Route.KTyped | "C" -> Route.KJsonCtx | "D" -> Route.KTypedCtx
  | "A" -> Route.KAdapter | "L" -> Route.KSlice | "F" -> Route.KSliceRef | "S" -> Route.KStruct
  | "G" -> Route.KRegistry | "X" -> Route.KErased | k -> failwith ("bad kind " ^ k)

let parse_tbl (s : string) (mw : bool) : Route.router =
  let ex = ref [] and rg = ref [] and st = ref [] in
  Stdlib.List.iter (fun e ->
    match split_on ':' e with
    | [cls; path; k; off; rid; fns] ->
      let h = { Route.h_rid = n_of_hex rid; h_kind = parse_kind k; h_off = (off = "1");
                h_fns = if fns = "-" then [] else Stdlib.List.map plain (split_on '+' fns) } in
      let entry = (plain path, h) in
      (match cls with
       | "E" -> ex := entry :: !ex | "R" -> rg := entry :: !rg | "S" -> st := entry :: !st
       | _ -> failwith ("bad class " ^ cls))
    | _ -> failwith ("bad table entry " ^ e)) (split_on ',' s);
  { Route.rt_exact = Stdlib.List.rev !ex; rt_regs = Stdlib.List.rev !rg; rt_structs = Stdlib.List.rev !st; rt_mw = mw }

let parse_uout (s : string) : Route.uout =
  match split_on ':' s with
  | ["v"; bf; b] -> Route.UVal (n_of_hex bf, bytes_of_hex b)
  | ["m"; ec; qf; bf; q; b] -> Route.UMsg (n_of_hex ec, n_of_hex qf, n_of_hex bf, bytes_of_hex q, bytes_of_hex b)
  | ["e"; c; m] -> Route.UErr (n_of_hex c, bytes_of_hex m)
  | ["p"] -> Route.UPanic
  | _ -> failwith ("bad user outcome " ^ trunc s)

let parse_req (s : string) : Route.request =
  match split_on '/' s with
  | [id; ntf; ver; qf; bf; ec; q; b; utf8; dec; user; mw; sat] ->
    { Route.q_id = n_of_hex id; q_notify = n_of_hex ntf; q_version = n_of_hex ver; q_qfmt = n_of_hex qf;
      q_bfmt = n_of_hex bf; q_ec = n_of_hex ec; q_query = bytes_of_hex q; q_body = bytes_of_hex b;
      o_utf8 = (utf8 = "1");
      o_decfail = (if dec = "ok" then None else Some (bytes_of_hex (String.sub dec 1 (String.length dec - 1))));
      o_user = parse_uout user;
      o_mw = (if mw = "-" then None else match split_on ':' mw with
              | [c; m] -> Some (n_of_hex c, bytes_of_hex m) | _ -> failwith "bad mw token");
      o_sat = (sat = "1") }
  | _ -> failwith ("bad request " ^ trunc s)

exception Bad_frame of string

let parse_resp (s : string) : Route.resp =
  let s = if String.length s > 6 && String.sub s 0 6 = "extra:" then String.sub s 6 (String.length s - 6) else s in
  match split_on '/' s with
  | [id; ec; qf; bf; q; b] ->
    { Route.p_id = n_of_hex id; p_ec = n_of_hex ec; p_qfmt = n_of_hex qf; p_bfmt = n_of_hex bf;
      p_query = bytes_of_hex q; p_body = bytes_of_hex b }
  | _ -> raise (Bad_frame (trunc s))

let parse_tobs o (name : string) : Route.tobs option =
  match get_opt o name with
  | None -> None
  | Some rs ->
    Some { Route.t_resps = (if rs = "-" then [] else Stdlib.List.map parse_resp (split_on ';' rs));
           t_counts = Stdlib.List.map n_of_hex (split_on '.' (get o (name ^ "c")));
           t_mw = n_of_hex (get o (name ^ "m"));
           t_alive = (get o (name ^ "a") = "1") }

let step _ cs os =
  let f = fields cs and o = fields os in
  let mw = get f "mw" = "1" in
  let tr = int_of_string ("0x" ^ get f "tr") in
  let reqs = let s = get f "reqs" in if s = "-" then [] else Stdlib.List.map parse_req (split_on ';' s) in
  let c = { Route.c_rt = parse_tbl (get f "tbl") mw; c_tcp = tr land 1 <> 0; c_async = tr land 2 <> 0;
            c_ws = tr land 4 <> 0; c_reqs = reqs } in
  if not (Route.c03_wf c) then failwith "case is not well-formed";
  let out = ref [] in
  let model = Route.model_C03 c in
  if not (Route.ok_C03 c model) then out := "BAD\tside=model\tclause=ok_C03(model)=false" :: !out;
  (match get_opt o "crash" with
   | Some cr -> out := ("BAD\tside=impl\tclause=crash:" ^ cr) :: !out
   | None ->
     (try
       let impl = { Route.b_tcp = parse_tobs o "tcp"; b_async = parse_tobs o "atcp"; b_ws = parse_tobs o "ws" } in
       Stdlib.List.iter (fun k -> match get_opt o k with
         | Some n -> out := ("BAD\tside=impl\tclause=note:" ^ k ^ "=" ^ n) :: !out | None -> ())
         ["tcpn"; "atcpn"; "wsn"; "notes"];
       if not (Route.ok_C03 c impl) then begin
         let rt = c.Route.c_rt and rs = c.Route.c_reqs in
         let parts = Stdlib.List.filter_map (fun x -> x) [
           (if Route.ok_opt (Route.ok_inline rt rs) impl.Route.b_tcp c.Route.c_tcp then None else Some "tcp");
           (if Route.ok_opt (Route.ok_inline rt rs) impl.Route.b_async c.Route.c_async then None else Some "async_tcp");
           (if Route.ok_opt (Route.ok_ws rt rs) impl.Route.b_ws c.Route.c_ws then None else Some "ws");
           (if Route.agree impl then None else Some "transports_agree") ] in
         out := ("BAD\tside=impl\tclause=ok_C03:" ^ String.concat "+" parts) :: !out
       end;
       if not (Route.c03_obs_eqb c impl model) then begin
         let d = Stdlib.List.filter_map (fun x -> x) [
           (if Route.c03_obs_eqb c { model with Route.b_tcp = impl.Route.b_tcp } model then None else Some "tcp");
           (if Route.c03_obs_eqb c { model with Route.b_async = impl.Route.b_async } model then None else Some "async_tcp");
           (if Route.c03_obs_eqb c { model with Route.b_ws = impl.Route.b_ws } model then None else Some "ws") ] in
         out := ("DIFF\tfields=" ^ String.concat "," d) :: !out
       end
     with Bad_frame s -> out := ("BAD\tside=impl\tclause=frame:" ^ s) :: !out));
  !out

let () = run step
