open Gen
open Util

let parse_obs ?(sfx = "") bs (o : (string * string) list) : C02.c02_obs * bool =
  match get_opt o "crash" with
  | Some _ -> ({ C02.p_decode = Outcome.Panic; p_from_slice = Outcome.Panic; p_from_slice_exact = Outcome.Panic;
                 p_view = Outcome.Panic; p_view_exact = Outcome.Panic; p_read = Outcome.Panic; p_read_into = Outcome.Panic }, false)
  | None ->
    let mo k = outcome_of (get o k) None msg_of_okbody in
    let skip = (get o "rd" = "skip") in
    let rd = let s = get o ("rd" ^ sfx) in
      if s = "skip" then Outcome.Err Outcome.EOther
      else if s = "panic" then Outcome.Panic
      else if String.length s >= 4 && String.sub s 0 4 = "err:" then Outcome.Err (err_of_string (String.sub s 4 (String.length s - 4)))
      else (match split_on '/' s with
        | [ms; rs] -> (match outcome_of ms None msg_of_okbody with Outcome.Ok m -> Outcome.Ok (m, bytes_of_hex rs) | _ -> failwith "rd")
        | _ -> failwith ("bad rd " ^ trunc s)) in
    let ri = let s = get o ("ri" ^ sfx) in
      if s = "skip" then Outcome.Err Outcome.EOther
      else if s = "panic" then Outcome.Panic
      else if String.length s >= 4 && String.sub s 0 4 = "err:" then Outcome.Err (err_of_string (String.sub s 4 (String.length s - 4)))
      else (match split_on '/' s with
        | [fs; rs] -> Outcome.Ok (bytes_of_hex fs, bytes_of_hex rs)
        | _ -> failwith ("bad ri " ^ trunc s)) in
    ({ C02.p_decode = outcome_of (get o "dec") None header_of_string;
       p_from_slice = mo "fs"; p_from_slice_exact = mo "fse"; p_view = mo "vw"; p_view_exact = mo "vwe";
       p_read = rd; p_read_into = ri }, skip)

let describe_diff (a : C02.c02_obs) (b : C02.c02_obs) skip : string =
  let parts = ref [] in
  let add n c = if c then parts := n :: !parts in
  add "decode" (a.C02.p_decode <> b.C02.p_decode); add "from_slice" (a.p_from_slice <> b.p_from_slice);
  add "from_slice_exact" (a.p_from_slice_exact <> b.p_from_slice_exact); add "view" (a.p_view <> b.p_view);
  add "view_exact" (a.p_view_exact <> b.p_view_exact);
  if not skip then begin add "read" (a.p_read <> b.p_read); add "read_into" (a.p_read_into <> b.p_read_into) end;
  String.concat "," (Stdlib.List.rev !parts)

(* hostile bytes over real sockets: the endpoint survives, fails that connection (a client call
   returns an error promptly, not by its timeout and never a value; a server closes or answers with
   an error frame) and keeps serving others *)
let net_step cs os =
  let f = fields cs and o = fields os in
  match get_opt o "crash" with
  | Some c -> ["BAD\tside=impl\tclause=crash over the network:" ^ c]
  | None ->
    let target = get f "target" and net = get o "net" and alive = get o "alive" in
    let is_client = (target = "client" || target = "aclient" || target = "wsclient") in
    let bad = ref [] in
    if alive <> "1" then bad := "BAD\tside=impl\tclause=endpoint no longer serves after hostile bytes" :: !bad;
    (* trail=1: a well-formed frame followed by surplus bytes in one WebSocket message; the server's
       exact-length parse must refuse it: a reply with error code 0 means it was dispatched *)
    (if get_opt f "trail" = Some "1" && target = "ws" then
       match split_on ':' net with
       | ["reply"; _; "0"] -> bad := "BAD\tside=impl\tclause=a frame with trailing bytes was dispatched and answered (exact-length parse accepted surplus bytes)" :: !bad
       | _ -> ());
    if is_client then begin
      if net = "ok" then bad := "BAD\tside=impl\tclause=client returned a value for a hostile reply" :: !bad
      else if net = "err:1" then
        (* an incomplete header leaves the reader waiting for more bytes: the call may end by its own
           timeout; with a complete 48-byte header it must fail promptly *)
        (if String.length (get f "bytes") >= 96 then bad := "BAD\tside=impl\tclause=client call hung until its timeout on a malformed reply" :: !bad)
    end;
    !bad

let step _ cs os =
  if get_opt (fields cs) "kind" = Some "net" then net_step cs os else
  let bs = bytes_of_hex (get (fields cs) "bytes") in
  let model = C02.model_C02 bs in
  let out = ref [] in
  if not (C02.ok_C02 bs model) then out := "BAD\tside=model\tclause=ok_C02(model)=false (theorem C02_holds contradicted?)" :: !out;
  (* the blocking readers (rd, ri) and the async readers (rda, ria): one observation each *)
  Stdlib.List.iter (fun (sfx, what) ->
      let (impl, skip) = parse_obs ~sfx bs (fields os) in
      if not (C02.ok_C02 bs impl) then out := ("BAD\tside=impl\tclause=ok_C02" ^ what) :: !out;
      let d = describe_diff impl model skip in
      if d <> "" then out := ("DIFF\tfields=" ^ d ^ what) :: !out) [("", ""); ("a", "(async readers)")];
  !out

let () = run step
