(* Glue between the text protocol of the harness and the extracted types.
   Numbers are hexadecimal without prefix; byte strings are hex or "-". *)
open Gen
open BinNums

let rec pos_of_int i = if i = 1 then Coq_xH else if i land 1 = 0 then Coq_xO (pos_of_int (i lsr 1)) else Coq_xI (pos_of_int (i lsr 1))
let n_of_int i = if i = 0 then N0 else Npos (pos_of_int i)
let rec int_of_pos = function Coq_xH -> 1 | Coq_xO p -> 2 * int_of_pos p | Coq_xI p -> 2 * int_of_pos p + 1
let int_of_n = function N0 -> 0 | Npos p -> int_of_pos p

let hexval c = match c with
  | '0'..'9' -> Char.code c - 48 | 'a'..'f' -> Char.code c - 87 | 'A'..'F' -> Char.code c - 55
  | _ -> failwith ("bad hex digit " ^ String.make 1 c)

(* hex string (any width) -> N, built bit by bit: no OCaml int overflow *)
let n_of_hex (s : string) : coq_N =
  (* bits, most significant first *)
  let bits = ref [] in
  String.iter (fun c -> let v = hexval c in
    bits := (v land 1 = 1) :: (v land 2 = 2) :: (v land 4 = 4) :: (v land 8 = 8) :: !bits) s;
  (* !bits is least significant first *)
  let rec strip = function [] -> [] | l -> (match Stdlib.List.rev l with true :: _ -> l | false :: r -> strip (Stdlib.List.rev r) | [] -> []) in
  let l = strip !bits in
  match Stdlib.List.rev l with
  | [] -> N0
  | _ :: rest_msf ->
    (* rest_msf: remaining bits, most significant first; fold building the positive *)
    Npos (Stdlib.List.fold_left (fun p b -> if b then Coq_xI p else Coq_xO p) Coq_xH rest_msf)

let hex_of_n (n : coq_N) : string =
  match n with
  | N0 -> "0"
  | Npos p ->
    let rec bits p acc = match p with Coq_xH -> true :: acc | Coq_xO q -> bits q (false :: acc) | Coq_xI q -> bits q (true :: acc) in
    (* bits returns most significant first?  acc accumulates lsb first then msb at head *)
    let rec lsb_first p = match p with Coq_xH -> [true] | Coq_xO q -> false :: lsb_first q | Coq_xI q -> true :: lsb_first q in
    let l = lsb_first p in
    let rec nibbles l = match l with
      | [] -> []
      | a :: b :: c :: d :: r -> ((if a then 1 else 0) + (if b then 2 else 0) + (if c then 4 else 0) + (if d then 8 else 0)) :: nibbles r
      | _ -> nibbles (l @ [false]) in
    let ns = Stdlib.List.rev (nibbles l) in
    let ns = (match ns with 0 :: (_ :: _ as r) -> r | x -> x) in
    String.concat "" (Stdlib.List.map (fun v -> String.make 1 "0123456789abcdef".[v]) ns)

let byte_tab : coq_N array = Array.init 256 n_of_int

let bytes_of_hex (s : string) : coq_N list =
  if s = "-" then [] else begin
    let n = String.length s / 2 in
    let rec go i acc = if i < 0 then acc else go (i - 1) (byte_tab.(hexval s.[2*i] * 16 + hexval s.[2*i+1]) :: acc) in
    go (n - 1) []
  end

let hex_of_bytes (l : coq_N list) : string =
  match l with [] -> "-" | _ ->
  let b = Buffer.create 64 in
  Stdlib.List.iter (fun x -> Buffer.add_string b (Printf.sprintf "%02x" (int_of_n x))) l; Buffer.contents b

let split_on c s = String.split_on_char c s

(* "k=v k=v ..." -> assoc list *)
let fields (s : string) : (string * string) list =
  Stdlib.List.filter_map (fun t ->
    match String.index_opt t '=' with
    | Some i -> Some (String.sub t 0 i, String.sub t (i+1) (String.length t - i - 1))
    | None -> None) (Stdlib.List.filter (fun t -> t <> "") (split_on ' ' s))

let get f k = try Stdlib.List.assoc k f with Not_found -> failwith ("missing field " ^ k)
let get_opt f k = Stdlib.List.assoc_opt k f

(* split "case \t=>\t obs" *)
let split_line (l : string) : string * string =
  match split_on '\t' l with
  | [c; "=>"; o] -> (c, o)
  | _ -> failwith ("bad line: " ^ (if String.length l > 80 then String.sub l 0 80 else l))

let err_of_string s : Outcome.err = match s with
  | "hlen" -> Outcome.EHeaderLen | "spec" -> Outcome.ESpec | "lenmis" -> Outcome.ELenMismatch
  | "small" -> Outcome.EBufSmall | "eof" -> Outcome.EEof | "oom" -> Outcome.EOom | _ -> Outcome.EOther
let string_of_err (e : Outcome.err) = match e with
  | Outcome.EHeaderLen -> "hlen" | Outcome.ESpec -> "spec" | Outcome.ELenMismatch -> "lenmis"
  | Outcome.EBufSmall -> "small" | Outcome.EEof -> "eof" | Outcome.EOom -> "oom" | Outcome.EOther -> "other"

let header_of_string (s : string) : Header.header =
  match Stdlib.List.map n_of_hex (split_on ',' s) with
  | [a;b;c;d;e;f;g;h;i;j;k] -> { Header.h_length = a; h_spec = b; h_version = c; h_notify = d; h_reserved = e; h_id = f; h_qlen = g; h_blen = h; h_qfmt = i; h_bfmt = j; h_ec = k }
  | _ -> failwith ("bad header " ^ s)
let string_of_header (h : Header.header) =
  String.concat "," (Stdlib.List.map hex_of_n [h.Header.h_length; h.h_spec; h.h_version; h.h_notify; h.h_reserved; h.h_id; h.h_qlen; h.h_blen; h.h_qfmt; h.h_bfmt; h.h_ec])

(* "ok:<hdr>:<q>:<b>" *)
let message_of_parts hs qs bs : Message.message =
  { Message.m_hdr = header_of_string hs; m_query = bytes_of_hex qs; m_body = bytes_of_hex bs }
let string_of_message (m : Message.message) =
  Printf.sprintf "ok:%s:%s:%s" (string_of_header m.Message.m_hdr) (hex_of_bytes m.m_query) (hex_of_bytes m.m_body)

let trunc s = if String.length s > 160 then String.sub s 0 160 ^ "..." else s

(* outcome parsing; [same] is what "=" stands for *)
let outcome_of (s : string) (same : 'a option) (parse_ok : string -> 'a) : 'a Outcome.outcome =
  if s = "=" then (match same with Some x -> Outcome.Ok x | None -> failwith "= without reference")
  else if s = "panic" then Outcome.Panic
  else if String.length s >= 4 && String.sub s 0 4 = "err:" then Outcome.Err (err_of_string (String.sub s 4 (String.length s - 4)))
  else if String.length s >= 3 && String.sub s 0 3 = "ok:" then Outcome.Ok (parse_ok (String.sub s 3 (String.length s - 3)))
  else failwith ("bad outcome " ^ trunc s)

let msg_of_okbody (s : string) : Message.message =
  match split_on ':' s with [h; q; b] -> message_of_parts h q b | _ -> failwith ("bad message " ^ trunc s)

let string_of_outcome (f : 'a -> string) (o : 'a Outcome.outcome) = match o with
  | Outcome.Ok a -> f a | Outcome.Err e -> "err:" ^ string_of_err e | Outcome.Panic -> "panic" | Outcome.Abort -> "abort"

(* main loop shared by the drivers: [step lineno case obs] returns a list of
   report lines ("DIFF ..."/"BAD ...") *)
let run (step : int -> string -> string -> string list) =
  let n = ref 0 and diffs = ref 0 and bads = ref 0 and errs = ref 0 in
  (try while true do
    let l = input_line stdin in
    incr n;
    (try
      let (c, o) = split_line l in
      Stdlib.List.iter (fun r ->
        if String.length r >= 4 && String.sub r 0 4 = "DIFF" then incr diffs
        else if String.length r >= 3 && String.sub r 0 3 = "BAD" then incr bads;
        Printf.printf "%s\tline=%d\n" r !n) (step !n c o)
    with Failure m | Invalid_argument m -> incr errs; Printf.printf "DRIVER-ERROR\tline=%d\t%s\n" !n m)
  done with End_of_file -> ());
  Printf.printf "SUMMARY cases=%d diff=%d bad=%d driver_errors=%d\n" !n !diffs !bads !errs
