(* C06: failure scenarios of the three clients *)
open Gen
open Util
module M = ClientFail

let dec s = n_of_int (int_of_string s)

let parse_event (s : string) : M.event =
  match split_on ':' s with
  | ["S"; c] -> M.EStart (dec c, false)
  | ["T"; c] -> M.EStart (dec c, true)
  | ["U"; c] -> M.EStartUnread (dec c)
  | ["X"; c] | ["XZ"; c] -> M.EExpire (dec c)
  | ["XA"; c] -> M.EExpireA (dec c)
  | ["XB"; c] -> M.EExpireB (dec c)
  | ["XC"; c] -> M.EExpireC (dec c)
  | ["R"; c] -> M.ERespond (dec c)
  | ["V"] -> M.EUnknown
  | ["C"; c] -> M.ECancel (dec c)
  | ["CB"; c] -> M.ECancelB (dec c)
  | ["CC"; c] -> M.ECancelC (dec c)
  | ["N"] -> M.ENotify
  | ["Q"] -> M.EQuery
  | ["W"; c] -> M.EStallStart (dec c)
  | ["F"; _] -> M.EFault          (* the model does not depend on the kind of fault *)
  | ["P"; _] -> M.EFaultPark
  | ["Z"] -> M.ERelease
  | ["G"; c] -> M.EProbe (dec c)
  | _ -> failwith ("bad event " ^ s)

let parse_kind = function "tcp" -> M.KTcp | "atcp" -> M.KAsync | "ws" -> M.KWs | s -> failwith ("bad kind " ^ s)

let parse_class = function
  | "ok" -> M.OOk | "wrong" -> M.OWrong | "timeout" -> M.OTimeout | "conn" -> M.OConn
  | "cancelled" -> M.OCancelled | "pending" -> M.OPending | "hang" -> M.OHang | "none" -> M.ONone
  | "panic" -> M.OWrong
  | s -> failwith ("bad class " ^ s)
let string_of_class = function
  | M.OOk -> "ok" | M.OWrong -> "wrong" | M.OTimeout -> "timeout" | M.OConn -> "conn"
  | M.OCancelled -> "cancelled" | M.OPending -> "pending" | M.OHang -> "hang" | M.ONone -> "none"
let parse_sub = function "none" -> M.UNone | "open" -> M.UOpen | "eos" -> M.UEos | s -> failwith ("bad sub " ^ s)
let string_of_sub = function M.UNone -> "none" | M.UOpen -> "open" | M.UEos -> "eos"

let list_of s f = if s = "-" then [] else Stdlib.List.map f (split_on ',' s)

let show (o : M.obs) =
  Printf.sprintf "res=%s/sub=%s/subq=%s/nn=%s/rd=%b/resid=%s"
    (String.concat "," (Stdlib.List.map string_of_class o.M.o_res)) (string_of_sub o.o_sub)
    (String.concat "," (Stdlib.List.map string_of_sub o.o_subq)) (hex_of_n o.o_nn) o.o_rd
    (String.concat "," (Stdlib.List.map string_of_bool o.o_resid))

let step _ cs os =
  let f = fields cs and o = fields os in
  let script = let s = get f "script" in if s = "-" then [] else Stdlib.List.map parse_event (split_on ';' s) in
  let k = { M.k_kind = parse_kind (get f "kind"); k_sub = (get f "sub" = "1"); k_n = dec (get f "n"); k_script = script } in
  if not (M.c06_valid k) then failwith "scenario outside the specification (c06_valid = false)";
  let out = ref [] in
  let model = M.model_C06 k in
  if not (M.ok_C06 k model) then out := ("BAD\tside=model\tclause=ok_C06(model)=false\tmodel=" ^ show model) :: !out;
  (match get_opt o "crash" with
   | Some c -> out := ("BAD\tside=impl\tclause=crash:" ^ c) :: !out
   | None ->
     let impl = { M.o_res = list_of (get o "res") parse_class; o_sub = parse_sub (get o "sub");
                  o_subq = list_of (get o "subq") parse_sub; o_nn = n_of_hex (get o "nn");
                  o_rd = (get o "rd" = "1");
                  o_resid = list_of (get o "resid") (fun s -> s <> "free") } in
     if not (M.ok_C06 k impl) then out := ("BAD\tside=impl\tclause=ok_C06\timpl=" ^ show impl) :: !out;
     (* harness-side trouble that is not an observation of the client *)
     let notes = get o "notes" in
     if notes <> "-" && notes <> "cov-miss" then out := ("BAD\tside=impl\tclause=notes:" ^ notes) :: !out;
     if M.c06_wf k && not (M.obs_match k impl model) then
       out := (Printf.sprintf "DIFF\tfields=obs\timpl=%s\tmodel=%s" (show impl) (show model)) :: !out);
  !out

let () = run step
