(* C15: connection lifecycle hooks.  One case = one scenario served to [conns]
   concurrent connections; every connection's observation is compared with the
   model's and judged by the oracle. *)
open Gen
open Util

let rec nat_of_int i : Datatypes.nat = if i <= 0 then Datatypes.O else Datatypes.S (nat_of_int (i - 1))
let int_of_hex s = int_of_n (n_of_hex s)

let parse_hact (t : string) : Lifecycle.hact =
  let rest () = String.sub t 1 (String.length t - 1) in
  match t.[0] with
  | 'c' when String.length t = 1 -> Lifecycle.ACount
  | 's' when String.length t = 1 -> Lifecycle.ASleep
  | 'p' when String.length t = 1 -> Lifecycle.APanic
  | 'n' -> Lifecycle.ANotify (n_of_hex (rest ()))
  | 'a' -> Lifecycle.AAlias (n_of_hex (rest ()))
  | _ -> failwith ("bad hook " ^ t)

let parse_hooks s = if s = "-" then [] else Stdlib.List.map parse_hact (split_on '.' s)

let parse_cause c : Lifecycle.cause = match c with
  | "close" -> Lifecycle.CleanClose | "loss" -> Lifecycle.SocketLoss | "text" | "big" -> Lifecycle.ProtocolViolation
  | "malformed" -> Lifecycle.Malformed | "hpanic" -> Lifecycle.HandlerPanic | "cancel" -> Lifecycle.EmbedderCancel
  | "abort" -> Lifecycle.DrainAbort | c -> failwith ("bad cause " ^ c)

let parse_case f : Lifecycle.scenario =
  { Lifecycle.s_mode = (match get f "mode" with "l" -> Lifecycle.MListener | "d" -> Lifecycle.MDrain | "s" -> Lifecycle.MServeConn | "a" -> Lifecycle.MAdopt | m -> failwith ("bad mode " ^ m));
    s_hs = (get f "hs" = "ok");
    s_ctx = (get f "ctx" = "1");
    s_pre = parse_hooks (get f "pre");
    s_reg = (get f "reg" = "1");
    s_post = parse_hooks (get f "post");
    s_xh = parse_hooks (get f "xh");
    s_dpre = nat_of_int (int_of_hex (get f "dpre"));
    s_dpost = nat_of_int (int_of_hex (get f "dpost"));
    s_cause = parse_cause (get f "cause");
    s_phase = (match get f "phase" with
      | "idle" -> Lifecycle.PIdle | "inline" -> Lifecycle.PInline | "offr" -> Lifecycle.POffReader | "queue" -> Lifecycle.PQueue
      | "hooks" -> Lifecycle.PHooks | p -> failwith ("bad phase " ^ p));
    s_reqs = n_of_hex (get f "reqs");
    s_flood = n_of_hex (get f "flood");
    s_sibling = false }

let bit s = match s with "0" -> false | "1" -> true | _ -> failwith ("bad bit " ^ s)

let parse_hev (t : string) : Lifecycle.hev =
  if t = "K" then Lifecycle.HK
  else match t.[0], split_on ':' (String.sub t 1 (String.length t - 1)) with
    | 'C', [i; p] -> Lifecycle.HC (nat_of_int (int_of_hex i), bit p)
    | 'D', [j; p; a] -> Lifecycle.HD (nat_of_int (int_of_hex j), bit p, n_of_hex a)
    | _ -> failwith ("bad event " ^ t)

let parse_wf (t : string) : Lifecycle.wframe =
  if t = "r" then Lifecycle.WR else if t = "o" then Lifecycle.WO
  else match t.[0], split_on ':' (String.sub t 1 (String.length t - 1)) with
    | 'n', [i; q] -> Lifecycle.WN (nat_of_int (int_of_hex i), n_of_hex q)
    | _ -> failwith ("bad frame " ^ t)

let parse_obs (s : string) : Lifecycle.obs =
  match split_on '/' s with
  | [tr; af; wi; seen] ->
    { Lifecycle.o_trace = (if tr = "-" then [] else Stdlib.List.map parse_hev (split_on '.' tr));
      o_after = (match split_on ':' af with [p; a] -> (bit p, n_of_hex a) | _ -> failwith ("bad after " ^ af));
      o_wire = (if wi = "-" then [] else Stdlib.List.map parse_wf (split_on '.' wi));
      o_seen = (match seen with "na" -> None | "0" -> Some false | "1" -> Some true | _ -> failwith ("bad seen " ^ seen)) }
  | _ -> failwith ("bad observation " ^ trunc s)

(* "disc:present:aliases:seen:answered" of a survivor, plus the case-wide token / new-connection bits *)
let parse_mid (s : string) (tok : bool) (fresh : bool) : Lifecycle.mobs =
  match split_on ':' s with
  | [d; p; a; seen; ans] ->
    { Lifecycle.m_disc = n_of_hex d; m_present = bit p; m_aliases = n_of_hex a;
      m_seen = (match seen with "na" -> None | "0" -> Some false | "1" -> Some true | _ -> failwith ("bad seen " ^ seen));
      m_alive = bit ans; m_trigger = tok; m_new = fresh }
  | _ -> failwith ("bad mid observation " ^ trunc s)

(* which part differs, for the report *)
let diff_fields (m : Lifecycle.obs) (i : Lifecycle.obs) =
  let part name m' i' = if Lifecycle.c15_obs_match m' i' then [] else [name] in
  let keep_trace o = { m with Lifecycle.o_trace = o.Lifecycle.o_trace } in
  let keep_after o = { m with Lifecycle.o_after = o.Lifecycle.o_after } in
  let keep_seen o = { m with Lifecycle.o_seen = o.Lifecycle.o_seen } in
  let keep_wire o = { m with Lifecycle.o_wire = o.Lifecycle.o_wire } in
  part "trace" m (keep_trace i) @ part "after" m (keep_after i) @ part "wire" m (keep_wire i) @ part "seen" m (keep_seen i)

let step _ cs os =
  let f = fields cs and o = fields os in
  let sc0 = parse_case f in
  let conns = int_of_hex (get f "conns") in
  let stag = (get_opt f "stag" = Some "1") in
  (* staggered: connection 0 ends alone while idle; the others survive in the phase until cause2 *)
  let sc_first = if stag then { sc0 with Lifecycle.s_phase = Lifecycle.PIdle } else sc0 in
  let sc = if stag then { sc0 with Lifecycle.s_cause = parse_cause (get f "cause2"); s_sibling = true } else sc0 in
  let out = ref [] in
  if not (Lifecycle.c15_wf sc) || not (Lifecycle.c15_wf sc_first) then out := "BAD\tside=model\tclause=case-not-wellformed" :: !out;
  let model = Lifecycle.model_C15 sc in
  let model_first = Lifecycle.model_C15 sc_first in
  if not (Lifecycle.ok_C15 sc model) || not (Lifecycle.ok_C15 sc_first model_first) then out := "BAD\tside=model\tclause=ok_C15(model)=false" :: !out;
  if stag then begin
    if not (Lifecycle.c15_stag_wf sc) then out := "BAD\tside=model\tclause=staggered-case-not-wellformed" :: !out;
    if not (Lifecycle.ok_mid sc (Lifecycle.model_mid sc)) then out := "BAD\tside=model\tclause=ok_mid(model)=false" :: !out
  end;
  (match get_opt o "crash" with
   | Some c -> out := ("BAD\tside=impl\tclause=crash:" ^ c) :: !out
   | None ->
     (match get_opt o "note" with Some n -> out := ("BAD\tside=impl\tclause=note:" ^ n) :: !out | None -> ());
     let nrec = int_of_hex (get o "nrec") in
     let has_hooks = sc.Lifecycle.s_hs in
     let expect = if has_hooks then conns else 0 in
     if nrec <> expect then out := (Printf.sprintf "DIFF\tfields=nrec:%d:%d" nrec expect) :: !out;
     if get o "reglen" <> "0" then out := "BAD\tside=impl\tclause=registry-not-empty-afterwards" :: !out;
     let k = ref 0 in
     let continue = ref true in
     while !continue do
       match get_opt o (Printf.sprintf "c%d" !k) with
       | None -> continue := false
       | Some s ->
         let impl = parse_obs s in
         let (sck, mk) = if stag && !k = 0 then (sc_first, model_first) else (sc, model) in
         if not (Lifecycle.ok_C15 sck impl) then out := (Printf.sprintf "BAD\tside=impl\tclause=ok_C15:c%d" !k) :: !out;
         if not (Lifecycle.c15_obs_match mk impl) then
           out := (Printf.sprintf "DIFF\tfields=c%d:%s" !k (String.concat "," (diff_fields mk impl))) :: !out;
         incr k
     done;
     if stag then begin
       let tok = bit (get o "tok") and fresh = bit (get o "new") in
       let mm = Lifecycle.model_mid sc in
       for j = 1 to conns - 1 do
         match get_opt o (Printf.sprintf "m%d" j) with
         | None -> out := (Printf.sprintf "DIFF\tfields=m%d:missing" j) :: !out
         | Some s ->
           let mi = parse_mid s tok fresh in
           if not (Lifecycle.ok_mid sc mi) then out := (Printf.sprintf "BAD\tside=impl\tclause=ok_mid:m%d" j) :: !out;
           if not (Lifecycle.mobs_eqb mm mi) then out := (Printf.sprintf "DIFF\tfields=m%d" j) :: !out
       done
     end;
     if !k < conns then out := (Printf.sprintf "DIFF\tfields=observations:%d:%d" !k conns) :: !out);
  !out

let () = run step
