(* C04: multiplexed calls on one client connection against a scripted server *)
open Gen
open Util

let parse_step (s : string) : ClientMux.step =
  match split_on ':' s with
  | ["R"; c] -> ClientMux.Register (n_of_hex c)
  | ["W"; c] -> ClientMux.Write (n_of_hex c)
  | ["T"; c] -> ClientMux.Timeout (n_of_hex c)
  | ["C"; c] -> ClientMux.Cancel (n_of_hex c)
  | ["D"] -> ClientMux.Deliver
  | ["F"; c; i] -> ClientMux.Forward (n_of_hex c, n_of_hex i)
  | ["Fn"; c] -> ClientMux.FwdNotify (n_of_hex c)
  | ["r"; k; v] -> ClientMux.Srv (ClientMux.SReply (n_of_hex k, n_of_hex v))
  | ["u"; i; v] -> ClientMux.Srv (ClientMux.SUnknown (n_of_hex i, n_of_hex v))
  | ["n"; k; v] -> ClientMux.Srv (ClientMux.SNotify (n_of_hex k, n_of_hex v))
  | ["N"; i; v] -> ClientMux.Srv (ClientMux.SNotifyRaw (n_of_hex i, n_of_hex v))
  | _ -> failwith ("bad step " ^ s)

let nlist s = if s = "-" then [] else Stdlib.List.map n_of_hex (split_on '.' s)

let parse_oc (s : string) : ClientMux.oc =
  if s = "t" then ClientMux.CTimeout
  else if s = "c" then ClientMux.CCancel
  else if s = "x" then ClientMux.CClosed
  else if s = "r" then ClientMux.CRefused
  else if s = "n" then ClientMux.CNone
  else if String.length s >= 2 && s.[0] = 'g' then ClientMux.CGot (n_of_hex (String.sub s 1 (String.length s - 1)))
  else if String.length s >= 2 && s.[0] = 'b' then ClientMux.CBad (n_of_hex (String.sub s 1 (String.length s - 1)))
  else failwith ("bad outcome " ^ s)

let show_oc (o : ClientMux.oc) = match o with
  | ClientMux.CGot t -> "g" ^ hex_of_n t | ClientMux.CTimeout -> "t" | ClientMux.CCancel -> "c"
  | ClientMux.CClosed -> "x" | ClientMux.CRefused -> "r" | ClientMux.CNone -> "n" | ClientMux.CBad c -> "b" ^ hex_of_n c

let step _ cs os =
  let f = fields cs and o = fields os in
  let ws = (get f "k" = "ws") in
  (* Z / z are harness-only steps (a call whose body fails to serialize): not part of the model's schedule *)
  let sched = let s = get f "sched" in if s = "-" then [] else
      Stdlib.List.map parse_step (Stdlib.List.filter (fun t -> t <> "Z" && t <> "z") (split_on ';' s)) in
  (* ids are compared up to their order (rank): an id drawn by a call that never reached the wire
     leaves a gap that says nothing; duplicates survive the compression *)
  let ranks (l : BinNums.coq_N list) : BinNums.coq_N list =
    (* counter-issued ids are small: compare them as integers (structural order on the binary
       representation is not numeric order) *)
    let li = Stdlib.List.map int_of_n l in
    let u = Stdlib.List.sort_uniq compare li in
    Stdlib.List.map (fun x -> let rec idx i = function [] -> 0 | y :: r -> if y = x then i else idx (i + 1) r in n_of_int (1 + idx 0 u)) li in
  let case = { ClientMux.c_ws = ws; c_n = n_of_hex (get f "n"); c_sched = sched } in
  let has_fwd = Stdlib.List.exists (fun st -> match st with ClientMux.Forward _ | ClientMux.FwdNotify _ -> true | _ -> false) sched in
  if has_fwd && get f "k" <> "async" then failwith "forward steps on a client without forward_message";
  if not (ClientMux.c04_wf case) then failwith "case is not well-formed (generator)";
  let out = ref [] in
  (* sub=0: a WebSocket client on which nobody subscribed to notifications.
     sub=d: somebody subscribed and dropped the receiver without unsubscribing: there is no
     notification subscriber either ("server-pushed notifications that reuse an in-flight id
     (those go only to the notification subscriber)": with the subscriber gone they go nowhere,
     in particular not to the call in flight), so the case is judged by the same model and
     oracle: nothing reaches a subscriber, the calls are judged as before *)
  let nosub = (match get_opt f "sub" with Some "0" | Some "d" -> true | _ -> false) in
  if nosub && not ws then failwith "sub=0 on a client without a notification subscriber";
  let model_of = if nosub then ClientMux.model_C04_nosub else ClientMux.model_C04 in
  let ok = if nosub then ClientMux.ok_C04_nosub else ClientMux.ok_C04 in
  let model = (let m = model_of case in { m with ClientMux.o_ids = ranks m.ClientMux.o_ids }) in
  if not (ok case model) then out := "BAD\tside=model\tclause=ok_C04(model)=false" :: !out;
  (match get_opt o "crash" with
   | Some c -> out := ("BAD\tside=impl\tclause=crash:" ^ c) :: !out
   | None ->
     let impl = { ClientMux.o_out = Stdlib.List.map parse_oc (split_on ',' (get o "out"));
                  o_sub = nlist (get o "sub"); o_ids = ranks (nlist (get o "ids")) } in
     if not (ok case impl) then out := ("BAD\tside=impl\tclause=ok_C04" ^ (if nosub then "_nosub" else "")) :: !out;
     (match get_opt o "gate" with
      | Some g when g <> "ok" -> out := ("BAD\tside=impl\tclause=schedule-not-realised:" ^ g) :: !out
      | _ -> ());
     if not (ClientMux.c04_obs_eqb impl model) then begin
       let d = ref [] in
       if impl.ClientMux.o_ids <> model.ClientMux.o_ids then d := "ids" :: !d;
       if impl.ClientMux.o_sub <> model.ClientMux.o_sub then d := "sub" :: !d;
       if impl.ClientMux.o_out <> model.ClientMux.o_out then
         d := ("out[model=" ^ String.concat "," (Stdlib.List.map show_oc model.ClientMux.o_out) ^ "]") :: !d;
       out := ("DIFF\tfields=" ^ String.concat "," !d) :: !out
     end);
  !out

let () = run step
