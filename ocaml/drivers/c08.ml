(* C08: bulk / generic / aligned numeric bodies, streaming writers, the
   borrowing route, wrong type / format requests, live calls.
   Elements are the hex of their little-endian bytes; "=" stands for the
   reference value (see harness/src/bin/c08.rs). *)
open Gen
open Util
open BinNums

let ety_of (s : string) : Beve.ety = match s with
  | "u8" -> Beve.ty_u8 | "u16" -> Beve.ty_u16 | "u32" -> Beve.ty_u32 | "u64" -> Beve.ty_u64
  | "i8" -> Beve.ty_i8 | "i16" -> Beve.ty_i16 | "i32" -> Beve.ty_i32 | "i64" -> Beve.ty_i64
  | "bf16" -> Beve.ty_bf16 | "f16" -> Beve.ty_f16 | "f32" -> Beve.ty_f32 | "f64" -> Beve.ty_f64
  | _ -> failwith ("bad type " ^ s)

let width_of (s : string) : int = match s with
  | "u8" | "i8" -> 1 | "u16" | "i16" | "bf16" | "f16" -> 2 | "u32" | "i32" | "f32" -> 4
  | "u64" | "i64" | "f64" -> 8 | _ -> failwith ("bad type " ^ s)

(* hex of little-endian elements of [w] bytes -> bit patterns; parsed here,
   independently of the model's codec *)
let elems_of_hex (w : int) (s : string) : coq_N list =
  if s = "-" then [] else begin
    let n = String.length s / 2 in
    if n mod w <> 0 then failwith "element bytes not a multiple of the width";
    let count = n / w in
    let rec go i acc =
      if i < 0 then acc else begin
        let b = Bytes.create (2 * w) in
        for j = 0 to w - 1 do
          (* byte j of the big-endian rendering is byte (w-1-j) of the element *)
          Bytes.set b (2 * j) s.[2 * (i * w + (w - 1 - j))];
          Bytes.set b (2 * j + 1) s.[2 * (i * w + (w - 1 - j)) + 1]
        done;
        go (i - 1) (n_of_hex (Bytes.to_string b) :: acc)
      end in
    go (count - 1) []
  end

let berr_of (s : string) : Beve.berr = match s with
  | "eof" -> Beve.BEof | "itype" -> Beve.BInvalidType | "mismatch" -> Beve.BMismatch
  | "isize" -> Beve.BInvalidSize | "unsup" -> Beve.BUnsupported | "format" -> Beve.BFormat
  | "remote" -> Beve.BRemote | _ -> Beve.BOther

(* "ok:=" | "ok:<hex>" | "err:<kind>"; [w] is the width of the decoding type *)
let res_of (w : int) (reference : coq_N list option) (s : string) : coq_N list Beve.dres =
  if s = "ok:=" then (match reference with Some x -> Beve.DOk x | None -> failwith "= without reference")
  else if String.length s >= 3 && String.sub s 0 3 = "ok:" then Beve.DOk (elems_of_hex w (String.sub s 3 (String.length s - 3)))
  else if String.length s >= 4 && String.sub s 0 4 = "err:" then Beve.DErr (berr_of (String.sub s 4 (String.length s - 4)))
  else failwith ("bad result " ^ trunc s)

let bytes_or (reference : coq_N list) (s : string) = if s = "=" then reference else bytes_of_hex s

let ck_of = function "b" -> Beve.CBulk | "a" -> Beve.CAligned | "s" -> Beve.CSerde | s -> failwith ("bad client kind " ^ s)
let rk_of = function "s" -> Beve.RSlice | "r" -> Beve.RRef | "t" -> Beve.RTyped | s -> failwith ("bad route kind " ^ s)

let first_diff a b =
  let rec go i a b = match a, b with
    | x :: a', y :: b' -> if x = y then go (i + 1) a' b' else Some i
    | [], [] -> None | _ -> Some i in
  go 0 a b

let step _ cs os =
  let f = fields cs and o = fields os in
  let t = get f "t" in
  let w = width_of t in
  let out = ref [] in
  (* the case, and a parser for the implementation's observation *)
  let (case, parse_obs) : Beve.c08_case * (unit -> Beve.c08_obs) =
    match get f "k" with
    | "enc" ->
      let xs = elems_of_hex w (get f "xs") in
      (Beve.KEnc (ety_of t, xs, bytes_of_hex (get f "q"), n_of_hex (get f "id")),
       fun () ->
         let bulk = bytes_of_hex (get o "bulk") in
         let stream = bytes_of_hex (get o "stream") in
         { Beve.o_bytes = [bulk; bytes_or bulk (get o "gen"); stream; bytes_or stream (get o "frame")];
           o_res = Stdlib.List.map (fun k -> res_of w (Some xs) (get o k)) ["r1"; "r2"; "r3"; "r4"];
           o_flags = [] })
    | "cplx" ->
      let zs = elems_of_hex w (get f "zs") in
      let u = get f "u" in
      (Beve.KCplx (ety_of t, ety_of u, zs, bytes_of_hex (get f "q"), n_of_hex (get f "id")),
       fun () ->
         let bulk = bytes_of_hex (get o "bulk") in
         let stream = bytes_of_hex (get o "stream") in
         { Beve.o_bytes = [bulk; bytes_or bulk (get o "gen"); stream; bytes_or stream (get o "frame")];
           o_res = Stdlib.List.map (fun k -> res_of w (Some zs) (get o k)) ["r1"; "r2"; "r3"; "r4"; "r5"]
                   @ [res_of (width_of u) None (get o "r6")];
           o_flags = [] })
    | "ref" ->
      let xs = elems_of_hex w (get f "xs") in
      (Beve.KRef (ety_of t, xs, n_of_hex (get f "ql"), n_of_hex (get f "m"), ck_of (get f "src")),
       fun () ->
         { Beve.o_bytes = [bytes_of_hex (get o "body")];
           o_res = [res_of w (Some xs) (get o "r1"); res_of w (Some xs) (get o "r2")];
           o_flags = [get o "bor" = "1"] })
    | "wt" ->
      let xs = elems_of_hex w (get f "xs") in
      let u = get f "u" in
      let wu = width_of u in
      (Beve.KWrongType (ety_of t, ety_of u, xs, n_of_hex (get f "ql"), n_of_hex (get f "m")),
       fun () ->
         { Beve.o_bytes = [];
           o_res = Stdlib.List.map (fun k -> res_of wu None (get o k)) ["r1"; "r2"; "r3"; "r4"; "r5"];
           o_flags = [] })
    | "wf" ->
      let xs = elems_of_hex w (get f "xs") in
      (Beve.KWrongFmt (ety_of t, xs, n_of_hex (get f "bf"), (get_opt f "g" = Some "1")),
       fun () ->
         { Beve.o_bytes = [];
           o_res = Stdlib.List.map (fun k -> res_of w None (get o k)) ["r1"; "r2"; "r3"; "r4"];
           o_flags = [] })
    | "net" ->
      let xs = elems_of_hex w (get f "xs") in
      (Beve.KNet (rk_of (get f "rk"), ck_of (get f "ck"), ety_of t, xs, n_of_hex (get f "ql")),
       fun () ->
         { Beve.o_bytes = [];
           o_res = [res_of w (Some xs) (get o "r1"); res_of w (Some xs) (get o "r2")];
           o_flags = [] })
    | k -> failwith ("bad kind " ^ k) in
  if not (Beve.c08_wf case) then failwith "case is not well-formed (c08_wf)";
  let model = Beve.model_C08 case in
  if not (Beve.ok_C08 case model) then out := "BAD\tside=model\tclause=ok_C08(model)=false" :: !out;
  (match get_opt o "crash" with
   | Some c -> out := ("BAD\tside=impl\tclause=crash:" ^ c) :: !out
   | None ->
     let impl = parse_obs () in
     if not (Beve.ok_C08 case impl) then out := "BAD\tside=impl\tclause=ok_C08" :: !out;
     if impl <> model then begin
       let parts = ref [] in
       (match first_diff impl.Beve.o_bytes model.Beve.o_bytes with Some i -> parts := Printf.sprintf "bytes%d" i :: !parts | None -> ());
       (match first_diff impl.Beve.o_res model.Beve.o_res with Some i -> parts := Printf.sprintf "res%d" i :: !parts | None -> ());
       (match first_diff impl.Beve.o_flags model.Beve.o_flags with Some i -> parts := Printf.sprintf "flag%d" i :: !parts | None -> ());
       out := ("DIFF\tfields=" ^ String.concat "," (Stdlib.List.rev !parts)) :: !out
     end);
  !out

let () = run step
