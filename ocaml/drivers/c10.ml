(* C10: pull-to-file commit path; one pull per line *)
open Gen
open Util

let parse_puller = function
  | "file" -> SvsCommit.PuFile | "bevefile" -> SvsCommit.PuBeveFile | "zstfile" -> SvsCommit.PuZstFile
  | "trailer" -> SvsCommit.PuTrailer | "afile" -> SvsCommit.PuAFile | "averified" -> SvsCommit.PuAVerified
  | "atrailer" -> SvsCommit.PuATrailer | "value" -> SvsCommit.PuValue | "avalue" -> SvsCommit.PuAValue
  | s -> failwith ("bad puller " ^ s)

let parse_probe = function
  | "after_create" -> SvsCommit.PAfterCreate | "fetch" -> SvsCommit.PFetch
  | "before_flush" -> SvsCommit.PBeforeFlush | "before_sync" -> SvsCommit.PBeforeSync
  | "before_rename" -> SvsCommit.PBeforeRename | "after_rename" -> SvsCommit.PAfterRename
  | s -> failwith ("bad probe " ^ s)

let parse_fault s = match split_on ':' s with
  | ["none"] -> SvsCommit.FNone
  | ["prod"; k] -> SvsCommit.FProducer (n_of_hex k)
  | ["cut"; j] -> SvsCommit.FCut (n_of_hex j)
  | ["reject"] -> SvsCommit.FReject
  | ["kill"; p; n] -> SvsCommit.FKill (parse_probe p, n_of_hex n)
  | _ -> failwith ("bad fault " ^ s)

(* file content: "absent", "-" (empty) or hex *)
let parse_content s = if s = "absent" then None else Some (bytes_of_hex s)
let show_content = function None -> "absent" | Some b -> hex_of_bytes b

let parse_res = function
  | "ok" -> SvsCommit.ROk | "err" -> SvsCommit.RErr | "killed" -> SvsCommit.RKilled
  | s -> failwith ("bad res " ^ s)
let show_res = function SvsCommit.ROk -> "ok" | SvsCommit.RErr -> "err" | SvsCommit.RKilled -> "killed"

(* fault=trunc: the proxy shortened the final chunk of a compressed stream (observation field
   trunc=1); the pull failed inside the client after the end-of-stream flag.  The commit model has
   no such fault: the line is judged by the extracted oracle alone, with "a connection cut before
   anything arrived" standing in as the fault (ok_C10 only asks whether something went wrong). *)
let trunc_step cs os =
  let f = fields cs and o = fields os in
  match get_opt o "crash" with
  | Some c -> ["BAD\tside=impl\tclause=crash:" ^ c]
  | None ->
    if get_opt o "trunc" <> Some "1" then [] else begin
      let stream = bytes_of_hex (get f "stream") in
      let wire = let w = get f "wire" in if w = "=" then stream else bytes_of_hex w in
      let case = { SvsCommit.c_puller = parse_puller (get f "pu"); c_stream = stream; c_wire = wire;
                   c_comp = (get f "comp" = "1"); c_chunk = n_of_hex (get f "chunk");
                   c_trailer = n_of_hex (get f "trailer"); c_dst = parse_content (get f "dst");
                   c_tmp = parse_content (get f "tmp"); c_fault = SvsCommit.FCut (n_of_int 0) } in
      let impl = { SvsCommit.o_res = parse_res (get o "res"); o_dst = parse_content (get o "dst");
                   o_tmp = (get o "tmp" = "1") } in
      if SvsCommit.ok_C10 case impl then []
      else ["BAD\tside=impl\tclause=a pull whose compressed stream was incomplete published a file or left a temp file (or reported success)"]
    end

(* fault=drop:k: the future of an async pull-to-file was dropped in mid-transfer (a select! whose other
   branch completed, an aborted task) while the producer stalled after k bytes: an interrupted pull.
   Property text: "A pull-to-file publishes the destination only after the whole stream arrived ...
   If the producer fails, the connection drops, ... the destination path is left exactly as it was
   (absent, or its previous content) ... and a failed in-process pull leaves no temporary file."
   The commit model has no such fault: the line is judged by the extracted oracle alone, with "a
   connection cut before anything arrived" standing in as the fault (ok_C10 only asks whether
   something went wrong).  The harness looks at the directory after the puller's detached decoder
   thread had time to wind down; res=err says that the caller was never told of a success. *)
let drop_step cs os =
  let f = fields cs and o = fields os in
  match get_opt o "crash" with
  | Some c -> ["BAD\tside=impl\tclause=crash:" ^ c]
  | None ->
    let stream = bytes_of_hex (get f "stream") in
    let wire = let w = get f "wire" in if w = "=" then stream else bytes_of_hex w in
    let case = { SvsCommit.c_puller = parse_puller (get f "pu"); c_stream = stream; c_wire = wire;
                 c_comp = (get f "comp" = "1"); c_chunk = n_of_hex (get f "chunk");
                 c_trailer = n_of_hex (get f "trailer"); c_dst = parse_content (get f "dst");
                 c_tmp = parse_content (get f "tmp"); c_fault = SvsCommit.FCut (n_of_int 0) } in
    if not (SvsCommit.c10_wf case) then failwith "drop: case outside the model's domain (c10_wf = false)";
    let impl = { SvsCommit.o_res = parse_res (get o "res"); o_dst = parse_content (get o "dst");
                 o_tmp = (get o "tmp" = "1") } in
    if SvsCommit.ok_C10 case impl then []
    else if impl.SvsCommit.o_res = SvsCommit.ROk then ["BAD\tside=impl\tclause=a pull whose producer stalled in mid-stream reported success"]
    else [Printf.sprintf "BAD\tside=impl\tclause=a pull whose future was dropped in mid-transfer %s (destination now %s, before %s)"
            (if impl.SvsCommit.o_tmp then "left its temp file behind" else "published a file")
            (trunc (show_content impl.SvsCommit.o_dst)) (trunc (show_content case.SvsCommit.c_dst))]

let starts p s = String.length s >= String.length p && String.sub s 0 (String.length p) = p

let step _ cs os =
  if get_opt (fields cs) "fault" = Some "trunc" then trunc_step cs os else
  if (match get_opt (fields cs) "fault" with Some s -> starts "drop:" s | None -> false) then drop_step cs os else
  let f = fields cs and o = fields os in
  let stream = bytes_of_hex (get f "stream") in
  let wire = let w = get f "wire" in if w = "=" then stream else bytes_of_hex w in
  let case = { SvsCommit.c_puller = parse_puller (get f "pu"); c_stream = stream; c_wire = wire;
               c_comp = (get f "comp" = "1"); c_chunk = n_of_hex (get f "chunk");
               c_trailer = n_of_hex (get f "trailer"); c_dst = parse_content (get f "dst");
               c_tmp = parse_content (get f "tmp"); c_fault = parse_fault (get f "fault") } in
  if not (SvsCommit.c10_wf case) then failwith "case outside the model's domain (c10_wf = false)";
  let out = ref [] in
  let model = SvsCommit.model_C10 case in
  if not (SvsCommit.ok_C10 case model) then out := "BAD\tside=model\tclause=ok_C10(model)=false" :: !out;
  (match get_opt o "crash" with
   | Some c -> out := ("BAD\tside=impl\tclause=crash:" ^ c) :: !out
   | None ->
     let impl = { SvsCommit.o_res = parse_res (get o "res"); o_dst = parse_content (get o "dst");
                  o_tmp = (get o "tmp" = "1") } in
     if not (SvsCommit.ok_C10 case impl) then begin
       let clause = match impl.SvsCommit.o_res with
         | SvsCommit.ROk -> "success-publishes-exactly-the-complete-content-and-only-when-nothing-failed"
         | SvsCommit.RErr -> "failure-leaves-destination-unchanged-and-no-temp-file"
         | SvsCommit.RKilled -> "killed-pull-leaves-destination-old-or-complete" in
       out := ("BAD\tside=impl\tclause=" ^ clause) :: !out
     end;
     if not (SvsCommit.c10_obs_match case model impl) then begin
       let d = ref [] in
       if impl.SvsCommit.o_tmp <> model.SvsCommit.o_tmp then d := "tmp" :: !d;
       if impl.SvsCommit.o_dst <> model.SvsCommit.o_dst then d := "dst" :: !d;
       if impl.SvsCommit.o_res <> model.SvsCommit.o_res then d := "res" :: !d;
       out := (Printf.sprintf "DIFF\tfields=%s\tmodel=res:%s,dst:%s,tmp:%d" (String.concat "," !d)
                 (show_res model.SvsCommit.o_res) (trunc (show_content model.SvsCommit.o_dst))
                 (if model.SvsCommit.o_tmp then 1 else 0)) :: !out
     end);
  !out

let () = run step
