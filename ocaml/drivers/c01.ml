open Gen
open Util

let parse_case f : C01.c01_case =
  let g k = n_of_hex (get f k) in
  { C01.c_hdr = { Header.h_length = g "len"; h_spec = g "spec"; h_version = g "ver"; h_notify = g "ntf";
                  h_reserved = g "rsv"; h_id = g "id"; h_qlen = g "ql"; h_blen = g "bl"; h_qfmt = g "qf";
                  h_bfmt = g "bf"; h_ec = g "ec" };
    c_query = bytes_of_hex (get f "q"); c_body = bytes_of_hex (get f "b");
    (* the capacity the allocator actually gave is what the code compares against *)
    c_cap = (match get_opt f "capreal" with Some c -> n_of_hex c | None -> g "cap");
    c_chunks = (let s = get f "chunks" in if s = "-" then [] else Stdlib.List.map n_of_hex (split_on ',' s));
    c_rest = bytes_of_hex (get f "rest"); c_echo = (get f "echo" = "1") }

let parse_obs (o : (string * string) list) : C01.c01_obs =
  match get_opt o "crash" with
  | Some _ -> C01.empty_obs Outcome.Panic
  | None ->
  let nw = outcome_of (get o "new") None msg_of_okbody in
  match nw with
  | Outcome.Ok m ->
    let tv = bytes_of_hex (get o "r0") in
    let bytes_or_same k = let s = get o k in if s = "=" then tv else if String.length s >= 5 && String.sub s 0 5 = "ioerr" then [] else bytes_of_hex s in
    let mo k = outcome_of (get o k) (Some m) msg_of_okbody in
    let rest_of s reference = if s = "=" then reference else bytes_of_hex s in
    let rd = let s = get o "rd" in
      if String.length s >= 4 && String.sub s 0 4 = "err:" then Outcome.Err (err_of_string (String.sub s 4 (String.length s - 4)))
      else (match split_on '/' s with
        | [ms; rs] -> let m' = (match outcome_of ms (Some m) msg_of_okbody with Outcome.Ok x -> x | _ -> failwith "rd") in
                      Outcome.Ok (m', rs)
        | _ -> failwith ("bad rd " ^ trunc s)) in
    let ri = let s = get o "ri" in
      if String.length s >= 4 && String.sub s 0 4 = "err:" then Outcome.Err (err_of_string (String.sub s 4 (String.length s - 4)))
      else (match split_on '/' s with
        | [fs; rs] -> Outcome.Ok ((if fs = "=" then tv else bytes_of_hex fs), rs)
        | _ -> failwith ("bad ri " ^ trunc s)) in
    (* "=" for the rest means: equal to the case's rest; resolved by the caller *)
    { C01.o_new = nw;
      o_routes = tv :: Stdlib.List.map bytes_or_same ["r1"; "r2"; "r3"; "r4"; "r5"];
      o_srv = Stdlib.List.map bytes_or_same ["r6"; "r7"; "r8"];
      o_decode = outcome_of (get o "dec") (Some m.Message.m_hdr) header_of_string;
      o_parse_more = [mo "pm0"; mo "pm1"]; o_parse_exact = [mo "pe0"; mo "pe1"]; o_parse_trail = [mo "pt0"; mo "pt1"];
      o_read = (match rd with Outcome.Ok (m', rs) -> Outcome.Ok (m', [n_of_int 0]) | Outcome.Err e -> Outcome.Err e | _ -> Outcome.Panic);
      o_read_into = (match ri with Outcome.Ok (f, rs) -> Outcome.Ok (f, [n_of_int 0]) | Outcome.Err e -> Outcome.Err e | _ -> Outcome.Panic) }
    |> fun ob ->
      (* second pass to resolve the rests against the case: done in [step] *)
      ob
  | other -> C01.empty_obs other

(* resolve the "rest" parts of rd/ri, which need the case *)
let fix_rests (c : C01.c01_case) (o : (string * string) list) (ob : C01.c01_obs) : C01.c01_obs =
  let fix k cur = match cur with
    | Outcome.Ok (a, _) ->
      let s = get o k in
      (match split_on '/' s with
       | [_; rs] -> Outcome.Ok (a, (if rs = "=" then c.C01.c_rest else bytes_of_hex rs))
       | _ -> cur)
    | x -> x in
  match ob.C01.o_new with
  | Outcome.Ok _ -> { ob with C01.o_read = fix "rd" ob.C01.o_read; o_read_into = fix "ri" ob.C01.o_read_into }
  | _ -> ob

let describe_diff (a : C01.c01_obs) (b : C01.c01_obs) : string =
  let parts = ref [] in
  let add n c = if c then parts := n :: !parts in
  add "new" (a.C01.o_new <> b.C01.o_new);
  add "routes" (a.o_routes <> b.o_routes); add "srv" (a.o_srv <> b.o_srv); add "decode" (a.o_decode <> b.o_decode);
  add "parse_more" (a.o_parse_more <> b.o_parse_more); add "parse_exact" (a.o_parse_exact <> b.o_parse_exact);
  add "parse_trail" (a.o_parse_trail <> b.o_parse_trail); add "read" (a.o_read <> b.o_read); add "read_into" (a.o_read_into <> b.o_read_into);
  String.concat "," (Stdlib.List.rev !parts)

let step _ cs os =
  let c = parse_case (fields cs @ fields os) in
  let of_ = fields os in
  let impl = fix_rests c of_ (parse_obs of_) in
  let model = C01.model_C01 c in
  let out = ref [] in
  if not (C01.c01_wf c) then out := ["DRIVER-ERROR\tcase not well-formed"] else begin
    if not (C01.ok_C01 c model) then out := "BAD\tside=model\tclause=ok_C01(model)=false (theorem C01_holds contradicted?)" :: !out;
    if not (C01.ok_C01 c impl) then out := "BAD\tside=impl\tclause=ok_C01" :: !out;
    (* the builder route (bld=<48 header bytes>:<payload is query ++ body>:<error code used>): the
       header must be the encoding of the model's [build] for the same inputs *)
    (match get_opt of_ "bld" with
     | Some s ->
       (match split_on ':' s with
        | [hdr; pay; ec] ->
          let h = c.C01.c_hdr in
          let bm = Message.build { Message.b_id = h.Header.h_id; b_query = c.C01.c_query; b_body = c.C01.c_body;
                                   b_qfmt = h.Header.h_qfmt; b_bfmt = h.Header.h_bfmt;
                                   b_notify = (h.Header.h_notify <> n_of_int 0); b_ec = n_of_hex ec } in
          if bytes_of_hex hdr <> Header.encode bm.Message.m_hdr || pay <> "1" then
            out := "BAD\tside=impl\tclause=MessageBuilder::build: header is not the encoding of the built message (lengths, formats) or the payload is not query ++ body" :: !out
        | _ -> failwith "bad bld")
     | None -> ());
    (* the error-message constructors (cem=<hdr of create_error_message>:<payload ok>:<hdr of
       create_error_response_like>:<payload ok>:<code>): consistent headers, the text as a UTF-8 body *)
    (match get_opt of_ "cem" with
     | Some s ->
       (match split_on ':' s with
        | [h1; p1; h2; p2; code] ->
          let text = Stdlib.List.map (fun _ -> n_of_int 101) c.C01.c_body in
          let mk id q = Message.build { Message.b_id = id; b_query = q; b_body = text; b_qfmt = n_of_int 0; b_bfmt = n_of_int 3;
                                        b_notify = false; b_ec = n_of_hex code } in
          let m1 = mk (n_of_int 0) [] and m2 = mk c.C01.c_hdr.Header.h_id c.C01.c_query in
          if bytes_of_hex h1 <> Header.encode m1.Message.m_hdr || p1 <> "1" then
            out := "BAD\tside=impl\tclause=create_error_message: header lengths / fields do not describe the message it serializes" :: !out;
          if bytes_of_hex h2 <> Header.encode m2.Message.m_hdr || p2 <> "1" then
            out := "BAD\tside=impl\tclause=create_error_response_like: header lengths / fields do not describe the message it serializes" :: !out
        | _ -> failwith "bad cem")
     | None -> ());
    if impl <> model then out := ("DIFF\tfields=" ^ describe_diff impl model) :: !out
  end;
  !out

let () = run step
