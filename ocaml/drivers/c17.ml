(* C17: the outbound size guard on every outbound path *)
open Gen
open Util

let path_of s : Limits.opath = match s with
  | "inline" -> Limits.PInlineResponse | "offreader" -> Limits.POffReaderResponse
  | "push" -> Limits.PHandlerNotify | "broadcast" -> Limits.PBroadcastNotify | "proxy" -> Limits.PProxyResponse
  | "creq" -> Limits.PClientRequest | "cnotify" -> Limits.PClientNotify
  | _ -> failwith ("bad path " ^ s)

let sent_of s : Limits.sent =
  if s = "none" then Limits.SNothing else
  match split_on ':' s with
  | ["frame"; size; id; ec; same] -> Limits.SFrame (n_of_hex size, n_of_hex id, n_of_hex ec, (same = "1"))
  | _ -> failwith ("bad sent " ^ s)

let step _ cs os =
  let f = fields cs and o = fields os in
  match get_opt o "crash" with
  | Some c -> ["BAD\tside=impl\tclause=crash:" ^ c]
  | None when get_opt f "upfail" <> None && get_opt f "upfail" <> Some "0" ->
    (* path=proxy upfail=K: the proxy's upstream connection fails underneath the request in flight (it is
       closed by the upstream at one of four moments, no response ever comes). The extracted model describes
       one message offered to one outbound path; it says nothing about a failing upstream, so neither the
       model nor ok_C17 is applied: whether the proxy answers, closes or drops the downstream connection is
       not judged. What is judged is the first sentence of the property, which holds at every moment: "With
       an assumed peer frame limit configured (at least large enough to carry an error reply) no binary
       message larger than the limit is ever sent by a server, proxy or client". The observation carries
       max = the size of the largest binary message the raw downstream peer received (0 if none). *)
    (match get f "limit" with
     | "-" -> []
     | l ->
       let limit = n_of_hex l and mx = n_of_hex (get o "max") in
       if BinNat.N.leb Limits.replacement_bound limit && BinNat.N.ltb limit mx
       then ["BAD\tside=impl\tclause=binary-message-larger-than-the-limit-sent:max=" ^ get o "max" ^ ":limit=" ^ l]
       else [])
  | None ->
    let a = { Limits.a_path = path_of (get f "path");
              a_limit = (let l = get f "limit" in if l = "-" then None else Some (n_of_hex l));
              a_flen = n_of_hex (get f "flen"); a_id = n_of_hex (get f "id"); a_notify = (get f "ntf" = "1") } in
    let ec = n_of_hex (get f "ec") in
    let model = Limits.model_C17_abs ec a in
    let out = ref [] in
    (* A case with conc=K reps=M is K*M simultaneous instances of ONE abstract case on K connections of one
       server. The model is a function of the abstract case, so all instances must be observed alike; the
       harness folds them into one observation and prints rep=mixed:<n>/<K*M> when the error hook saw a
       report for some instances only (neither none nor all). Property text: "an oversized response is
       replaced ..., an oversized notification is dropped and reported": every refusal is reported, and
       nothing is reported for a message within the limit; whichever the model says for this case, at
       least one instance was observed otherwise. Such an observation is judged with the negation of the
       model's `reported`, so that the extracted oracle and the comparison see the deviating instance. *)
    let rep = get o "rep" in
    let mixed = String.length rep >= 5 && String.sub rep 0 5 = "mixed" in
    if mixed then out := ("BAD\tside=impl\tclause=reported-for-some-instances-only:" ^ rep) :: !out;
    let impl = { Limits.w_sent = sent_of (get o "sent");
                 w_reported = (if mixed then not model.Limits.w_reported else rep = "1");
                 w_alive = (get o "alive" = "1") } in
    if not (Limits.ok_C17_abs a model) then out := "BAD\tside=model\tclause=ok_C17(model)=false" :: !out;
    if not (Limits.ok_C17_abs a impl) then out := "BAD\tside=impl\tclause=ok_C17" :: !out;
    if not (Limits.c17_obs_eqb impl model) then out := "DIFF\tfields=sent/reported/alive" :: !out;
    !out

let () = run step
