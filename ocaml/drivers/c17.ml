(* C17: the outbound size guard on every outbound path *)
open Gen
open Util

let path_of s : Limits.opath = match s with
  | "inline" -> Limits.PInlineResponse | "offreader" -> Limits.POffReaderResponse
  | "push" -> Limits.PHandlerNotify | "broadcast" -> Limits.PBroadcastNotify | "proxy" -> Limits.PProxyResponse
  | "creq" -> Limits.PClientRequest | "cnotify" -> Limits.PClientNotify
  | _ -> failwith ("bad path " ^ s)

let sent_of s : Limits.sent =
  if s = "none" then Limits.SNothing else
  match split_on ':' s with
  | ["frame"; size; id; ec; same] -> Limits.SFrame (n_of_hex size, n_of_hex id, n_of_hex ec, (same = "1"))
  | _ -> failwith ("bad sent " ^ s)

let step _ cs os =
  let f = fields cs and o = fields os in
  match get_opt o "crash" with
  | Some c -> ["BAD\tside=impl\tclause=crash:" ^ c]
  | None ->
    let a = { Limits.a_path = path_of (get f "path");
              a_limit = (let l = get f "limit" in if l = "-" then None else Some (n_of_hex l));
              a_flen = n_of_hex (get f "flen"); a_id = n_of_hex (get f "id"); a_notify = (get f "ntf" = "1") } in
    let ec = n_of_hex (get f "ec") in
    let model = Limits.model_C17_abs ec a in
    let out = ref [] in
    (* A case with conc=K reps=M is K*M simultaneous instances of ONE abstract case on K connections of one
       server. The model is a function of the abstract case, so all instances must be observed alike; the
       harness folds them into one observation and prints rep=mixed:<n>/<K*M> when the error hook saw a
       report for some instances only (neither none nor all). Property text: "an oversized response is
       replaced ..., an oversized notification is dropped and reported": every refusal is reported, and
       nothing is reported for a message within the limit; whichever the model says for this case, at
       least one instance was observed otherwise. Such an observation is judged with the negation of the
       model's `reported`, so that the extracted oracle and the comparison see the deviating instance. *)
    let rep = get o "rep" in
    let mixed = String.length rep >= 5 && String.sub rep 0 5 = "mixed" in
    if mixed then out := ("BAD\tside=impl\tclause=reported-for-some-instances-only:" ^ rep) :: !out;
    let impl = { Limits.w_sent = sent_of (get o "sent");
                 w_reported = (if mixed then not model.Limits.w_reported else rep = "1");
                 w_alive = (get o "alive" = "1") } in
    if not (Limits.ok_C17_abs a model) then out := "BAD\tside=model\tclause=ok_C17(model)=false" :: !out;
    if not (Limits.ok_C17_abs a impl) then out := "BAD\tside=impl\tclause=ok_C17" :: !out;
    if not (Limits.c17_obs_eqb impl model) then out := "DIFF\tfields=sent/reported/alive" :: !out;
    !out

let () = run step
