(* C05: what an endpoint puts on a connection.  The harness reports what the
   scripted peer's independent parser attributed (whole frames W, a torn
   prefix T, unattributable bytes), the result of every call and whether the
   endpoint ended the stream.  Writers run concurrently, so the lock order is
   not an input: the schedule (whose turn, where the interruption cut) is read
   off the observation, the model is run on that witness and must reproduce
   the whole observation (trace inclusion); the oracle is applied to the
   implementation's observation independently of the model. *)
open Gen
open Util

module W = WriterSM

let ep_of = function
  | "client" -> W.EClient | "aclient" -> W.EAsyncClient | "wsclient" -> W.EWsClient
  | "server" -> W.EServer | "aserver" -> W.EAsyncServer | "wsserver" -> W.EWsServer
  | s -> failwith ("bad endpoint " ^ s)

let is_atomic = function W.EWsClient | W.EWsServer -> true | _ -> false

type st = Ok_ | Err_ | Int_ | Abort_
let st_of = function "ok" -> Ok_ | "err" -> Err_ | "int" -> Int_ | "abort" -> Abort_ | s -> failwith ("bad status " ^ s)

let parse_seg s : W.seg =
  match split_on ':' s with
  | ["W"; t; q; l] -> { W.sg_w = n_of_hex t; sg_seq = n_of_hex q; sg_len = n_of_hex l; sg_k = n_of_hex l }
  | ["T"; t; q; l; k] -> { W.sg_w = n_of_hex t; sg_seq = n_of_hex q; sg_len = n_of_hex l; sg_k = n_of_hex k }
  | _ -> failwith ("bad wire token " ^ trunc s)

let list_of s f = if s = "-" then [] else Stdlib.List.map f (split_on ',' s)

let seg_str (s : W.seg) =
  if s.W.sg_k = s.W.sg_len then Printf.sprintf "W:%s:%s:%s" (hex_of_n s.W.sg_w) (hex_of_n s.W.sg_seq) (hex_of_n s.W.sg_len)
  else Printf.sprintf "T:%s:%s:%s:%s" (hex_of_n s.W.sg_w) (hex_of_n s.W.sg_seq) (hex_of_n s.W.sg_len) (hex_of_n s.W.sg_k)

let step _ cs os =
  let f = fields cs and o = fields os in
  let ep = ep_of (get f "ep") in
  let lens = Stdlib.List.map (fun w -> Stdlib.List.map n_of_hex (split_on '.' w)) (split_on ',' (get f "flens")) in
  let pf = n_of_hex (get f "pf") in
  let pfi = int_of_n pf in
  let out = ref [] in
  (match get_opt o "crash" with
   | Some c -> out := ("BAD\tside=impl\tclause=crash:" ^ c) :: !out
   | None ->
     let wire = list_of (get o "wire") parse_seg in
     let garbage = n_of_hex (get o "garbage") in
     (* hung=<t:i,..>: calls whose request went out whole and that only ended by their own timeout *)
     (match get_opt o "hung" with
      | Some h -> out := ("BAD\tside=impl\tclause=a call in flight when the connection was failed hung until its own timeout: " ^ h) :: !out
      | None -> ());
     let res = list_of (get o "res") (fun s -> match split_on ':' s with
         | [t; q; st] -> ((int_of_n (n_of_hex t), int_of_n (n_of_hex q)), st_of st)
         | _ -> failwith ("bad result " ^ trunc s)) in
     let eof = get o "eof" = "1" in
     (* servers: idle=torn means that, with every request read and nothing more to answer, the open
        connection held an incomplete frame *)
     if get_opt o "idle" = Some "torn" then
       out := "BAD\tside=impl\tclause=an idle server left an incomplete frame on an open connection (its tail only left with a later response)" :: !out;
     let atomic = is_atomic ep in
     let status k = Stdlib.List.assoc_opt k res in
     let probes_failed = Stdlib.List.exists (fun ((t, _), st) -> t >= pfi && st <> Ok_) res in
     let key (s : W.seg) = (int_of_n s.W.sg_w, int_of_n s.W.sg_seq) in
     let on_wire = Stdlib.List.map key wire in
     (* the witness schedule *)
     let wire_turns = Stdlib.List.map (fun (s : W.seg) ->
         let ev =
           if s.W.sg_k <> s.W.sg_len then W.Cut s.W.sg_k
           else match status (key s) with
             | Some Ok_ | None -> W.Whole
             | Some Err_ | Some Int_ -> W.Cut s.W.sg_len
             | Some Abort_ -> if (not atomic) && probes_failed then W.Cut s.W.sg_len else W.Whole in
         (s.W.sg_w, ev)) wire in
     let absent = Stdlib.List.filter (fun (k, _) -> not (Stdlib.List.mem k on_wire)) res in
     let rank = function Int_ -> 0 | Abort_ -> 1 | Err_ -> 2 | Ok_ -> 3 in
     let cmp ((t1, q1), s1) ((t2, q2), s2) =
       let p1 = if t1 >= pfi then 1 else 0 and p2 = if t2 >= pfi then 1 else 0 in
       if p1 <> p2 then compare p1 p2
       else if p1 = 1 then compare (t1, q1) (t2, q2)
       else compare (rank s1, t1, q1) (rank s2, t2, q2) in
     let absent = Stdlib.List.sort cmp absent in
     let absent_turns = Stdlib.List.filter_map (fun ((t, _), st) ->
         match st with
         | Int_ -> Some (n_of_int t, W.Cut N0)
         | Abort_ -> if (not atomic) && probes_failed then Some (n_of_int t, W.Cut N0) else None
         | Err_ | Ok_ -> Some (n_of_int t, W.Whole)) absent in
     let case = { W.c_ep = ep; c_lens = lens; c_probe_from = pf; c_sched = wire_turns @ absent_turns } in
     let impl_res = Stdlib.List.filter_map (fun ((t, q), st) ->
         if st = Abort_ then None else Some ((n_of_int t, n_of_int q), st = Ok_)) res in
     let impl = { W.o_wire = wire; o_garbage = garbage; o_res = impl_res; o_eof = eof } in
     (* the oracle reads only the endpoint, the intended lengths and the probe
        boundary of the case: it does not depend on the witness schedule *)
     if not (W.ok_C05 case impl) then out := "BAD\tside=impl\tclause=ok_C05" :: !out;
     if not (W.c05_wf case) then
       out := "DIFF\tfields=no-witness-schedule(a probe frame precedes another writer's frame, or a frame is shorter than a header)" :: !out
     else begin
       let model = W.model_C05 case in
       if not (W.ok_C05 case model) then out := "BAD\tside=model\tclause=ok_C05(model)=false" :: !out;
       let diffs = ref [] in
       if not (W.segs_eqb model.W.o_wire wire) then
         diffs := ("wire[model=" ^ String.concat "," (Stdlib.List.map seg_str model.W.o_wire) ^ "]") :: !diffs;
       if garbage <> N0 then diffs := "garbage" :: !diffs;
       if model.W.o_eof <> eof then diffs := (Printf.sprintf "eof[model=%b]" model.W.o_eof) :: !diffs;
       Stdlib.List.iter (fun ((t, q), ok) ->
           let m = Stdlib.List.find_opt (fun ((t', q'), _) -> t' = t && q' = q) model.W.o_res in
           match m with
           | Some (_, ok') when ok' = ok -> ()
           | Some (_, ok') -> diffs := (Printf.sprintf "res:%s:%s[model=%b]" (hex_of_n t) (hex_of_n q) ok') :: !diffs
           | None -> diffs := (Printf.sprintf "res:%s:%s[model=unscheduled]" (hex_of_n t) (hex_of_n q)) :: !diffs) impl_res;
       if !diffs <> [] then out := ("DIFF\tfields=" ^ String.concat ";" (Stdlib.List.rev !diffs)) :: !out;
       (* the Coq reader on the real bytes (small cases only) *)
       (match get_opt o "raw" with
        | Some r when r <> "-" && garbage = N0 ->
          let bytes = bytes_of_hex r in
          let (frames, rest) = W.parse_frames bytes in
          let whole = Stdlib.List.filter (fun (s : W.seg) -> s.W.sg_k = s.W.sg_len) wire in
          let torn = Stdlib.List.filter (fun (s : W.seg) -> s.W.sg_k <> s.W.sg_len) wire in
          let lens_ok = (try Stdlib.List.for_all2 (fun fr (s : W.seg) -> Stdlib.List.length fr = int_of_n s.W.sg_len) frames whole
                         with Invalid_argument _ -> false) in
          let rest_ok = (match torn with
              | [] -> rest = []
              | [t] -> Stdlib.List.length rest = int_of_n t.W.sg_k
              | _ -> false) in
          if not (lens_ok && rest_ok) then
            out := (Printf.sprintf "BAD\tside=impl\tclause=raw_parse[frames=%d rest=%d]" (Stdlib.List.length frames) (Stdlib.List.length rest)) :: !out
        | _ -> ())
     end);
  !out

let () = run step
