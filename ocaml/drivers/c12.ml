(* C12: a waiter parked in wait_for_credit / wait_for_reconnect and signalling threads.
   Histories: compare with the extracted model (model_C12) and apply the extracted oracle
   (ok_C12) to the implementation's observation.
   Schedules (kind2=sched): enumerate every interleaving of the signaller threads in the
   extracted model (step / ready / waiter_return); if every interleaving ends with the
   condition true the waiter must have returned (with a value possible at some moment of
   some interleaving); if no interleaving ever makes it true it must still be parked. *)
open Gen
open Util

let parse_op (s : string) : Stream.op =
  match split_on ':' s with
  | ["S"; o] -> Stream.Sent (n_of_hex o)
  | ["A"; f; o] -> Stream.Ack (n_of_hex f, n_of_hex o)
  | ["V"; f] -> Stream.Advance (n_of_hex f)
  | ["R"; p; f; o] -> Stream.Resume (n_of_hex p, n_of_hex f, n_of_hex o)
  | ["C"; r] -> Stream.Cancel (n_of_hex r)
  | ["P"; off; len; l; body] -> Stream.Push (n_of_hex off, n_of_hex len, (l = "1"), bytes_of_hex body)
  | ["E"; p] -> Stream.SetPeer (n_of_hex p)
  | ["W"; l] -> Stream.TryCredit (n_of_hex l)
  | ["T"] -> Stream.TryReconnect
  | ["Q"; o] -> Stream.Replay (n_of_hex o)
  | _ -> failwith ("bad op " ^ s)

let parse_ops s = if s = "-" then [] else Stdlib.List.map parse_op (split_on ';' s)

let parse_res (s : string) : Condvar.wresult =
  match split_on ':' s with
  | ["granted"] -> Condvar.WGranted
  | ["ready"; o] -> Condvar.WResumeReady (n_of_hex o)
  | ["can"; r] -> Condvar.WCancelled (n_of_hex r)
  | ["timeout"] -> Condvar.WTimeout
  | _ -> failwith ("bad result " ^ trunc s)

let parse_obs (s : string) : Condvar.wobs =
  if s = "P" then Condvar.StillParked else Condvar.Returned (parse_res s)

let kind_of f : Condvar.wkind =
  match get f "kind" with
  | "credit" -> Condvar.WCredit (n_of_hex (get f "len"))
  | "reconnect" -> Condvar.WReconnect
  | k -> failwith ("bad kind " ^ k)

let history f o =
  let win = n_of_hex (get f "win") and cap = n_of_hex (get f "cap") in
  let k = kind_of f in
  let pre = parse_ops (get f "pre") and ops = parse_ops (get f "ops") in
  if not (Gen.C11.hist_ok win cap (pre @ ops)) then failwith "history outside the quantifier (generator bug)" else begin
    let out = ref [] in
    let model = Condvar.model_C12 win cap k pre ops in
    if not (Condvar.ok_C12 win cap k pre ops model) then out := "BAD\tside=model\tclause=ok_C12(model)=false" :: !out;
    (match get_opt o "crash" with
     | Some c -> out := ("BAD\tside=impl\tclause=crash:" ^ c) :: !out
     | None ->
       let first = parse_obs (get o "first") in
       let obs = let s = get o "obs" in if s = "-" then [] else Stdlib.List.map parse_obs (split_on ',' s) in
       let impl = (first, obs) in
       if get_opt o "end" = Some "stuck" then out := "BAD\tside=impl\tclause=stuck-after-cancel" :: !out;
       if not (Condvar.ok_C12 win cap k pre ops impl) then out := "BAD\tside=impl\tclause=ok_C12" :: !out;
       let (mfirst, mobs) = model in
       if not (Condvar.wobs_eqb first mfirst) then out := "DIFF\tfields=first" :: !out
       else begin
         let rec cmp i a b = match a, b with
           | x :: a', y :: b' -> if Condvar.wobs_eqb x y then cmp (i + 1) a' b' else i
           | [], [] -> -1 | _ -> i in
         let i = cmp 0 obs mobs in
         if i >= 0 then out := (Printf.sprintf "DIFF\tfields=obs%d" i) :: !out
       end);
    !out
  end

(* every interleaving of the threads' op lists, as a walk over the model states *)
let sched f o =
  let win = n_of_hex (get f "win") and cap = n_of_hex (get f "cap") in
  let k = kind_of f in
  let pre = parse_ops (get f "pre") in
  let threads = Array.of_list (Stdlib.List.map parse_ops (split_on '|' (get f "t"))) in
  let s0 = Stream.exec (Stream.init win cap) pre in
  let all_final = ref true and any_prefix = ref false and values = ref [] in
  let note s =
    if Condvar.ready k s then begin
      any_prefix := true;
      let r = snd (Condvar.waiter_return k s) in
      if not (Stdlib.List.exists (fun x -> Condvar.wobs_eqb (Condvar.Returned x) (Condvar.Returned r)) !values) then values := r :: !values
    end in
  let rec walk s (rest : Stream.op list array) =
    note s;
    let moved = ref false in
    Array.iteri (fun i l -> match l with
      | [] -> ()
      | op :: l' ->
        moved := true;
        let rest' = Array.copy rest in rest'.(i) <- l';
        walk (fst (Stream.step s op)) rest') rest;
    if not !moved && not (Condvar.ready k s) then all_final := false in
  walk s0 threads;
  let out = ref [] in
  (match get_opt o "crash" with
   | Some c -> out := ("BAD\tside=impl\tclause=crash:" ^ c) :: !out
   | None ->
     if get_opt o "end" = Some "stuck" then out := "BAD\tside=impl\tclause=stuck-after-cancel" :: !out;
     let impl = parse_obs (get o "final") in
     let must_return = !all_final and must_park = not !any_prefix in
     if not must_return && not must_park then failwith "schedule outcome depends on the interleaving (generator bug)"
     else if (must_return && get f "exp" <> "ret") || (must_park && get f "exp" <> "park") then
       failwith "exp= disagrees with the model (generator bug)"
     else (match impl with
       | Condvar.StillParked -> if must_return then out := "BAD\tside=impl\tclause=sched:lost-wakeup" :: !out
       | Condvar.Returned r ->
         if must_park then out := "BAD\tside=impl\tclause=sched:returned-with-false-condition" :: !out
         else if not (Stdlib.List.exists (fun x -> Condvar.wobs_eqb (Condvar.Returned x) (Condvar.Returned r)) !values) then
           out := "BAD\tside=impl\tclause=sched:value-not-possible" :: !out));
  !out

(* near-deadline wait under wake-ups that never make the condition true: Timeout, at the
   deadline (not at the first wake-up; not only after the wake-ups have stopped) *)
let tmo_grace_ms = 250
let tmo f o =
  let win = n_of_hex (get f "win") and cap = n_of_hex (get f "cap") in
  let k = kind_of f in
  let pre = parse_ops (get f "pre") and ops = parse_ops (get f "t") in
  let s0 = Stream.exec (Stream.init win cap) pre in
  let rec never s = function
    | [] -> not (Condvar.ready k s)
    | op :: l -> not (Condvar.ready k s) && never (fst (Stream.step s op)) l in
  if not (never s0 ops) then failwith "tmo case whose condition becomes true (generator bug)";
  let out = ref [] in
  (match get_opt o "crash" with
   | Some c -> out := ("BAD\tside=impl\tclause=crash:" ^ c) :: !out
   | None ->
     if get_opt o "end" = Some "stuck" then out := "BAD\tside=impl\tclause=stuck-after-cancel" :: !out;
     let dl = int_of_string ("0x" ^ get f "dl") and el = int_of_string ("0x" ^ get o "el") in
     (match parse_obs (get o "final") with
      | Condvar.StillParked -> out := "BAD\tside=impl\tclause=tmo:never-timed-out" :: !out
      | Condvar.Returned Condvar.WTimeout ->
        if el < dl then out := (Printf.sprintf "BAD\tside=impl\tclause=tmo:timeout-before-deadline:%d<%d" el dl) :: !out
        else if el > dl + tmo_grace_ms then out := (Printf.sprintf "BAD\tside=impl\tclause=tmo:timeout-late:%d>%d" el dl) :: !out
      | Condvar.Returned _ -> out := "BAD\tside=impl\tclause=tmo:returned-with-false-condition" :: !out));
  !out

let step _ cs os =
  let f = fields cs and o = fields os in
  if get_opt f "kind2" = Some "sched" then sched f o else if get_opt f "kind2" = Some "tmo" then tmo f o else history f o

let () = run step
