"""Per-property configuration of bin/check."""

def _prefix(tok):
    # class of an outcome token: "ok", "err:<kind>", "panic", ...
    if tok is None: return "none"
    if tok.startswith("ok") or tok == "=" or tok.startswith("="): return "ok"
    if tok.startswith("err:"): return tok.split("[")[0][:16]
    return tok[:12]

def _len_class(n):
    for b in (0, 1, 16, 48, 64, 256, 1024, 4096, 16384, 65536):
        if n <= b: return "<=%d" % b
    return ">65536"

def c01_class(case, obs):
    new = obs.get("new", obs.get("crash", "none"))
    k = _prefix(new)
    q = case.get("q", "-"); b = case.get("b", "-")
    ql = 0 if q == "-" else len(q) // 2
    bl = 0 if b == "-" else len(b) // 2
    try:
        cap = int(obs.get("capreal", case.get("cap", "0")), 16)
    except ValueError:
        cap = 0
    total = 48 + ql + bl
    rel = "cap<total" if cap < total else ("cap=total" if cap == total else "cap>total")
    return {"new": k, "query_len": _len_class(ql), "body_len": _len_class(bl), "capacity": rel,
            "echo": case.get("echo", "?"), "spec_ok": str(case.get("spec") == "1507")}

def c02_class(case, obs):
    if case.get("kind") == "net":
        return {"len": "net", "from_slice": "-", "read": obs.get("net", obs.get("crash", "?")).split(":")[0], "decode": "net:" + case.get("target", "?")}
    b = case.get("bytes", "-")
    n = 0 if b == "-" else len(b) // 2
    return {"len": _len_class(n), "from_slice": _prefix(obs.get("fs", obs.get("crash"))),
            "read": _prefix(obs.get("rd", obs.get("crash"))), "decode": _prefix(obs.get("dec", obs.get("crash")))}

def stream_class(case, obs):
    ops = case.get("ops", "-")
    kinds = sorted(set(o.split(":")[0][0] for o in ops.split(";"))) if ops != "-" else []
    n = 0 if ops == "-" else ops.count(";") + 1
    steps = obs.get("steps", obs.get("crash", ""))
    feats = []
    if "granted" in steps: feats.append("granted")
    if "ctimeout" in steps: feats.append("credit-timeout")
    if "ccan" in steps or "tcan" in steps or "rcan" in steps: feats.append("cancelled")
    if "rok:" in steps: feats.append("resume-accepted")
    if "roow" in steps: feats.append("resume-out-of-window")
    if "ready:" in steps: feats.append("resume-ready")
    big = any(len(t) > 10 for t in re_split(ops))
    return {"ops": _len_class(n), "op_kinds": "".join(kinds), "features": "+".join(feats) or "none", "values": "64-bit" if big else "small"}

import re as _re
def re_split(ops):
    return _re.split(r"[;:]", ops)

def c18_class(case, obs):
    ops = case.get("ops", "-")
    n = 0 if ops == "-" else ops.count(";") + 1
    steps = obs.get("steps", "")
    return {"ops": _len_class(n), "universe": case.get("ids", "?").count(".") + 1,
            "has_alias": str("L:" in ops), "has_remove": str("X:" in ops), "has_broadcast": str("B" in ops.split(";")),
            "alias_attached": str("b1/" in steps)}

def c19_class(case, obs):
    if "tags" in case:
        return {"kind": case.get("kind", "?"), "scenario": "broadcast-tags", "nodes": case["tags"].count(".") + 1, "first": "-", "max": "-"}
    sc = case.get("script", "-")
    return {"kind": case.get("kind", "?"), "scenario": "retry", "script_len": 0 if sc == "-" else len(sc), "max": case.get("max", "?"),
            "first": obs.get("res", obs.get("crash", "?")), "attempts": obs.get("att", "?")}

def c17_class(case, obs):
    lim = case.get("limit", "-")
    try:
        fl = int(case.get("flen", "0"), 16); l = None if lim == "-" else int(lim, 16)
    except ValueError:
        fl, l = 0, None
    rel = "no-limit" if l is None else ("flen<=limit-2" if fl <= l - 2 else ("limit-1" if fl == l - 1 else ("at-limit" if fl == l else ("limit+1" if fl == l + 1 else "over"))))
    return {"path": case.get("path", "?"), "limit": lim, "relation": rel, "sent": obs.get("sent", obs.get("crash", "?")).split(":")[0]}

def c07_class(case, obs):
    kind = case.get("kind", "?")
    if kind == "pair":
        p = case.get("path", "-")
        try: path = bytes.fromhex(p).decode() if p != "-" else ""
        except Exception: path = "?"
        first = obs.get("rs", obs.get("crash", "")).split("|")[0]
        ec = first[40:48] if len(first) >= 48 else "?"
        return {"kind": kind, "target": path.split("/")[1] if "/" in path else path, "fmt": case.get("fmt", "?"),
                "result": "ok" if ec == "00000000" else "error", "servers": case.get("srv", "0")}
    ops = case.get("ops", "-"); nops = 0 if ops == "-" else ops.count(";") + 1
    ans = obs.get("ans", obs.get("crash", ""))
    kinds = "".join(sorted(set(a[0] for a in ans.split("|") if a)))
    depth = max([int(m, 16) for m in _re.findall(r"\.l([0-9a-f]+):", ans)] or [0])
    return {"kind": kind, "ops": nops, "answers": kinds, "has_mw": str("M:" in ops),
            "depth": "0" if depth == 0 else ("<=16" if depth <= 16 else ">16")}

def c12_class(case, obs):
    sched = case.get("kind2") == "sched"
    o = obs.get("final", "") if sched else obs.get("obs", "")
    first = obs.get("first", "-")
    woke = ("P" if first == "P" else "imm") if not sched else case.get("exp")
    return {"form": "schedule" if sched else "history", "kind": case.get("kind"),
            "parked_first": woke, "returned": str(any(t != "P" for t in o.split(",")) if o not in ("", "-") else False),
            "threads": case.get("t", "").count("|") + 1 if sched else 1}

def c10_class(case, obs):
    f = case.get("fault", "none").split(":")
    return {"puller": case.get("pu", "?"), "transport": case.get("tr", "-"), "comp": case.get("comp", "?"),
            "fault": f[0] if f[0] != "kill" else "kill:" + (f[1] if len(f) > 1 else "?"),
            "dst_before": "absent" if case.get("dst") == "absent" else "present",
            "stale_tmp": str(case.get("tmp") != "absent"),
            "res": obs.get("res", obs.get("crash", "?")[:16])}

def c14_class(case, obs):
    if case.get("k") == "conc":
        th = case.get("th", "")
        n = sum(0 if t == "-" else t.count(";") + 1 for t in th.split("!"))
        return {"kind": "conc", "threads": th.count("!") + 1, "ops": _len_class(n), "mount": "-",
                "wrote": str("737461747573:s6f6b}" in obs.get("res", "")), "called": str(obs.get("log", "-") != "-")}
    ops = case.get("ops", "-"); n = 0 if ops == "-" else ops.count(";") + 1; steps = obs.get("steps", "")
    return {"kind": "seq", "threads": 1, "ops": _len_class(n), "mount": "none" if case.get("pre") == "none" else "mounted",
            "wrote": str("737461747573:s6f6b}" in steps), "called": str("^" in steps)}

def c09_class(case, obs):
    try:
        n = int(case.get("n", "1"), 16); d = case.get("data", "-"); l = 0 if d == "-" else len(d) // 2
        kind = ["value", "typed-array", "complex-array", "reader", "writer"][int(case.get("kind", "0"), 16)]
        puller = ["blocking", "async", "websocket"][int(case.get("pull", "0"), 16)]
    except (ValueError, IndexError):
        n, l, kind, puller = 1, 0, "?", "?"
    r = l % n
    residue = "empty" if l == 0 else ("k*n" if r == 0 else ("k*n+1" if r == 1 else ("k*n-1" if r == n - 1 else "other")))
    k = -(-l // n)
    chunks = "0" if k == 0 else ("1" if k == 1 else ("2-3" if k <= 3 else "4+"))
    pulls = obs.get("pulls", "")
    end = "last" if "c1." in pulls else ("error" if pulls.endswith("e.9") else obs.get("crash", "?"))
    return {"kind": kind, "puller": puller, "chunk_bytes": case.get("n", "?"), "depth": case.get("d", "?"),
            "zstd": case.get("z", "?"), "residue": residue, "chunks": chunks,
            "failure": "none" if case.get("f", "-") == "-" else "injected",
            "segmented": str(case.get("w", "-") != "-"), "sleeps": str(case.get("slp", "0") != "0"), "end": end}

def c04_class(case, obs):
    sched = case.get("sched", "-"); steps = [] if sched == "-" else sched.split(";")
    kinds = set(s.split(":")[0] for s in steps)
    feats = [nm for k, nm in (("u","unknown-id"),("n","notify-inflight-id"),("N","notify-free-id"),("T","timeout"),("C","cancel"),("F","forward"),("Fn","forward-notify")) if k in kinds]
    reps = [s for s in steps if s.startswith("r:")]
    if any(not s.endswith(":0") for s in reps): feats.append("duplicate")
    try:
        order = [int(s.split(":")[1], 16) for s in reps if s.endswith(":0")]
        n = int(case.get("n", "0"), 16)
    except ValueError:
        order, n = [], 0
    out = obs.get("out", obs.get("crash", ""))
    return {"client": case.get("k"), "mode": case.get("mode"),
            "callers": str(n) if n <= 6 else ("<=16" if n <= 16 else "<=64"),
            "reordered": str(order != sorted(order)), "features": "+".join(feats) or "none",
            "outcomes": "".join(sorted(set(t[0] for t in out.split(",") if t)))}

def c03_class(case, obs):
    reqs = case.get("reqs", "-"); rs = [] if reqs == "-" else reqs.split(";")
    try:
        notifies = sum(1 for r in rs if r.split("/")[1] == "1")
    except IndexError:
        notifies = 0
    which = obs.get("tcp") or obs.get("ws") or "-"
    ecs = sorted(set(x.split("/")[1] for x in which.split(";") if x.count("/") == 5)) if which != "-" else []
    groups = set()
    for e in ecs:
        try: v = int(e, 16)
        except ValueError: continue
        groups.add("ok" if v == 0 else "protocol" if v in (1, 3, 6) else "body" if v in (4, 5) else "shed" if v == 8 else "panic" if v == 9 else "handler")
    counts = obs.get("tcpc", obs.get("wsc", ""))
    ran = any(c not in ("0", "") for c in counts.split("."))
    return {"len": _len_class(len(rs)), "mw": case.get("mw", "?"), "transports": case.get("tr", "?"), "shed": case.get("sat", "?"),
            "notifies": str(notifies > 0), "answers": "+".join(sorted(groups)) or "none", "handler_ran": str(ran)}

def c15_class(case, obs):
    hooks = ".".join(case.get(k, "-") for k in ("pre", "post", "xh"))
    first = obs.get("c0", obs.get("crash", "-"))
    try:
        nc = int(case.get("conns", "1"), 16)
    except ValueError:
        nc = 1
    return {"mode": case.get("mode", "?"), "handshake": case.get("hs", "?"), "cause": case.get("cause", "?"),
            "phase": case.get("phase", "?"), "registry": case.get("reg", "?"),
            "hook_panic": str("p" in hooks.split(".")),
            "conns": "1" if nc == 1 else (">=16" if nc >= 16 else "2..15"),
            "parked_seen": first.rsplit("/", 1)[-1] if "/" in first else "-"}

def c16_class(case, obs):
    ev = case.get("ev", "-"); toks = obs.get("outs", obs.get("crash", "")).split(",")
    n = 0 if ev == "-" else ev.count(";") + 1
    return {"cap": case.get("cap", "?"), "mw": case.get("mw", "?"), "events": _len_class(n),
            "refused_at_cap": str("s" in toks), "notify_dropped": str("d" in toks),
            "panic": str(":p" in ev), "error_exit": str(":e" in ev), "inline": str(":i" in ev)}

def c08_class(case, obs):
    k = case.get("k", "?"); t = case.get("t", "?")
    w = {"u8":1,"i8":1,"u16":2,"i16":2,"bf16":2,"f16":2,"u32":4,"i32":4,"f32":4}.get(t, 8)
    xs = case.get("xs", case.get("zs", "-")); n = 0 if xs == "-" else len(xs) // (2 * w)
    d = {"kind": k, "type": t, "len": _len_class(n), "size_width": "1" if n < 64 else ("2" if n < 16384 else "4")}
    try:
        if k == "ref": d.update({"src": case.get("src"), "ql_mod8": int(case.get("ql", "0"), 16) % 8, "m": case.get("m"), "borrowed": obs.get("bor", "?")})
    except ValueError:
        pass
    if k == "net": d.update({"route": case.get("rk"), "client": case.get("ck")})
    if k == "wt": d["u"] = case.get("u")
    if k == "wf": d["bf"] = case.get("bf")
    return d

def c06_class(case, obs):
    sc = case.get("script", "-"); evs = [] if sc == "-" else sc.split(";"); ops = [e.split(":")[0] for e in evs]
    fault = next((e.split(":")[1] for e in evs if e.split(":")[0] in ("F","P") and ":" in e), "none")
    fi = next((i for i,o in enumerate(ops) if o in ("F","P")), len(ops))
    infl = sum(1 for o in ops[:fi] if o in ("S","T","U","W"))
    return {"kind": case.get("kind","?"), "fault": fault, "window": str("P" in ops), "stalled": str("W" in ops),
            "races": ",".join(sorted({o for o in ops if o in ("XA","XB","XC","CB","CC")})) or "-",
            "timeout": str(any(o.startswith("X") for o in ops)), "cancel": str(any(o in ("C","CB","CC") for o in ops)),
            "inflight": "0" if infl==0 else "1" if infl==1 else "2-3" if infl<=3 else "4-16", "sub": case.get("sub","0")}

def c05_class(case, obs):
    try:
        lens = [int(x, 16) for w in case.get("flens", "0").split(",") for x in w.split(".") if x]
        nw = int(case.get("nw", "0"), 16)
    except ValueError:
        lens, nw = [0], 0
    big = max(lens) if lens else 0
    size = "<=8KiB" if big <= 8192 else "<=64KiB" if big <= 65536 else "<=1MiB" if big <= (1 << 20) + 200 else "<=4MiB" if big <= (4 << 20) + 200 else "<=16MiB" if big <= (16 << 20) + 200 else ">16MiB"
    return {"endpoint": case.get("ep", "?"), "scenario": case.get("sc", "?") + ("+wt" if case.get("wt", "0") != "0" else ""),
            "writers": "1" if nw == 1 else "2-4" if nw <= 4 else "5-16" if nw <= 16 else "17-32",
            "largest_frame": size, "torn": str("T:" in obs.get("wire", "")),
            "interrupted": str(any(t.endswith((":int", ":abort")) for t in obs.get("res", "").split(",")))}

PROPS = {
    "C01": {
        "harness": "c01", "driver": "c01", "shards": 16,
        "classify": c01_class,
        # non-trivial: Message::new accepted the message (every route and parser was exercised)
        "nontrivial": lambda cls: cls["new"] == "ok",
        "rule": "cases = random headers over boundary classes x query/body lengths (quick <=4 KiB, thorough <=64 KiB) x body-Vec capacity relation x streaming chunkings x trailing bytes x server echo/own-query mode, all from one SplitMix64 seed; distinct = distinct case line; non-trivial = Message::new accepted it, so all 9 emission routes and 8 parser/reader entry points were compared Also (all tiers): queries and bodies of 2^16-1, 2^16, 2^16+1 bytes; a MessageBuilder route (same query/body/id/notify/format codes through the builder) whose 48 header bytes the driver compares with the encoding of the model's build. cem= fields: create_error_message / create_error_response_like frames, judged against the model's build (query format 0, body format UTF-8).",
        "timeout_s": {"quick": 600, "thorough": 3000},
    },
    "C02": {
        "harness": "c02", "driver": "c02", "shards": 16,
        "classify": c02_class,
        # non-trivial: at least a full header with the right magic (gets past the first two checks)
        "nontrivial": lambda cls: cls["decode"] != "err:hlen" and cls["decode"] != "err:spec",
        "rule": "cases = exhaustive 14^3 product of boundary classes of the three length fields x 3 buffer lengths, wrapping sums, valid frames with every truncation point and structured mutations, random byte strings <=4 KiB; plus 10 hostile headers (wrapping sums, 2^62, 2^63, u64::MAX, bad magic, truncated) sent over real sockets to the blocking, async and WebSocket servers and, as replies from a fake server, to the three clients: the endpoint must survive, fail that connection and keep serving; distinct = distinct byte string; non-trivial = >=48 bytes with the REPE magic (reaches the length arithmetic) The blocking and the async stream readers are reported and judged separately. Net cases also include, on the WebSocket server and client, one binary message carrying a well-formed frame followed by 1, 5 or 48 surplus bytes (must not be dispatched / must not yield a value).",
        "timeout_s": {"quick": 600, "thorough": 3000},
    },
    "C11": {
        "harness": "c11", "driver": "c11", "driver_args": ["C11"], "shards": 16,
        "classify": stream_class,
        "nontrivial": lambda cls: cls["features"] != "none",
        "rule": "cases = every operation sequence of length 4 (quick) / 5 (thorough) over a 17-symbol alphabet of sends, acks (current and foreign file), advance, resumes, cancels with two reasons, credit requests, reconnect polls and a push, window 2, plus random histories up to 200 ops over 64-bit boundary values with hostile acks and oversized chunks, plus directed overflow corners; distinct = distinct history; non-trivial = at least one credit decision, cancel report or resume decision was observed",
        "timeout_s": {"quick": 600, "thorough": 3000},
    },
    "C13": {
        "harness": "c13", "driver": "c11", "driver_args": ["C13"], "shards": 16,
        "classify": stream_class,
        "nontrivial": lambda cls: "resume" in cls["features"],
        "rule": "cases = every sequence of length 4 (quick) / 5 (thorough) over a 16-symbol alphabet of contiguous pushes (logical lengths 0..2, wire overhead 0..1), resumes at offsets 0..3 (current and wrong file; each followed by a replay query), advance, cancel, reconnect poll, ack, send, for ring capacities 0, 2 and 5, plus random long histories with capacities 0..4096; distinct = distinct history; non-trivial = a resume was decided (accepted or refused) in it",
        "timeout_s": {"quick": 600, "thorough": 3000},
    },
    "C18": {
        "harness": "c18", "driver": "c18", "shards": 16,
        "classify": c18_class,
        "nontrivial": lambda cls: cls["alias_attached"] == "True",
        "rule": "cases = every sequence of length 4 (quick) / 5 (thorough) over insert/remove/alias/broadcast on 3 peers x 3 keys (16 symbols), the same alphabet to depth 3/4 after a prefix that attaches three aliases, every re-entrant alias (an operation performed during the alias call's key conversion) after every short history, and random histories up to 300 ops over up to 6 peers x 6 keys; after every operation the full observable state (get, get_by, aliases_for, key_for, len) is recorded; plus concurrent histories (750 quick / 7500 thorough: 2-4 threads x 1-4 operations from insert/remove/alias/broadcast and the queries get/get_by/aliases_for/key_for/len on one shared registry, one third random contended mixes and two thirds round-synchronised duels of alias against remove/re-insert of the same peer, half of them with a slow key conversion), every operation stamped with a global logical clock at invocation and response; the driver searches (Wing-Gong, state-memoised) for an order respecting real time whose results under the extracted specification equal every observed result and whose final state equals the observed final state; distinct = distinct history; non-trivial = at least one alias was attached rounds=<n> (17 cases): the same concurrent history n times, every round on a fresh registry brought to the same state by pre, the threads released together by a spinning gate, every round judged like any concurrent history (first failing round reported): 13 one-shot duels of 400 (quick) / 1000 (thorough) rounds - 2, 3 and 4 callers removing the SAME peer at the same instant (with one or two aliases attached, beside get/len/get_by/aliases_for/key_for queries and a broadcast, and round-synchronised against remove/re-insert of that peer), alias (plain and slow key) against remove, two aliases of one key against a re-pointing, re-pointing against remove and lookup; the results of remove are part of the history, so an insertion removed twice has no order - and 4 migrations of 60 / 150 rounds: one thread moves a key to the other present peer, removes and re-inserts the previous owner and moves the key back, 16 times, while 3-5 free-running readers make 64 get_by lookups each (the key addresses a present peer at every moment, so a lookup that finds nobody has no place in any order). Re-entrant broadcasts: R:<b> makes every notified sink remove peer b during the broadcast; raw broadcasts tagged Utf8/Json carry bytes that are not valid text; sinks of peers with id%3=2 report is_connected()=false; concurrent cases include directed get_by duels (a key that always addresses a present peer is moved and its old owner removed while readers look it up).",
        "timeout_s": {"quick": 600, "thorough": 3000},
    },
    "C19": {
        "harness": "c19", "driver": "c19", "shards": 4, "harness_shards": 16,
        "classify": c19_class,
        "nontrivial": lambda cls: cls["scenario"] == "broadcast-tags" or cls.get("script_len", 0) >= 1,
        "rule": "cases = every per-attempt behaviour script of length <= min(max+1,3) (quick; at most one silent attempt) / <= max+2 (thorough) over {refused, accepted-then-closed, closed-while-idle, silent, malformed reply, application error, success} for max_attempts 1..3, blocking and async fleet, each followed by len+2 calls during which the node turns healthy; the fleet.attempt probe switches the scripted node synchronously before every attempt; plus tag-subset broadcasts over up to 3 nodes x 3 tags; distinct = distinct scenario; non-trivial = non-empty script or a tag broadcast Scripted application-error replies carry varying codes (4096, Timeout, ResourceExhausted, InternalError, MethodNotFound); broadcast tag lists sometimes name every tag twice. Behaviour J (success frame with cut-short JSON: a reply, not retried); zero retry delay on even script lengths; slow=<i>: a broadcast node that answers after default_timeout but within its own timeout must still be reported; a result carrying both a value and an error is a violation (driver-level clause). mon=3: the async scripts of length <= 2 are run again while three monitor tasks poll is_connected / connected_nodes from other runtime threads (observers only; same model and oracle). duo=1: two concurrent callers (call_json / call_message) share one node's cached connection; caller A's request is read and never answered, caller B's request, sent half a timeout later, is answered as soon as A has given its first attempt up, well inside B's deadline (ready=1 records that the node wrote the reply in time, otherwise the case is not judged); driver-level clauses: B reports that reply after exactly one attempt and the node sees B's request exactly once, A stays within max_attempts and reports an error, one of two calls afterwards succeeds. cut=<spec> (async, json/msg, current-thread and multi-thread runtime, max_attempts 1 and 3): before the scenario with the empty script (node healthy throughout: first call, two follow-up calls, one untagged broadcast) one call on the cold node is abandoned by its caller, i.e. its future is dropped when it is pending for the k-th time (p1 = inside the TCP connect, p2.. = connected / waiting for the reply, p3-p4 = usually finished) or after a number of microseconds (t<us>); busy=1: the node is slow to accept (accept queue full) until the abandoned call has been dropped, so the connect pends for as long as the caller waits; ab=S: the node does not answer the abandoned request; the abandoned call's attempts are not counted; the same model and oracle judge the calls (a call that has not returned after a 5 s watchdog is reported as hung = an error result and ends the case), driver-level clauses: no call hangs, the broadcast returns exactly one successful result for the node. hc=1 (blocking and async, json/msg, max_attempts 1..3, warm=0/1: connection opened by the call itself or by an earlier call): caller B's request is in flight on the node's cached connection while a fleet health check of an endpoint the node does not have fails (MethodNotFound); the node keeps reading the connection and answers B only after the health check has returned, well inside B's deadline (ready=1, otherwise not judged); driver-level clauses: B reports that reply after exactly one attempt and the node sees B's request exactly once, one of two calls afterwards succeeds. tags=.. slow=<i> satt=<n> sdelay=<ms> (blocking and async): a broadcast in which node i stays silent on each of its n attempts (node timeout 150 ms) with a retry delay of 350-700 ms between them, so that its error entry is due long after the answering nodes' entries; judged like every tag broadcast (exactly the addressed nodes, one entry each, the silent node's entry an error; the silent node sees between 1 and n requests, every other addressed node exactly one). tog=<rounds> tx=<k> tf=<m> tb=<j> (async, multi-thread runtime): j tasks make 4000 broadcasts each for tag a while k tasks keep re-registering the nodes x0.. (remove_node + add_node of the same name), alternating tags [a] at a bound port that refuses connections and tags [b] at the healthy server B, beside m permanent nodes with tag a on server A; driver-level clauses: server B never reads a request of these broadcasts (hitb=0; the method name is the case's own) and every returned map has an entry for every permanent node and no foreign key (bad=0).",
        "timeout_s": {"quick": 900, "thorough": 3400},
    },
    "C17": {
        "harness": "c17", "driver": "c17", "shards": 2, "harness_shards": 8,
        "classify": c17_class,
        "nontrivial": lambda cls: cls["limit"] != "-",
        "rule": "cases = for each assumed peer frame limit in {1 KiB, 4 KiB, 64 KiB, 1 MiB, (16 MiB thorough), none} and each of the 7 outbound paths (inline response, off-reader response, handler-pushed notify, registry broadcast, proxy-forwarded response, client request, client notify): frame sizes limit-2..limit+2 plus random sizes up to twice the limit, each on a fresh live WebSocket server / proxy / client with a raw tungstenite peer recording message sizes, the on_error hook counted, and a follow-up exchange for liveness; distinct = distinct case; non-trivial = a limit is configured The endpoint's own inbound thresholds vary (defaults, none, 512 bytes); response paths also carry handler errors around the limit; inline responses are also queued behind a backlog of 40 small notifications (burst=1). Arrangements of the same abstract cases: pipe=1 (handler-pushed notify): one write carries a request with a small reply and the notify-request whose handler pushes the notify under test, server and peer on one thread so the writer finds [small reply, notify] queued together; nothing else is sent until the small reply has arrived (10 s), otherwise alive=0. quit=1 (handler-pushed notify): the connection is served through serve_connection_with_cancel and the handler queues the notify, cancels the ShutdownToken and answers; alive = the earlier small exchange and the handler's own small reply both reached the peer unchanged before the close frame; the scenario is performed 12 times on fresh servers and all rounds must be observed alike. conc=K reps=M (inline response, handler-pushed notify): K connections of one server perform M exchanges each at the same time (first half of the rounds started together), with an error hook that formats the event and appends it to a shared log; all K*M instances must show the same message (or none), and a report for each or for none (rep=mixed is a violation, driver-level clause). park=1 (client request, client notify): the message under test is built from a value whose serialisation parks after the caller took its request id, while a second call is started and held unanswered by the raw server; after the first call was sent or refused a third small call must succeed and the held call must complete (alive). hist=N hlen=H (handler-pushed notify, registry broadcast): before the notify under test the same connection carries N notifies of H bytes each, one at a time, each followed by a small exchange so that the outbound queue is drained (70 refused ones of 1 MiB, 320 refused ones of limit+1, 32 delivered ones at the limit); the accepted ones must all have been dropped and reported (H above the limit) or delivered unchanged and unreported, the reports counted for the notify under test are those after the history, and a notify under test that the connection refuses to queue is observed as nothing sent (same model and oracle). upfail=K qlen=Q (proxy): the upstream is a raw TCP listener that closes the connection after reading the request header (1), the whole request (2), the request and writing 20 bytes of a response (3), or at once (4), while a request with a query of 8, limit-100, limit-48, limit+1 or 2*limit bytes is in flight; the raw downstream peer records every binary message until the connection ends; the model is not applied, driver-level clause: no binary message larger than the limit was sent downstream.",
        "timeout_s": {"quick": 900, "thorough": 3400},
    },
    "C07": {
        "harness": "c07", "driver": "c07", "shards": 16, "harness_shards": 4,
        "classify": c07_class,
        "nontrivial": lambda cls: cls["kind"] == "pair" or cls["answers"] not in ("", "N"),
        "rule": "seg = a recording hand-written RepeStruct mounted under 9 roots, relative paths of every depth 0..40 (plain, all-empty, escaped, trailing '/') plus random paths weighted on 15..18 segments with ~0/~1, malformed escapes, UTF-8, string-prefix-only and no-leading-slash paths, middleware before/after; get = every registration sequence of length <=4 (quick) / <=5 (thorough) over 10 ops (2 exact routes, 3 registries, 4 structs, middleware) x 9 lookup paths, plus random histories; each lookup through handle and handle_view with recording middlewares/handlers, plus json_pointer::parse of each path; pair = 35 targets covering every built-in handler kind x body-format codes {0,1,2,3,4,0xffff} x well-formed/truncated/random bodies: handle, handle_with_ctx, handle_view under forwarding chains and, for a share, live TCP/async/WebSocket servers, compared after the echo rule; distinct = distinct case line; non-trivial = a lookup reached a handler, or a pair case Lookups include paths whose first segment below a mount repeats the mount's own name.",
        "timeout_s": {"quick": 600, "thorough": 3000},
    },
    "C10": {
        "harness": "c10", "driver": "c10", "shards": 8, "harness_shards": 8,
        "classify": c10_class,
        "nontrivial": lambda cls: cls["fault"] != "none",
        "rule": "cases = small streams (stream length x chunk size incl. empty, single chunk, exact multiple) x both compressions x every puller (pull_to_file, pull_to_beve_file, pull_to_beve_zst_file, pull_to_file_trailer_verified, pull_to_file_async / _verified_async / _trailer_verified_async over AsyncClient and WebSocketClient): no fault, connection cut after the j-th next response for every j (frame-counting TCP proxy), producer io::Error after k bytes for k = 0, end and every chunk boundary +-1, rejecting verifier; trailer lengths around chunk size and stream length (both TrailerHold branches, longer than the stream); pull_value / pull_value_async under every cut and producer failure; child process aborted by the verif-hooks callback at the n-th hit of each of the 6 probe points; destination absent or pre-existing, stale .svspart present or not; distinct = distinct case line; non-trivial = a fault was injected Also fault=trunc on the decompressing file puller: a proxy halves the final chunk of a compressed stream but lets the end-of-stream flag through (judged by the extracted oracle alone: no file, no temp file, no success). pp=1 on every third producer-failure case: the body writer panics after k bytes instead of returning an error (same expectation: the pull fails, nothing is published). fault=drop:k how=sel|abort (pull_to_file_async / _verified_async / _trailer_verified_async over AsyncClient and WebSocketClient, destination absent or pre-existing, both compressions): the producer writes k bytes and stalls; once it is parked and the deliverable chunks have reached the temp file the pull FUTURE is dropped (the other branch of a select! completes and the client lives on, or the task owning client and pull is aborted); the directory is looked at after the detached decoder had time to wind down (300 ms, then until the temp sibling is gone, then 200 ms); judged by the extracted oracle alone as a failed pull: destination unchanged, no temp file.",
        "timeout_s": {"quick": 600, "thorough": 3000},
    },
    "C12": {
        "harness": "c12", "driver": "c12", "shards": 16, "harness_shards": 16,
        "classify": c12_class,
        "nontrivial": lambda cls: cls["parked_first"] in ("P", "ret", "park"),
        "rule": "histories: a waiter (wait_for_credit / wait_for_reconnect, 20 s deadline) parked on a real thread; every single op of a 20-symbol alphabet and 200 (quick) / 3000 (thorough) random histories applied op by op from other threads, observation after each op within a 100 ms grace; directed immediate-return, dropped-pending and 64-bit corners; schedules: 500 / 10^4 cases of 2-3 signaller threads with random micro-sleeps whose outcome is interleaving-independent (verified by enumerating every interleaving in the extracted model); distinct = distinct case line; non-trivial = the waiter actually parked / a schedule; storms (32 / 160 cases x 60 / 250 rounds): 1..48 notifying acks that free nothing, then one deciding op, applied back to back with 0..80 us busy pauses while the waiter cycles through check-and-park; near-deadline waits (kind2=tmo, deadline 120..300 ms) under wake-ups 10..240 ms apart that never satisfy the wait: Timeout no earlier than the deadline and at most 250 ms after it (driver-level clause)",
        "timeout_s": {"quick": 600, "thorough": 3000},
    },
    "C14": {
        "harness": "c14", "driver": "c14", "shards": 16, "harness_shards": 4,
        "classify": c14_class,
        "nontrivial": lambda cls: cls["wrote"] == "True" or cls["called"] == "True",
        "rule": "cases = every sequence of length <=4 (quick) / <=5 (thorough) over write/read/register_function/register_value on 3 pointers x 3 values (18 symbols), directly and (one level shallower) through Router::with_registry; directed malformed pointers, array-index spellings and mount prefixes x paths; random sequences <=100 ops over pointers with ~0/~1 escapes, empty tokens, index aliases, deep nesting, a third through a mount with JSON/UTF-8/raw/unsupported bodies; after every operation the answer (value / error code / RegistryError variant), the whole root document and the call log are recorded, plus eval_json_pointer/parse_json_pointer on reads; 2-4 threads x 1-4 concurrent requests on a fixed function table with logical timestamps, checked by linearizability search (real-time order) against the extracted model and specification; distinct = distinct case; non-trivial = a write succeeded or a callable ran Cancel reason 0 is the empty string. nest=1 cases (sequences and concurrent histories): an operation that invokes a callable has the next operation of its list (read, write, registration, merge, another call, directly or through the mount) executed from inside that callable on the same registry, under a 6 s watchdog (a call must return); judged as the ordinary sequence / history. rounds= cases: several rounds of one concurrent history (threads released together at a spinning gate, fresh registry per round, per-operation call logs): merge_at into a 400-key object racing writes and read-backs of sibling keys below it (8 rounds); register_function at pointers that already hold a callable racing calls through ONE shared Router::with_registry mount (250 rounds; a call after the registration returned must run the new callable); calls whose callable dwells 0-60 us and then reads or writes the registry while other threads write (16 rounds); each round judged by the linearizability search with merges and re-registrations as operations (memo key = document and callable table).",
        "timeout_s": {"quick": 900, "thorough": 3400},
    },
    "C09": {
        "harness": "c09", "driver": "c09", "shards": 8, "harness_shards": 8,
        "classify": c09_class,
        "nontrivial": lambda cls: cls["chunks"] != "1" or cls["failure"] != "none",
        "rule": "real sync-TCP and WebSocket servers, one SVS producer per (kind, element type, chunk_bytes, session_depth, compression); byte producers (reader, writer): payload lengths 0..3n+1 for n in {1,2,3,7,8}, all boundary residues k*n-1, k*n, k*n+1 for n in {64, 4096} (+65536, 1 MiB thorough), depths 0..3 (quick) / 0..8 (thorough), both compressions; every split of tiny payloads into <=3 writes plus random segmentations incl. zero-length and over-long writes; failure injected at 0, 1, L and every chunk boundary +-1, each both as an io::Error returned by the body writer / reader and as a panic of that application code on the producer thread; random sleeps in producer and consumer; BEVE producers (serde value, typed arrays, complex array) around the same boundaries; pullers blocking / async / WebSocket; per case: raw peer open, next until last or error, one more next; second stream with cancel then next; pull_to_vec / pull_value / pull_typed_slice / pull_complex_slice re-encoded; for zstd the harness decompresses the pulled bodies itself; distinct = distinct case line; non-trivial = not a single-chunk clean stream Producer failures alternate between io::ErrorKind::Other and UnexpectedEof. dup=1 cases: two connections pull one stream id with a gated producer; the two replies must be next_handler's two replies (one end marker, one error). Producer failure kinds err/eof/pipe/reset/inval; ae2= (next on a finished stream id while a second stream is open must not return a chunk); 300 003 random bytes through zstd from reader producers with a 3-byte first read. conc=K cases: K (3..8) consumers, one connection each (blocking / async / WebSocket), barrier-synchronised, pull K different resources of one server over 25..40 rounds (x5 thorough); every result is judged as an ordinary pull of its own resource. park=1 cases: a request-form cancel (TCP: from a second connection; WebSocket: same connection) is acknowledged while an earlier next of that stream is parked on a producer waiting at a gate after g bytes; every next after the acknowledgement takes the place of the after-cancel response of the ordinary case. early= cases: blocking / async / WebSocket pullers whose decoder is done long before the end (wrong element type, a consumer reading a 10-byte prefix, a consumer failing without reading) on streams of 40..400 chunks from a fresh server; afterwards raw next requests for stream ids 1..3 over the same connection take the place of the after-cancel response. rel=1 cases: a high-level pull_to_vec (blocking / async / WebSocket) of a stream whose producer waits at a gate after g bytes; once the producer is parked (and lag ms later) a second connection sends request-form cancels for stream ids 1..3 (a fresh server), asks for a next of id 1 itself (the after-cancel response) and then opens the gate; at least two chunks do not exist before the acknowledgement, so the puller needs a next after the release and must report an error (judged by ok_C09 on the ordinary case whose stream breaks off after g bytes), never the prefix as a complete stream.",
        "timeout_s": {"quick": 900, "thorough": 3400},
    },
    "C04": {
        "harness": "c04", "driver": "c04", "shards": 2, "harness_shards": 8,
        "classify": c04_class,
        "nontrivial": lambda cls: cls["callers"] != "1" and (cls["reordered"] == "True" or cls["features"] != "none"),
        "rule": "cases = for each client (blocking, async, WebSocket): every permutation of the reply order for n<=4 (quick) / n<=6 (thorough) concurrent callers on clones of one client, each once plain and once with injected unknown-id, duplicate and (WebSocket) notify frames (reusing in-flight and free ids); random orders with unanswered callers for n<=16 / n<=64; batch_json of 1..40 requests answered in a shuffled order; 200 / 2000 model-sampled interleavings of register/write/receive-match/deliver/timeout/cancel for 2-4 callers forced by parking threads/tasks at the verif-hooks probe points; plus, AsyncClient only, 150 / 1500 cases of forward_message with (a) an in-flight id, (b) a free id, (c) the id the counter reaches next, (d) a notify message, (e) the id of an in-flight forward, and 3 directed + 150 / 1500 generated id-reuse cases (a forward or counter call registering the id of a call that is finished or matched-but-undelivered, the first call then timing out or being cancelled; includes the replay of the defect repaired in 76754fa); the scripted server never answers a request whose id currently belongs to another call; observation = caller -> (reply tag | timeout | cancel | refused | none | io error), subscriber tags, sorted ids of the counter-issued requests; distinct = distinct case; non-trivial = >1 caller and (reordered replies or an injected/timeout/cancel/forward step) Frames nobody is waiting for (unknown id, second answer, answer after timeout/cancel) carry error codes 0/7/9/4096; WebSocket cases also run without a notification subscriber (sub=0, model_C04_nosub); batches of 1..40 and 63..200 requests; harness-only burner steps Z/z (a call whose body fails to serialize) with ids compared by rank. stall=<i>:<off>:<ms> (par cases on the two raw-TCP clients, 8 async + 4 blocking quick / 24 + 12 thorough): the i-th frame of the script (never the last) reaches the client in two pieces, <off> bytes (inside the length prefix, the header, right after it, inside the query or the body), then 0.7..1.4 s of silence, then the rest, while the other calls are in flight. mode=spin (blocking client, 4 cases quick / 12 thorough): 8 threads on clones of the one client make 200 rounds of calls, all 8 released at the same instant from a spin barrier in every round (a sleeping barrier first, so that every thread arrives freshly woken), the server answering each round in a shuffled order: 1600 callers per case, each must get its own response and the 1600 ids must be distinct. Large batches (blocking client, 8 cases quick / 24 thorough): batch_json of 512 requests (at most 64 workers, each returning to the shared queue several times), half answered in any order the window allows, half group by group in a shuffled order; burst=1 (harness-only): the server writes the scripted frames in as few writes as possible (collected while the requests they answer have been read); rep=50 (harness-only, hex): the case is run up to 80 times on fresh connections and one genuine observation is reported (the first run in which some result is not the positional one, else the last run), judged like any batch case: the result at position i is the response to request i. sub=d (WebSocket, 18 par cases for n<=3 callers): subscribe_notifies(), then the receiver is dropped without unsubscribe_notifies(); the first server-pushed notify after that reuses the id of a call in flight (right after the requests, or before the j-th reply for a caller not answered yet), more notifies follow; judged by model_C04_nosub / ok_C04_nosub like sub=0 (no subscriber: nothing reaches one, every call gets its own response). Long stall (AsyncClient, 2 par cases): stall=<i>:<off>:8fc, a response frame cut inside the header (offset 24) or at the start of the body (offset 50) with 2.3 s of silence in between while 3-4 calls are in flight.",
        "timeout_s": {"quick": 900, "thorough": 3400},
    },
    "C03": {
        "harness": "c03", "driver": "c03", "shards": 4, "harness_shards": 8,
        "classify": c03_class, "nontrivial": lambda cls: cls["handler_ran"] == "True",
        "rule": "cases = pipelines (quick <=16, thorough <=64 requests) of hand-built frames over the product version {1,0,2,255,100} x query-format code {1,0,2,0xffff,0x101} x UTF-8/non-UTF-8 queries x 15 routes (json, typed, json-ctx, typed-ctx each inline and _blocking, with_handler adapter, typed slice, typed slice ref, erased inline/off-reader, registry mount with two callables, struct mount) and 12 unregistered paths x body-format codes {0,1,2,3,unknown} x body encodings (JSON, BEVE, typed/aligned slices, generic empty array, truncated, garbage, empty, mismatched announcement) x notify byte {0,1,2,0x80,0xff} x middleware refusal, with and without a registered middleware, sent to blocking TCP, async TCP and WebSocket servers; plus WebSocket-only pipelines with panicking off-reader handlers and with the off-reader permit pool (limit 1) held by a gated handler; a hidden sync request ends each pipeline, then a 150 ms grace detects extra frames; distinct = distinct case line; non-trivial = at least one user function ran TCP pipelines are sent in one write together with the first 20 bytes of the sync request and collected in two phases: every owed response must arrive before the rest of the sync request is sent (a response that shows up only afterwards is reported as withheld). gap= cases trickle notifies into an async server with a 400 ms read timeout. Erased handlers also return error responses carrying their own query. cuts=<ms>:<offsets> cases (both TCP servers, 2..4 requests): a request leaves the peer in two pieces with a 400 ms pause after the given offset of its frame (inside the header, at the header/query boundary, inside the query, at the query/body boundary, inside the body, one byte before the end). oq=1..3 hold=<ms> cases (WebSocket only): a server of its own whose outbound queue holds 1..3 messages, over 4 KiB socket buffers; the peer sends 40..64 requests (user functions pad their results to 0.5..1 KiB, op pad) and reads nothing until everything is sent, waits 300 ms, lets the parked off-reader handlers return together, waits 300 ms more and only then reads; flavours: inline routes only / 3..8 gated off-reader requests first / inline and off-reader routes interleaved; judged by the ordinary model (one response each, reader-answered ones in arrival order).",
        "timeout_s": {"quick": 900, "thorough": 3400},
    },
    "C15": {
        "harness": "c15", "driver": "c15", "shards": 4, "harness_shards": 4,
        "classify": c15_class, "nontrivial": lambda cls: cls["handshake"] == "ok",
        "rule": "cases = {serve_listener, serve_listener_with_graceful_drain, SharedWebSocketServer::accept(+_with_handshake)+serve_connection(+_with_cancel/_with_handshake), hand-rolled 101 + adopt_upgraded} x exit cause {clean close, socket loss, text frame, oversized frame, non-REPE binary frame, inline handler panic, embedder/shutdown token cancel, drain-deadline / task abort} x phase {idle, inline handler blocked, off-reader handler parked polling is_cancelled, outbound queue blocked on a slow peer, inside a blocking connect hook} with random hook configurations (counting / notifying / sleeping / alias-attaching hooks before and after with_peer_registry, handshake-aware hooks, 1..4 disconnect hooks around the registry's), plus a panicking connect hook at each position class and failed handshakes (garbage, wrong path, HTTP without upgrade); 1..4 (quick) / 1..32 (thorough) concurrent connections; per connection: callbacks ordered by a global sequence counter with registry.get/get_by sampled inside, registry after, frames seen by a raw tungstenite peer up to the first response, cancellation seen by the parked handler; plus staggered cases for every serving path: 2..4 connections under one server / shutdown trigger, connection 0 ended alone (clean close / socket loss / inline handler panic / protocol violation) while the others are idle or have a parked off-reader handler; after its disconnect hooks and a 300 ms settle each survivor must show 0 disconnect callbacks, presence in the registry with all its aliases, no cancellation seen, an answered fresh request, an un-cancelled embedder ShutdownToken, and a newly opened connection must be served; then the survivors are ended and judged by the usual clauses; distinct = distinct case; non-trivial = handshake succeeded two=1 cases: two servers built alike share the one peer registry, odd-numbered connections go to the second. early=1: the shared token is cancelled before the connection is accepted (hooks still pair up); shk=1: every alias action also re-points a key shared by all connections at the current peer (a perturbation; not counted among the peer's own keys). oq=1..3 stall=1 (queue phase, token causes): the outbound queue holds 1..3 messages and the flooding handler keeps it full, so the reader is parked handing over the response when the cause is raised; the peer keeps not reading for 4 s; the disconnect hooks must have run within 3 s (driver: note=). burst=1 (modes s / a): 16 connections are accepted and upgraded first and served at the same instant, then 30 further waves of 16 on a second server built alike; no two live connections may carry the same peer id (driver: note=).",
        "timeout_s": {"quick": 900, "thorough": 3400},
    },
    "C16": {
        "harness": "c16", "driver": "c16", "shards": 2, "harness_shards": 16,
        "classify": c16_class,
        "nontrivial": lambda cls: cls["refused_at_cap"] == "True" or cls["notify_dropped"] == "True" or cls["panic"] == "True",
        "rule": "cases = scripted histories on one live WebSocket connection with with_offreader_limit(cap), cap 1..3 and unlimited (quick) / 1..16 and unlimited (thorough), 0..2 middlewares: for cap <= 3 every release order x every exit kind {return, error, panic}^cap x every notify pattern (sampled 1/17 in quick), each with 4 x cap parked requests over the json/typed/ctx blocking routes, inline requests and notifies interleaved during saturation, optional refill after each exit, a fresh batch of cap (+1 refused) after all exits and a final inline call; random release orders for larger caps; random walks of 5..120 events; handlers park on per-request channels and keep an atomic gauge; a raw tungstenite peer with hand-built frames waits for the effect of every event; distinct = distinct script; non-trivial = a request was refused or dropped at the cap, or a handler panicked; bursts (pipe=1, oq=1..4): at the cap 2..96 requests leave the client in one write while the server's outbound queue holds 1..4 messages; odd tags panic with a non-string payload; slowrej= (a refusal at the cap that took more than 150 ms; driver-level clause) pipe=2 oq=1..2: cap+2..40 blocking requests leave the client in one write into a FREE pool (exactly the first cap are admitted), then all parked handlers are released at the same instant, half of them by panic (replies of such a group are compared as a set, in script order). stallq=<ms> oq=1..3: the handler holding the last slot (ctx route) keeps the outbound queue full with 32 KiB pushes over 4 KiB socket buffers, the peer does not read; a request arriving at the cap waits behind the writer for 150..600 ms and is then refused with its id, the connection lives on; one case in which the handler itself leaves during a 5.6 s stall (its reply is delivered once the peer reads).",
        "timeout_s": {"quick": 900, "thorough": 3400},
    },
    "C08": {
        "harness": "c08", "driver": "c08", "shards": 16,
        "classify": c08_class,
        "nontrivial": lambda cls: cls["len"] != "<=0" or cls["kind"] in ("enc", "cplx", "ref", "net"),
        "rule": "cases = 12 element types (u8..u64, i8..i64, bf16, f16, f32, f64; elements = boundary bit patterns incl. quiet/signalling NaNs with payloads, infinities, subnormals, integer extremes, and random bits) x lengths 0..33, 62..66, 255,256,257,4095,4096,16383,16384 (+ random <=5000, 10^5 thorough) through body_typed_slice / body_beve / write_message_typed_slice / write_message and the four decoder x encoder pairs; complex pairs for f32,f64,i16; borrowing route via handle_view with the frame placed at misalignment 0..7 in an 8-aligned buffer x query length 0..16 x lengths over all SIZE widths x aligned/regular/serde bodies, slice pointer range observed; every ordered pair of distinct element types x bulk/generic/aligned bodies x bulk decoder and both bulk routes; 6 wrong body-format codes; live blocking and async TCP servers: 8 route x client pairings x several path lengths; distinct = distinct case line; non-trivial = non-empty slice, or the empty slice on an encode/cross-decode/route path Bulk bodies are also built on builders that already hold a body; the streaming writers are also handed headers with a preset body format; wrong-format cases also use the generic encoding (05 00 for the empty vector).",
        "timeout_s": {"quick": 900, "thorough": 3400},
    },
    "C06": {
        "harness": "c06", "driver": "c06", "shards": 2, "harness_shards": 16, "classify": c06_class,
        "nontrivial": lambda cls: cls["fault"] != "none" or cls["timeout"] == "True" or cls["cancel"] == "True",
        "rule": "for each client (blocking, async, WebSocket): faults injected by a raw scripted peer after k of n requests were read — clean close, RST (SO_LINGER 0), bad magic, length mismatch, query_length=2^64-21/body_length=100, body_length=2^62, header truncated at 20 and 47 bytes, body truncated at 5 offsets, truncated then RST; on WebSocket also close frame, text frame, reserved bits, masked server frame, unknown opcode — with n = 0..3 (quick) / 0..16 (thorough) calls in flight, with and without per-call timeouts, then two later calls; the same with the reader parked at fail.after_shutdown (subscriber state, a later call, a cancel, then the drain); all lives of 2 / 3 calls over {answered, expired, expiry forced before removal / after take / before lookup via probes, cancelled, cancel forced after take / before lookup, pending}, sequential and overlapped, with late responses, an unknown-id response and forward_message residue probes, then a fresh call that must still work; the stalled-writer scenario (8 MiB request to a peer with 4 KiB SO_RCVBUF that does not read) on all three clients; 150 / 1500 random valid scenarios; 5 s watchdog per wait; distinct = distinct case line; non-trivial = a fault, timeout or cancel occurred XZ: a 1 ns per-call timeout. ham=1 (async client): call 0 stays in flight while 12 / 40 further calls expire or are cancelled and two tasks keep the pending-map lock busy (forwards refused as duplicates of call 0, never reaching the wire); every finished call is then probed for residue. q=1 (harness-only switch, all three clients): in a stalled-writer scenario W:b;F:k;S:c the call c is started before the fault is injected - it has passed its before_write probe and waits for the writer lock held by the stalled call b when the connection fails (faults that leave the connection open with the peer still not reading, and a close); in flight or later, the property demands an error of it within the watchdog, so the model's verdict is unchanged. keep=1: after a fault that leaves the connection open, the scripted peer keeps it open and unread while the later calls are made (defect D12).",
        "timeout_s": {"quick": 900, "thorough": 3400},
    },
    "C05": {
        "harness": "c05", "driver": "c05", "shards": 1, "harness_shards": 8, "classify": c05_class,
        "nontrivial": lambda cls: cls["writers"] != "1" or cls["torn"] == "True",
        "rule": "per repetition (1 quick, 10 thorough): for each of blocking Client, AsyncClient, WebSocketClient, Server, AsyncServer and WebSocketServer, cases with 32, 16, 1-3 or 2-12 concurrent writers (threads or tasks on clones, pipelined requests, off-reader or inline responses plus pushed notifies) with frame lengths straddling 8 KiB, 16 KiB, 64 KiB, 212992, 1 MiB and 4 MiB (16/32 MiB in thorough) by -1/0/+1; stall with a 200 ms write timeout: an 8-32 MiB frame to a peer whose SO_RCVBUF was set to 4096 before listen/connect and which does not read for 900 ms, on Client, Server and AsyncServer; the same stall without a timeout on every endpoint; cancellation: an AsyncClient / WebSocketClient call aborted or timed out 0-200 ms into writing 8-16 MiB to a stalled peer; every case ends with two probe calls, then the raw peer reads to end of stream and analyses it with an independent byte-exact parser (tag, sequence number, position-keyed body pattern, checksum per frame); small streams are also parsed by the extracted Coq parse_frames; distinct = distinct case; non-trivial = more than one writer or a torn frame Also: blocking client with hundreds of frames that each fit the 8 KiB write buffer against a stalled peer with a write timeout; servers whose interrupted response is the last of the pipeline; cancelq (writers already queued behind the abandoned frame); a WebSocket server backlog of 200 queued pushes behind a stalled peer. Driver-level clauses: idle= (the bytes a server had put on the wire before the probes must end at a frame boundary; last responses of 8192/8193/8200/8239 bytes), hung= (a call whose request left whole but which ended only by its own 20 s timeout). Stall cases whose stall is 1.2x .. 2.5x the write timeout (AsyncServer 400 ms: 480, 560, 640, 720, 1000 ms; blocking Client and Server 200 ms: 240, 320, 500 ms): the peer reads again shortly after the timeout cut the frame, so anything written on the connection after the interruption arrives behind the torn frame.",
        "timeout_s": {"quick": 900, "thorough": 3400},
    },
}
