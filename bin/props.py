"""Per-property configuration of bin/check."""

def _prefix(tok):
    # class of an outcome token: "ok", "err:<kind>", "panic", ...
    if tok is None: return "none"
    if tok.startswith("ok") or tok == "=" or tok.startswith("="): return "ok"
    if tok.startswith("err:"): return tok.split("[")[0][:16]
    return tok[:12]

def _len_class(n):
    for b in (0, 1, 16, 48, 64, 256, 1024, 4096, 16384, 65536):
        if n <= b: return "<=%d" % b
    return ">65536"

def c01_class(case, obs):
    new = obs.get("new", obs.get("crash", "none"))
    k = _prefix(new)
    q = case.get("q", "-"); b = case.get("b", "-")
    ql = 0 if q == "-" else len(q) // 2
    bl = 0 if b == "-" else len(b) // 2
    try:
        cap = int(obs.get("capreal", case.get("cap", "0")), 16)
    except ValueError:
        cap = 0
    total = 48 + ql + bl
    rel = "cap<total" if cap < total else ("cap=total" if cap == total else "cap>total")
    return {"new": k, "query_len": _len_class(ql), "body_len": _len_class(bl), "capacity": rel,
            "echo": case.get("echo", "?"), "spec_ok": str(case.get("spec") == "1507")}

def c02_class(case, obs):
    b = case.get("bytes", "-")
    n = 0 if b == "-" else len(b) // 2
    return {"len": _len_class(n), "from_slice": _prefix(obs.get("fs", obs.get("crash"))),
            "read": _prefix(obs.get("rd", obs.get("crash"))), "decode": _prefix(obs.get("dec", obs.get("crash")))}

PROPS = {
    "C01": {
        "harness": "c01", "driver": "c01", "shards": 16,
        "classify": c01_class,
        # non-trivial: Message::new accepted the message (every route and parser was exercised)
        "nontrivial": lambda cls: cls["new"] == "ok",
        "rule": "cases = random headers over boundary classes x query/body lengths (quick <=4 KiB, thorough <=64 KiB) x body-Vec capacity relation x streaming chunkings x trailing bytes x server echo/own-query mode, all from one SplitMix64 seed; distinct = distinct case line; non-trivial = Message::new accepted it, so all 9 emission routes and 8 parser/reader entry points were compared",
        "timeout_s": {"quick": 600, "thorough": 3000},
    },
    "C02": {
        "harness": "c02", "driver": "c02", "shards": 16,
        "classify": c02_class,
        # non-trivial: at least a full header with the right magic (gets past the first two checks)
        "nontrivial": lambda cls: cls["decode"] != "err:hlen" and cls["decode"] != "err:spec",
        "rule": "cases = exhaustive 14^3 product of boundary classes of the three length fields x 3 buffer lengths, wrapping sums, valid frames with every truncation point and structured mutations, random byte strings <=4 KiB; distinct = distinct byte string; non-trivial = >=48 bytes with the REPE magic (reaches the length arithmetic)",
        "timeout_s": {"quick": 600, "thorough": 3000},
    },
}
